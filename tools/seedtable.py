#!/usr/bin/env python3
"""Prints the markdown table of kept seeded changes from /verif/seeded/*/meta.json (for DESIGN.md section 13)."""
import json,glob,os,re
rows=[]
for d in sorted(glob.glob('/verif/seeded/C*')):
    mp=os.path.join(d,'meta.json')
    if not os.path.exists(mp): continue
    m=json.load(open(mp))
    readme=m.get('needs_to_manifest','')
    # first meaningful line as the description
    desc=''
    for l in readme.splitlines():
        l=l.strip().lstrip('#').strip()
        if len(l)>25 and not l.lower().startswith(('seeded','property','c0','c1','c2')):
            desc=l; break
    desc=re.sub(r'[`*|]','',desc)[:150]
    det=m.get('detection',{})
    tier='-'
    if (det.get('quick') or {}).get('exit')==1: tier='quick'
    elif (det.get('thorough') or {}).get('exit')==1: tier='thorough'
    by=''
    for c in m.get('caught_by',[])[:1]:
        mm=re.search(r'harness=(\S+)',c); by=mm.group(1) if mm else ''
    rows.append((m['property'],m['name'],desc,tier,by))
print('| change | what it does (from its README) | caught at | by harness |')
print('|---|---|---|---|')
for p,n,desc,tier,by in rows:
    print(f'| {p}-{n} | {desc} | {tier} | {by} |')
print()
print(f'{len(rows)} changes kept; {sum(1 for r in rows if r[3]!="-")} caught ({sum(1 for r in rows if r[3]=="quick")} at the quick tier).')
