#!/bin/bash
# usage: tools/allcheck.sh <dir containing patch.diff> [ids...]
# Applies the patch in a scratch worktree of /repo HEAD and runs the quick check of every property (or the given ids)
# against it. Prints one line per check: ALARM when a VIOLATION is raised, else ok / inconclusive.
set -u
MD=$1; shift
IDS=${*:-C01 C02 C03 C04 C05 C06 C07 C08 C09 C10 C11 C12 C13 C14 C15 C16 C17 C18 C19 C20}
export GOFLAGS=-mod=mod GOPROXY=off GOSUMDB=off GOTOOLCHAIN=local
WT=$(mktemp -d /tmp/allwt.XXXXXX)
git -C /repo worktree add --detach "$WT" HEAD >/dev/null 2>&1 || exit 2
trap 'git -C /repo worktree remove --force "$WT" >/dev/null 2>&1' EXIT
git -C "$WT" apply "$MD/patch.diff" || { echo "ALLCHECK $(basename $(dirname $MD))/$(basename $MD) patch-does-not-apply"; exit 2; }
( cd "$WT" && go build ./... ) || { echo "ALLCHECK $MD does-not-build"; exit 2; }
for id in $IDS; do
  VD=$(mktemp -d /tmp/allvd.XXXXXX); mkdir -p $VD/evidence $VD/replays
  for f in harness rt tools known_findings.txt properties.jsonl bin; do ln -s /verif/$f $VD/$f; done
  VERIF_DIR=$VD VERIF_REPO="$WT" timeout 1800 /verif/bin/vsym check $id --tier quick > $VD/out.log 2>&1; code=$?
  v=$(grep -c '^VIOLATION' $VD/out.log); inc=$(grep -c 'INCONCLUSIVE\|MODEL-MISMATCH' $VD/out.log)
  st=ok; [ "$inc" != 0 ] && st=inconclusive; [ "$code" = 1 ] && st=ALARM
  echo "ALLCHECK $(basename $(dirname $MD))/$(basename $MD) $id $st exit=$code violations=$v inconclusive=$inc"
  if [ "$st" != ok ]; then grep -A1 '^VIOLATION\|INCONCLUSIVE\|MODEL-MISMATCH' $VD/out.log | head -6; mkdir -p "$MD/logs"; cp $VD/out.log "$MD/logs/$id.log"; fi
  rm -rf $VD
done
