#!/bin/bash
# usage: tools/seedrecheck.sh <seeded dir>   - re-runs the property's check against the kept change and refreshes meta.json
D=$1; ID=$(basename $D | cut -d- -f1)
q=$(/verif/tools/seedcheck.sh $ID "$D" quick 2>&1 | grep '^RESULT')
t=""
case "$q" in *"exit=1"*) ;; *) t=$(/verif/tools/seedcheck.sh $ID "$D" thorough 2>&1 | grep '^RESULT');; esac
python3 - "$D" "$q" "$t" <<'PY'
import json,sys,re,os
d,q,t=sys.argv[1:4]
def det(r):
    if not r: return None
    m=re.search(r'exit=(\d+) violations=(\d+) inconclusive=(\d+)',r)
    return {"exit":int(m.group(1)),"violations":int(m.group(2)),"inconclusive":int(m.group(3))} if m else {"raw":r}
p=os.path.join(d,'meta.json'); meta=json.load(open(p))
meta["detection"]={"quick":det(q),"thorough":det(t)}
meta["detected"]=bool((det(q) or {}).get("exit")==1 or (det(t) or {}).get("exit")==1)
log=os.path.join(d,'check_quick.log')
if os.path.exists(log):
    v=[l.strip() for l in open(log) if 'harness=' in l and 'label=' in l][:2]
    meta["caught_by"]=v
json.dump(meta,open(p,'w'),indent=1)
print("RECHECK",os.path.basename(d),"detected=",meta["detected"],q[-45:],t[-45:])
PY
rm -f "$D"/check_thorough.log
