#!/usr/bin/env python3
"""Regenerates MANIFEST.json from harness/<id>/spec.json files (claimed checks) and tools/na.json (reasons for unclaimed)."""
import json, os, sys
vd = os.path.dirname(os.path.dirname(os.path.abspath(__file__)))
props = [json.loads(l) for l in open(os.path.join(vd, 'properties.jsonl'))]
na_reasons = json.load(open(os.path.join(vd, 'tools', 'na.json')))
checks, na = [], []
for p in props:
    pid = p['id']
    sp = os.path.join(vd, 'harness', pid, 'spec.json')
    if os.path.exists(sp) and not json.load(open(sp)).get('disabled'):
        s = json.load(open(sp))
        checks.append({
            "property_id": pid,
            "quick_cmd": f"bin/vsym check {pid} --tier quick",
            "thorough_cmd": f"bin/vsym check {pid} --tier thorough",
            "evidence_file": f"evidence/{pid}.json",
            "replay_cmd_template": f"bin/vsym replay {pid} {{path}}",
            "engine": "vsym",
            "level_claimed": {
                "category": "model_checking",
                "text": s.get("level_text", "Bounded symbolic model checking of the real go/ssa code: every path of the harness over symbolic inputs is explored, path feasibility and each assertion (pc AND NOT assertion) are decided by an SMT solver; unsat on every path = holds for all input values within the stated bounds."),
                "design_ref": f"DESIGN.md section 5 ({pid})"
            },
            "level_note": "Bounds: quick: " + s.get("bounds", {}).get("quick", "") + " | thorough: " + s.get("bounds", {}).get("thorough", "") + " | Assumes: " + "; ".join(s.get("assumptions", [])) + " | Trusted: go/ssa construction (x/tools v0.29.0), the vsym interpreter and its intrinsics (validated by native witness replay), z3 5.1.0 / cvc5 1.0.",
            "technique": s.get("technique", "SMT-based symbolic execution of go/ssa (vsym + z3)")
        })
    else:
        na.append({"property_id": pid, "reason": na_reasons.get(pid, "check not built yet in this session (see DESIGN.md section 5)")})
m = {
    "version": 1,
    "setup_cmd": "cd engine && GOFLAGS=-mod=mod GOPROXY=off GOSUMDB=off GOTOOLCHAIN=local go build -o ../bin/vsym . && cd .. && bin/vsym selftest",
    "hooks": {
        "guard": "verif",
        "enable": "no source hooks: harnesses and the vr runtime are injected with go/packages Overlay (engine) and `go test -tags verif -overlay <json>` (native replay); /repo's tree is never written",
        "baseline_off_cmd": "cd /repo && go test -json -vet=off -count=1 -timeout 25m ./...",
        "source_commits": [],
        "add_only": True
    },
    "engines": [{"name": "vsym", "path": "engine", "serves_properties": [c["property_id"] for c in checks],
                 "kind_free_text": "symbolic executor for go/ssa written for this task; SMT back end z3 5.1.0 (z3-new -in; cvc5 --incremental per harness where stated) over one long-lived process per worker"}],
    "checks": checks,
    "not_applicable": na,
    "notes": "All checks are decided by solver verdicts over symbolic inputs of the real code (regenerated from /repo on every run). See DESIGN.md."
}
json.dump(m, open(os.path.join(vd, 'MANIFEST.json'), 'w'), indent=1)
print("checks:", [c["property_id"] for c in checks], "n/a:", [n["property_id"] for n in na])
