#!/usr/bin/env python3
"""Runs the repo test-suite (guard off) and compares with /root/.vp/BASELINE.json stable_pass."""
import json, subprocess, sys, ast, os
b = json.load(open('/root/.vp/BASELINE.json'))
sp = b['stable_pass']
if isinstance(sp, str): sp = ast.literal_eval(sp)
stable = set(sp)
env = dict(os.environ, GOFLAGS='-mod=mod', GOPROXY='off', GOSUMDB='off')
repo = sys.argv[1] if len(sys.argv) > 1 else '/repo'
p = subprocess.run(['go', 'test', '-json', '-vet=off', '-count=1', '-timeout', '25m', './...'], cwd=repo, env=env, capture_output=True, text=True)
passed = set()
failed = set()
for line in p.stdout.splitlines():
    try: e = json.loads(line)
    except Exception: continue
    if e.get('Test') and e.get('Action') in ('pass', 'fail'):
        (passed if e['Action'] == 'pass' else failed).add(e['Package'] + '::' + e['Test'])
missing = sorted(stable - passed)
print(f"passed={len(passed)} failed={len(failed)} stable={len(stable)} stable_not_passing={len(missing)}")
for m in missing[:30]: print("  NOT PASSING:", m)
sys.exit(1 if missing else 0)
