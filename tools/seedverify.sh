#!/bin/bash
# usage: tools/seedverify.sh <ID> <mutant dir (patch.diff, demo_test.go, README.md)> <name>
# Confirms in a scratch worktree of /repo HEAD: demo passes on the clean tree, patch applies and compiles, the
# existing suite still passes with it, the demo fails with it. Then runs the check of <ID> against it and
# stores everything under /verif/seeded/<ID>-<name>/.
set -u
ID=$1; MD=$2; NAME=$3; FORCEDIR=${4:-}
export GOFLAGS=-mod=mod GOPROXY=off GOSUMDB=off GOTOOLCHAIN=local
OUT=/verif/seeded/$ID-$NAME
WT=$(mktemp -d /tmp/seedv.XXXXXX)
git -C /repo worktree add --detach "$WT" HEAD >/dev/null 2>&1 || { echo "worktree failed"; exit 2; }
cleanup() { git -C /repo worktree remove --force "$WT" >/dev/null 2>&1; }
trap cleanup EXIT
demo="$MD/demo_test.go"
pkgname=$(grep -m1 '^package ' "$demo" | awk '{print $2}')
# directory: first existing relative directory mentioned in the demo's header comment, else by package name
dir=""
for tok in $(head -12 "$demo" | tr -c 'A-Za-z0-9_./-' ' '); do
  t=$(echo "$tok" | sed 's#^[./]*##; s#/*$##')
  case "$t" in *..*) continue;; esac
  if [ -n "$t" ] && [ "$t" != "." ] && [ -d "$WT/$t" ] && ls "$WT/$t"/*.go >/dev/null 2>&1; then dir=$t; break; fi
done
[ -n "$FORCEDIR" ] && dir=$FORCEDIR
if [ -z "$dir" ]; then
  base=${pkgname%_test}
  if [ "$base" = "notation" ]; then dir="."; else dir=$(cd "$WT" && grep -rl --include=*.go "^package $base\$" . | grep -v _test.go | head -1 | xargs dirname | sed 's#^\./##'); fi
fi
tests=$(grep -o '^func TestSeeded[A-Za-z0-9_]*' "$demo" | awk '{print $2}' | paste -sd'|')
[ -z "$tests" ] && tests=$(grep -o '^func Test[A-Za-z0-9_]*' "$demo" | awk '{print $2}' | paste -sd'|')
cp "$demo" "$WT/$dir/zz_seeded_demo_test.go"
clean=fail; mutant=pass; base=fail; applies=no
( cd "$WT" && timeout 900 go test -vet=off -count=1 -run "^($tests)\$" "./$dir" >"$WT/.clean.log" 2>&1 ) && clean=pass
if git -C "$WT" apply "$MD/patch.diff" 2>"$WT/.apply.log"; then
  applies=yes
  if ( cd "$WT" && go build ./... >/dev/null 2>&1 ); then
    ( cd "$WT" && timeout 900 go test -vet=off -count=1 -run "^($tests)\$" "./$dir" >"$WT/.mut.log" 2>&1 ) || mutant=fail
    rm -f "$WT/$dir/zz_seeded_demo_test.go"
    python3 /verif/tools/baseline_check.py "$WT" >"$WT/.base.log" 2>&1 && base=pass
  else
    mutant=nobuild
  fi
fi
rm -f "$WT/$dir/zz_seeded_demo_test.go"
echo "VERIFY $ID-$NAME dir=$dir tests=$tests applies=$applies demo_clean=$clean demo_mutant=$mutant baseline=$base"
if [ "$applies" = yes ] && [ "$clean" = pass ] && [ "$mutant" = fail ] && [ "$base" = pass ]; then
  mkdir -p "$OUT"
  cp "$MD/patch.diff" "$OUT/patch.diff"; cp "$demo" "$OUT/demo_test.go"; [ -f "$MD/README.md" ] && cp "$MD/README.md" "$OUT/README.md"
  q=$(/verif/tools/seedcheck.sh $ID "$MD" quick 2>&1 | grep '^RESULT')
  t=""
  case "$q" in *"exit=1"*) ;; *) [ -z "${SEED_NO_THOROUGH:-}" ] && t=$(/verif/tools/seedcheck.sh $ID "$MD" thorough 2>&1 | grep '^RESULT');; esac
  python3 - "$ID" "$NAME" "$dir" "$tests" "$q" "$t" "$OUT" <<'PY'
import json,sys,re,os
ID,NAME,d,tests,q,t,out=sys.argv[1:8]
readme=open(os.path.join(out,'README.md')).read() if os.path.exists(os.path.join(out,'README.md')) else ''
def det(r):
    if not r: return None
    m=re.search(r'exit=(\d+) violations=(\d+) inconclusive=(\d+)',r)
    return {"exit":int(m.group(1)),"violations":int(m.group(2)),"inconclusive":int(m.group(3))} if m else {"raw":r}
meta={"property":ID,"name":NAME,"demo_dir":d,"demo_run":tests,
 "confirmed":{"demo_passes_on_unchanged_tree":True,"patch_applies_and_builds":True,"existing_suite_passes_with_change":True,"demo_fails_with_change":True,
   "how":"tools/seedverify.sh in a scratch worktree of /repo HEAD: go test -run of the demo before and after git apply; tools/baseline_check.py with the change"},
 "needs_to_manifest":readme[:1500],
 "detection":{"quick":det(q),"thorough":det(t)},
 "detected": bool((det(q) or {}).get("exit")==1 or (det(t) or {}).get("exit")==1)}
json.dump(meta,open(os.path.join(out,'meta.json'),'w'),indent=1)
print("KEPT",ID,NAME,"detected=",meta["detected"],q,t)
PY
fi
