#!/bin/bash
# usage: tools/seedcheck.sh <ID> <mutant dir containing patch.diff> [tier]
# Applies the patch in a scratch worktree of /repo, runs the check of <ID> against it (VERIF_REPO), removes the worktree.
set -u
ID=$1; MD=$2; TIER=${3:-quick}
export GOFLAGS=-mod=mod GOPROXY=off GOSUMDB=off GOTOOLCHAIN=local
WT=$(mktemp -d /tmp/seedwt.XXXXXX)
git -C /repo worktree add --detach "$WT" HEAD >/dev/null 2>&1 || { echo "worktree failed"; exit 2; }
if ! git -C "$WT" apply "$MD/patch.diff"; then echo "RESULT $ID $(basename $MD) patch-does-not-apply"; git -C /repo worktree remove --force "$WT"; exit 2; fi
OUT=$(mktemp /tmp/seedout.XXXXXX)
VD=$(mktemp -d /tmp/seedvd.XXXXXX)
# private copy of /verif state that the check writes (evidence, replays) so that concurrent runs do not clash
mkdir -p $VD/evidence $VD/replays
for f in harness rt tools known_findings.txt properties.jsonl bin; do ln -s /verif/$f $VD/$f; done
VERIF_DIR=$VD VERIF_REPO="$WT" timeout 3600 /verif/bin/vsym check $ID --tier $TIER > "$OUT" 2>&1
code=$?
v=$(grep -c '^VIOLATION' "$OUT")
inc=$(grep -c 'INCONCLUSIVE\|MODEL-MISMATCH' "$OUT")
echo "RESULT $ID $(basename $(dirname $MD))/$(basename $MD) exit=$code violations=$v inconclusive=$inc"
grep -A2 '^VIOLATION' "$OUT" | head -12
grep 'INCONCLUSIVE\|MODEL-MISMATCH' "$OUT" | head -5
cp "$OUT" "$MD/check_$TIER.log" 2>/dev/null
rm -rf "$OUT" "$VD"
git -C /repo worktree remove --force "$WT"
