//go:build verif

package verifier

import (
	"context"
	"crypto/x509"
	"time"

	"github.com/notaryproject/notation-core-go/signature"
	"github.com/notaryproject/notation-go"
	vr "github.com/notaryproject/notation-go/internal/zzvr"
	"github.com/notaryproject/notation-go/verifier/trustpolicy"
	ocispec "github.com/opencontainers/image-spec/specs-go/v1"
)

// VsymC06API: the expiry and authentic-timestamp validations as a caller meets them - through a verifier that
// was constructed at some earlier instant, with the trust stores of the statement in either order - judged on
// the results reported in the outcome. (This file uses the public API only.)
func VsymC06API() {
	kitEnv = kitEnvState{}
	kitInstallEnvelope()
	defer func() { kitNowFixed = 0 }()
	constructedAt := c06apiSec("constructedAt")
	now := c06apiSec("now")
	vr.Assume(constructedAt <= now)
	sa := vr.Choice("scheme", 2) == 1
	ref := now // the instant certificate validity is judged at
	st := int64(1700000000)
	if sa {
		st = c06apiSec("signingTime")
		ref = st
	}
	nb, na := c06apiSec("notBefore"), c06apiSec("notAfter")
	vr.Assume(nb <= na)
	none := vr.Bool("expiry.none")
	exp := c06apiSec("expiry")
	if !vr.Symbolic() {
		if exp == now || nb == ref || na == ref {
			vr.SkipNative() // boundaries are not realisable against the real clock
		}
		if constructedAt != now && vr.Kind() != "witness" {
			vr.SkipNative() // a verifier that is older than the verification cannot be staged without waiting
		}
	}
	leaf := &x509.Certificate{Raw: []byte{'c', '0'}}
	leaf.Subject.Country, leaf.Subject.Province, leaf.Subject.Organization = []string{"US"}, []string{"WA"}, []string{"a"}
	scheme := signature.SigningSchemeX509
	stores := []string{"ca:s"}
	tsaListed := false
	opt := trustpolicy.TimestampOption("")
	signingTime := time.Unix(st, 0)
	if sa {
		scheme = signature.SigningSchemeX509SigningAuthority
		stores = []string{"signingAuthority:s"}
		if vr.Symbolic() {
			leaf.NotBefore, leaf.NotAfter = time.Unix(nb, 0), time.Unix(na, 0)
		} else {
			// natively: a fixed signing time in 2033 and windows placed around it, away from the real clock
			signingTime = time.Unix(2000000000, 0)
			leaf.NotBefore, leaf.NotAfter = c06apiAround(nb, st), c06apiAround(na, st)
		}
	} else {
		leaf.NotBefore, leaf.NotAfter = c06apiInst(nb, now), c06apiInst(na, now)
		switch vr.Choice("trustStores", 3) {
		case 1:
			stores, tsaListed = []string{"ca:s", "tsa:t"}, true
		case 2:
			stores, tsaListed = []string{"tsa:t", "ca:s"}, true
		}
		opt = trustpolicy.TimestampOption(vr.OneOf("verifyTimestamp", "", "always", "afterCertExpiry"))
	}
	sattr := signature.SignedAttributes{SigningScheme: scheme, SigningTime: signingTime}
	if !none {
		sattr.Expiry = c06apiInst(exp, now)
	}
	kitEnv.content = &signature.EnvelopeContent{
		Payload: signature.Payload{ContentType: "application/vnd.cncf.notary.payload.v1+json", Content: vr.JSONBytes(vr.JObj("targetArtifact", vr.JObj("mediaType", vr.JStr("m"), "digest", vr.JStr("d"), "size", vr.JNum(1))))},
		SignerInfo: signature.SignerInfo{SignedAttributes: sattr, SignatureAlgorithm: signature.AlgorithmPS256, CertificateChain: []*x509.Certificate{leaf}, Signature: []byte("sig")},
	}
	tsaRoot := &x509.Certificate{Raw: []byte{'t', '0'}}
	store := &kitStore{answers: map[string]kitStoreAnswer{stores[0]: {certs: []*x509.Certificate{leaf}}, "ca:s": {certs: []*x509.Certificate{leaf}}, "tsa:t": {certs: []*x509.Certificate{tsaRoot}}}}
	doc := &trustpolicy.OCIDocument{Version: "1.0", TrustPolicies: []trustpolicy.OCITrustPolicy{{Name: "p", RegistryScopes: []string{"*"},
		SignatureVerification: trustpolicy.SignatureVerification{VerificationLevel: "audit", VerifyTimestamp: opt}, TrustStores: stores, TrustedIdentities: []string{"*"}}}}
	kitNowFixed = constructedAt
	v, err := NewVerifierWithOptions(store, VerifierOptions{OCITrustPolicy: doc, RevocationCodeSigningValidator: &kitValidator{results: kitOKResults(1)}, RevocationTimestampingValidator: &kitValidator{}})
	vr.Assert(err == nil, "harness: verifier")
	if err != nil {
		return
	}
	kitNowFixed = now
	outcome, _ := v.Verify(context.Background(), ocispec.Descriptor{MediaType: "m", Digest: "d", Size: 1}, []byte{1}, notation.VerifierVerifyOptions{ArtifactReference: kitRef, SignatureMediaType: kitJWS})
	vr.Assert(outcome != nil, "an outcome is returned")
	if outcome == nil {
		return
	}
	var expiry, authTS *notation.ValidationResult
	for _, r := range outcome.VerificationResults {
		switch r.Type {
		case trustpolicy.TypeExpiry:
			expiry = r
		case trustpolicy.TypeAuthenticTimestamp:
			authTS = r
		}
	}
	vr.Assert(expiry != nil && authTS != nil, "the expiry and the authentic-timestamp validations are both reported")
	if expiry == nil || authTS == nil {
		return
	}
	vr.Assert(vr.Iff(expiry.Error != nil, vr.And(vr.Not(none), vr.Not(now < exp))), "expiry fails iff an expiry time is set and is not after the moment of this verification - whenever the verifier was constructed")
	if sa {
		vr.Assert(vr.Iff(authTS.Error == nil, vr.And(nb <= st, st <= na)), "signing authority: passes iff the certificate was valid at the authentic signing time")
		vr.Reach("signing authority")
	} else {
		expired := na < now
		validNow := vr.And(nb <= now, now <= na)
		applies := vr.And(tsaListed, vr.Or(opt != trustpolicy.OptionAfterCertExpiry, expired))
		// the envelope carries no countersignature: when timestamping applies the validation must fail
		vr.Assert(vr.Implies(applies, authTS.Error != nil), "a tsa store is listed (in whatever position) and timestamp verification applies, but there is no countersignature: fails")
		vr.Assert(vr.Implies(vr.Not(applies), vr.Iff(authTS.Error == nil, validNow)), "timestamping does not apply: passes iff the certificate is valid at the moment of verification")
		vr.Reach("notary.x509")
	}
}

func c06apiSec(tag string) int64 { return int64(vr.Int(tag, 1, 1<<40)) }

func c06apiInst(sec, now int64) time.Time {
	if vr.Symbolic() {
		return time.Unix(sec, 0)
	}
	if sec < now {
		return time.Unix(1000000000, 0)
	}
	return time.Unix(4000000000, 0)
}

func c06apiAround(sec, ref int64) time.Time {
	if sec < ref {
		return time.Unix(1950000000, 0)
	}
	return time.Unix(2050000000, 0)
}

func init() { vsymHarnesses["VsymC06API"] = VsymC06API }
