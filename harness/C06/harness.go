//go:build verif

package verifier

import (
	"context"
	"crypto/x509"
	"errors"
	"time"

	revocationresult "github.com/notaryproject/notation-core-go/revocation/result"
	"github.com/notaryproject/notation-core-go/signature"
	"github.com/notaryproject/notation-go"
	vr "github.com/notaryproject/notation-go/internal/zzvr"
	"github.com/notaryproject/notation-go/verifier/trustpolicy"
	"github.com/notaryproject/tspclient-go"
)

//vsym:stub github.com/notaryproject/tspclient-go.ParseSignedToken = c06ParseSignedToken
//vsym:stub (*github.com/notaryproject/tspclient-go.SignedToken).Info = c06TokenInfo
//vsym:stub (*github.com/notaryproject/tspclient-go.TSTInfo).Validate = c06InfoValidate
//vsym:stub (*github.com/notaryproject/tspclient-go.SignedToken).Verify = c06TokenVerify
//vsym:stub github.com/notaryproject/notation-core-go/x509.ValidateTimestampingCertChain = c06ValidateTSAChain
//vsym:stub crypto/x509.NewCertPool = c06NewCertPool
//vsym:stub (*crypto/x509.CertPool).AddCert = c06AddCert
//vsym:stub (*github.com/notaryproject/tspclient-go.Timestamp).Format = c06TimestampFormat

// instant relative to the verification instant: under the engine the drawn second itself; natively an
// instant on the same side of the real clock.
func c06Inst(sec, now int64) time.Time {
	if vr.Symbolic() {
		return time.Unix(sec, 0)
	}
	if sec < now {
		return time.Unix(1000000000, 0)
	}
	if sec > now {
		return time.Unix(4000000000, 0)
	}
	return time.Now().Add(time.Hour) // "equal to now" cannot be realised natively; treated as later
}

func c06Sec(tag string) int64 { return int64(vr.Int(tag, 1, 1<<40)) }

func c06Outcome(scheme signature.SigningScheme, chain []*x509.Certificate, level *trustpolicy.VerificationLevel) *notation.VerificationOutcome {
	return &notation.VerificationOutcome{
		VerificationLevel: level,
		EnvelopeContent: &signature.EnvelopeContent{SignerInfo: signature.SignerInfo{
			SignedAttributes: signature.SignedAttributes{SigningScheme: scheme},
			CertificateChain: chain, Signature: []byte("signature-bytes"),
		}},
	}
}

// VsymC06Expiry: expired iff expiry is set and not after the moment of verification.
func VsymC06Expiry() {
	now := c06Sec("now")
	kitNowSecs, kitNowCalls = []int64{now}, 0
	o := c06Outcome(signature.SigningSchemeX509, nil, trustpolicy.LevelStrict)
	none := vr.Bool("expiry.none")
	exp := c06Sec("expiry")
	if !vr.Symbolic() && exp == now {
		vr.SkipNative() // boundary not realisable against the real clock
	}
	if !none {
		o.EnvelopeContent.SignerInfo.SignedAttributes.Expiry = c06Inst(exp, now)
	}
	r := verifyExpiry(o)
	vr.Assert(vr.Iff(r.Error != nil, vr.And(vr.Not(none), vr.Not(now < exp))), "expiry fails iff an expiry time is set and is not after the moment of verification")
	vr.Assert(r.Type == trustpolicy.TypeExpiry && r.Action == trustpolicy.ActionEnforce, "expiry result typed and carrying the level's action")
	if r.Error != nil {
		vr.Reach("expired")
	} else {
		vr.Reach("not expired")
	}
}

type c06Cert struct {
	nb, na int64
	c      *x509.Certificate
}

func c06Chain(n int, ref int64) []c06Cert {
	var out []c06Cert
	for i := 0; i < n; i++ {
		cc := c06Cert{nb: c06Sec("notBefore"), na: c06Sec("notAfter")}
		vr.Assume(cc.nb <= cc.na)
		cc.c = &x509.Certificate{Raw: []byte{byte('0' + i)}, NotBefore: c06Inst(cc.nb, ref), NotAfter: c06Inst(cc.na, ref)}
		cc.c.Subject.CommonName = "c"
		out = append(out, cc)
	}
	return out
}

func c06Certs(cs []c06Cert) []*x509.Certificate {
	var out []*x509.Certificate
	for _, c := range cs {
		out = append(out, c.c)
	}
	return out
}

// VsymC06NoTimestamp: signing-authority scheme, and notary.x509 when timestamping does not apply.
func VsymC06NoTimestamp() {
	n := vr.Choice("chain", vr.Param("chain", 2)) + 1
	sa := vr.Choice("scheme", 2) == 1
	if sa {
		st := c06Sec("signingTime")
		chain := c06Chain(n, st)
		if !vr.Symbolic() {
			for _, c := range chain {
				if c.nb == st || c.na == st {
					vr.SkipNative()
				}
			}
		}
		o := c06Outcome(signature.SigningSchemeX509SigningAuthority, c06Certs(chain), trustpolicy.LevelStrict)
		if vr.Symbolic() {
			o.EnvelopeContent.SignerInfo.SignedAttributes.SigningTime = time.Unix(st, 0)
		} else {
			o.EnvelopeContent.SignerInfo.SignedAttributes.SigningTime = time.Unix(2000000000, 0)
			for _, c := range chain { // native: place the windows around the fixed signing time
				c.c.NotBefore, c.c.NotAfter = c06Around(c.nb, st), c06Around(c.na, st)
			}
		}
		r := verifyAuthenticTimestamp(context.Background(), "p", []string{"signingAuthority:s"}, trustpolicy.SignatureVerification{VerificationLevel: "strict"}, &kitStore{}, &kitValidator{}, o)
		valid := true
		for _, c := range chain {
			valid = vr.And(valid, c.nb <= st, st <= c.na)
		}
		vr.Assert(vr.Iff(r.Error == nil, valid), "signing authority: passes iff every certificate was valid at the authentic signing time")
		vr.Reach("signing authority")
		return
	}
	now := c06Sec("now")
	kitNowSecs, kitNowCalls = []int64{now}, 0
	chain := c06Chain(n, now)
	if !vr.Symbolic() {
		for _, c := range chain {
			if c.nb == now || c.na == now {
				vr.SkipNative()
			}
		}
	}
	o := c06Outcome(signature.SigningSchemeX509, c06Certs(chain), trustpolicy.LevelStrict)
	tsa := vr.Choice("tsaStoreListed", 3) // 0 no, 1 yes, 2 malformed entry
	stores := []string{"ca:s"}
	switch tsa {
	case 1:
		stores = append(stores, "tsa:t")
	case 2:
		stores = append(stores, "nosep")
	}
	opt := trustpolicy.TimestampOption(vr.OneOf("verifyTimestamp", "", "always", "afterCertExpiry"))
	r := verifyAuthenticTimestamp(context.Background(), "p", stores, trustpolicy.SignatureVerification{VerificationLevel: "strict", VerifyTimestamp: opt}, &kitStore{}, &kitValidator{}, o)
	if tsa == 2 {
		vr.Assert(r.Error != nil, "malformed trust store entry fails the timestamp validation")
		return
	}
	expired := false
	validNow := true
	for _, c := range chain {
		expired = vr.Or(expired, c.na < now)
		validNow = vr.And(validNow, c.nb <= now, now <= c.na)
	}
	applies := vr.And(tsa == 1, vr.Or(opt != trustpolicy.OptionAfterCertExpiry, expired))
	// no countersignature in this harness: when timestamping applies the validation must fail
	vr.Assert(vr.Implies(applies, r.Error != nil), "timestamping applies but the envelope carries no countersignature: fails")
	vr.Assert(vr.Implies(vr.Not(applies), vr.Iff(r.Error == nil, validNow)), "timestamping does not apply: passes iff every certificate is valid at the moment of verification")
	vr.Reach("notary.x509")
}

// c06Around places an instant before / after the fixed native signing time (2033) but after the real clock, so
// that a window valid at the signing time does not contain the moment of the replay: code that judges the
// chain at time.Now() instead of the authentic signing time is told apart natively as well.
func c06Around(sec, ref int64) time.Time {
	if sec < ref {
		return time.Unix(1950000000, 0)
	}
	return time.Unix(2050000000, 0)
}

// ---- timestamp countersignature branch (tspclient behind contract stubs; engine only) ----------

var c06 struct {
	parseErr, infoErr, validateErr, verifyErr, chainErr bool
	tsValue                                             int64
	accuracy                                            time.Duration
	token                                               *tspclient.SignedToken
	info                                                *tspclient.TSTInfo
	parsed                                              []byte
	validatedMsg                                        []byte
	verifyOpts                                          *x509.VerifyOptions
	verifyCalls                                         int
	tsaChain                                            []*x509.Certificate
	pools                                               map[*x509.CertPool][]*x509.Certificate
	chainChecked                                        []*x509.Certificate
}

func c06ParseSignedToken(ber []byte) (*tspclient.SignedToken, error) {
	c06.parsed = ber
	if c06.parseErr {
		return nil, errors.New("cannot parse token")
	}
	c06.token = &tspclient.SignedToken{}
	return c06.token, nil
}

func c06TokenInfo(t *tspclient.SignedToken) (*tspclient.TSTInfo, error) {
	if c06.infoErr || t != c06.token {
		return nil, errors.New("no TSTInfo")
	}
	c06.info = &tspclient.TSTInfo{}
	return c06.info, nil
}

func c06InfoValidate(i *tspclient.TSTInfo, message []byte) (*tspclient.Timestamp, error) {
	c06.validatedMsg = message
	if c06.validateErr {
		return nil, errors.New("message imprint mismatch")
	}
	return &tspclient.Timestamp{Value: time.Unix(c06.tsValue, 0), Accuracy: c06.accuracy}, nil
}

func c06TokenVerify(t *tspclient.SignedToken, ctx context.Context, opts x509.VerifyOptions) ([]*x509.Certificate, error) {
	c06.verifyCalls++
	o := opts
	c06.verifyOpts = &o
	if c06.verifyErr {
		return nil, errors.New("untrusted TSA")
	}
	return c06.tsaChain, nil
}

func c06ValidateTSAChain(chain []*x509.Certificate) error {
	c06.chainChecked = chain
	if c06.chainErr {
		return errors.New("not a timestamping certificate chain")
	}
	return nil
}

func c06NewCertPool() *x509.CertPool {
	p := new(x509.CertPool)
	if c06.pools == nil {
		c06.pools = map[*x509.CertPool][]*x509.Certificate{}
	}
	c06.pools[p] = nil
	return p
}

func c06AddCert(p *x509.CertPool, c *x509.Certificate) { c06.pools[p] = append(c06.pools[p], c) }

func c06TimestampFormat(t *tspclient.Timestamp, layout string) string { return "timestamp" }

// VsymC06Timestamp: timestamping applies; the countersignature decides.
func VsymC06Timestamp() {
	n := vr.Choice("chain", vr.Param("chain", 2)) + 1
	now := c06Sec("now")
	kitNowSecs, kitNowCalls = []int64{now}, 0
	chain := c06Chain(n, now)
	o := c06Outcome(signature.SigningSchemeX509, c06Certs(chain), trustpolicy.LevelStrict)
	opt := trustpolicy.TimestampOption(vr.OneOf("verifyTimestamp", "", "always", "afterCertExpiry"))
	expired := false
	for _, c := range chain {
		expired = vr.Or(expired, c.na < now)
	}
	vr.Assume(vr.Or(opt != trustpolicy.OptionAfterCertExpiry, expired)) // timestamping applies
	present := vr.Choice("countersignature", 2) == 1
	if present {
		o.EnvelopeContent.SignerInfo.UnsignedAttributes.TimestampSignature = []byte("token")
	}
	c06.parseErr, c06.infoErr, c06.validateErr = vr.Bool("token.parseError"), vr.Bool("token.infoError"), vr.Bool("token.imprintMismatch")
	c06.verifyErr, c06.chainErr = vr.Bool("token.untrustedTSA"), vr.Bool("token.chainRuleError")
	c06.tsValue = c06Sec("timestamp")
	c06.accuracy = []time.Duration{0, time.Second, time.Hour}[vr.Choice("accuracy", 3)]
	accSec := int64(c06.accuracy / time.Second)
	tsaRoot := &x509.Certificate{Raw: []byte("tsaroot")}
	tsaLeaf := &x509.Certificate{Raw: []byte("tsaleaf")}
	tsaLeaf.Subject.CommonName = "tsa"
	tsaRoot.Subject.CommonName = "tsaroot"
	c06.tsaChain = []*x509.Certificate{tsaLeaf, tsaRoot}
	store := &kitStore{answers: map[string]kitStoreAnswer{}}
	storeShape := vr.Choice("tsaStore", 3) // 0 holds the TSA root, 1 empty, 2 load error
	switch storeShape {
	case 0:
		store.answers["tsa:t"] = kitStoreAnswer{certs: []*x509.Certificate{tsaRoot}}
	case 2:
		store.answers["tsa:t"] = kitStoreAnswer{err: true}
	}
	store.answers["ca:s"] = kitStoreAnswer{certs: []*x509.Certificate{{Raw: []byte("not-a-tsa")}}}
	rev := &kitValidator{err: vr.Bool("tsa.revocationError")}
	r0, r1 := vr.Int64("tsa.revocation.leaf"), vr.Int64("tsa.revocation.root")
	rev.results = []*revocationresult.CertRevocationResult{{Result: revocationresult.Result(r0)}, {Result: revocationresult.Result(r1)}}

	r := verifyAuthenticTimestamp(context.Background(), "p", []string{"ca:s", "tsa:t"}, trustpolicy.SignatureVerification{VerificationLevel: "strict", VerifyTimestamp: opt}, store, rev, o)

	inWindows := true
	for _, c := range chain {
		inWindows = vr.And(inWindows, c.nb <= c06.tsValue-accSec, c06.tsValue+accSec <= c.na)
	}
	okRes := func(x int64) bool {
		return vr.Or(x == int64(revocationresult.ResultOK), x == int64(revocationresult.ResultNonRevokable))
	}
	want := vr.And(present, vr.Not(c06.parseErr), vr.Not(c06.infoErr), vr.Not(c06.validateErr), storeShape == 0,
		vr.Not(c06.verifyErr), vr.Not(c06.chainErr), inWindows, vr.Not(rev.err), okRes(r0), okRes(r1))
	vr.Assert(vr.Iff(r.Error == nil, want), "passes iff a countersignature is present, parses, covers the signature, chains to the policy's tsa stores, obeys the timestamping certificate rules, its time range lies inside every certificate's validity, and the TSA chain is not revoked")
	if r.Error == nil {
		vr.Reach("timestamp accepted")
		vr.Assert(string(c06.parsed) == "token", "the envelope's countersignature was parsed")
		vr.Assert(string(c06.validatedMsg) == "signature-bytes", "message imprint validated over the envelope's signature value")
		vr.Assert(c06.verifyCalls == 1 && c06.verifyOpts != nil && c06.verifyOpts.CurrentTime.Equal(time.Unix(c06.tsValue, 0)), "TSA chain verified at the timestamp's time")
		roots := c06.pools[c06.verifyOpts.Roots]
		vr.Assert(c06.verifyOpts.Roots != nil && len(roots) == 1 && roots[0] == tsaRoot, "TSA trust anchors are exactly the certificates of the statement's tsa stores")
		vr.Assert(len(c06.chainChecked) == 2 && c06.chainChecked[0] == tsaLeaf, "timestamping certificate rules checked on the verified TSA chain")
		vr.Assert(rev.calls == 1 && len(rev.chain) == 2 && rev.chain[0] == tsaLeaf && rev.chain[1] == tsaRoot, "revocation checked for the TSA chain")
		for _, c := range store.calls {
			vr.Assert(c == "tsa:t", "only tsa stores are loaded for timestamp verification")
		}
	} else {
		vr.Reach("timestamp rejected")
	}
}

func init() {
	vsymHarnesses["VsymC06Expiry"] = VsymC06Expiry
	vsymHarnesses["VsymC06NoTimestamp"] = VsymC06NoTimestamp
}

