//go:build verif

package verifier

import (
	"github.com/notaryproject/notation-go"
	vr "github.com/notaryproject/notation-go/internal/zzvr"
)

// VsymC06Validators: the timestamping revocation validator the caller supplies is the one the verifier uses
// for the TSA chain - whatever else is configured for the code-signing chain (anchor: "issued by an
// unrevoked TSA" needs the validator to be there and to be the caller's).
func VsymC06Validators() {
	ts := &kitValidator{}
	cs := &kitValidator{}
	cl := &kitClient{}
	opts := VerifierOptions{OCITrustPolicy: kitOCIDoc("strict", nil, []string{"ca:s", "tsa:t"}, []string{"*"})}
	tsGiven := vr.Choice("timestampingValidatorGiven", 2) == 1
	if tsGiven {
		opts.RevocationTimestampingValidator = ts
	}
	codeSigning := vr.Choice("codeSigningRevocation", 3) // none, context-aware validator, deprecated client
	switch codeSigning {
	case 1:
		opts.RevocationCodeSigningValidator = cs
	case 2:
		opts.RevocationClient = cl
	}
	kitDefaultValidators = nil
	var v *verifier
	var err error
	if vr.Choice("constructor", 2) == 1 {
		// the deprecated constructor takes the document and the plugin manager as arguments
		doc := opts.OCITrustPolicy
		opts.OCITrustPolicy = nil
		var nv notation.Verifier
		nv, err = NewWithOptions(doc, &kitStore{}, nil, opts)
		if err == nil {
			v, _ = nv.(*verifier)
		}
	} else {
		v, err = NewVerifierWithOptions(&kitStore{}, opts)
	}
	vr.Assert(err == nil && v != nil, "harness: verifier")
	if err != nil || v == nil {
		return
	}
	vr.Assert(v.revocationTimestampingValidator != nil, "a verifier always has a timestamping revocation validator")
	if tsGiven {
		got, _ := v.revocationTimestampingValidator.(*kitValidator)
		vr.Assert(got == ts, "the timestamping revocation validator is the one the caller supplied")
		vr.Reach("caller's timestamping validator")
	} else {
		vr.Reach("default timestamping validator")
	}
	switch codeSigning {
	case 1:
		got, _ := v.revocationCodeSigningValidator.(*kitValidator)
		vr.Assert(got == cs && v.revocationClient == nil, "the code-signing validator is the one the caller supplied")
	case 2:
		got, _ := v.revocationClient.(*kitClient)
		vr.Assert(got == cl, "the deprecated client is the one the caller supplied")
	default:
		vr.Assert(v.revocationCodeSigningValidator != nil, "a default code-signing validator is built")
	}
}

func init() { vsymHarnesses["VsymC06Validators"] = VsymC06Validators }
