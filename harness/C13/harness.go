//go:build verif

package truststore

// C13: trust stores load only valid certificates from real files of the named store.
// Store type and name are symbolic bytes; the file system and the certificate reader are answer oracles
// under the engine and a real temporary tree with generated certificates natively.

import (
	"context"
	"crypto/ecdsa"
	"crypto/elliptic"
	"crypto/rand"
	"crypto/x509"
	"crypto/x509/pkix"
	"encoding/pem"
	"errors"
	"io/fs"
	"math/big"
	"os"
	"path/filepath"
	"strings"
	"syscall"
	"time"

	"github.com/notaryproject/notation-go/dir"
	vr "github.com/notaryproject/notation-go/internal/zzvr"
)

//vsym:stub os.Lstat = c13Lstat
//vsym:stub os.ReadDir = c13ReadDir
//vsym:stub os.DirFS = c13DirFS
//vsym:stub os.Stat = c13Stat
//vsym:stub os.Open = c13Open
//vsym:stub (*os.File).Stat = c13FileStat
//vsym:stub (*os.File).ReadDir = c13FileReadDir
//vsym:stub (*os.File).Readdir = c13FileReaddir
//vsym:stub (*os.File).Close = c13FileClose
//vsym:stub github.com/notaryproject/notation-core-go/x509.ReadCertificateFile = c13ReadCertificateFile
//vsym:stub (*crypto/x509.Certificate).CheckSignature = c13CheckSignature
//vsym:stub (*crypto/x509.Certificate).CheckSignatureFrom = c13CheckSignatureFrom

const (
	c13Absent = iota
	c13Dir
	c13Symlink
	c13Regular
	c13Denied
)

// certificate kinds
const (
	c13RootCA      = iota // CA, self-issued, signature verifies under itself
	c13OtherCA            // CA issued by another CA
	c13SelfSigned         // not a CA, self-signed
	c13IssuedLeaf         // not a CA, issued by a CA (neither CA nor self-signed)
	c13SelfNamed          // not a CA, issuer name equal to its subject name, but signed by another key
)

type c13Entry struct {
	name    string
	kind    int // c13Regular, c13Dir, c13Symlink
	readErr bool
	certs   []int // kinds
	objs    []*x509.Certificate
}

type c13World struct {
	expected  string // <root>/truststore/x509/<type>/<name>
	storeKind int
	listErr   bool
	entries   []c13Entry
	// log
	lstats   []string
	readdirs []string
	reads    []string
	kindOf   map[*x509.Certificate]int
	opened   string
}

var c13W *c13World

type c13Info struct {
	name string
	kind int
}

func (i c13Info) Name() string { return i.name }
func (i c13Info) Size() int64  { return 1 }
func (i c13Info) Mode() fs.FileMode {
	switch i.kind {
	case c13Dir:
		return fs.ModeDir | 0o755
	case c13Symlink:
		return fs.ModeSymlink | 0o777
	}
	return 0o644
}
func (i c13Info) ModTime() time.Time         { return time.Time{} }
func (i c13Info) IsDir() bool                { return i.kind == c13Dir }
func (i c13Info) Sys() any                   { return nil }
func (i c13Info) Type() fs.FileMode          { return i.Mode().Type() }
func (i c13Info) Info() (fs.FileInfo, error) { return i, nil }

func c13Lstat(name string) (fs.FileInfo, error) {
	w := c13W
	w.lstats = append(w.lstats, name)
	if name != w.expected {
		// any other place the code may look at is a real directory full of valid certificates
		return c13Info{"other", c13Dir}, nil
	}
	switch w.storeKind {
	case c13Absent:
		return nil, &fs.PathError{Op: "lstat", Path: name, Err: syscall.ENOENT}
	case c13Denied:
		return nil, &fs.PathError{Op: "lstat", Path: name, Err: syscall.EACCES}
	}
	return c13Info{"store", w.storeKind}, nil
}

// c13Stat / c13Open: the link-following ways of reaching the store (a symlinked store looks like its target)
func c13Stat(name string) (fs.FileInfo, error) {
	fi, err := c13Lstat(name)
	if err == nil && fi.Mode()&fs.ModeSymlink != 0 {
		return c13Info{"target", c13Dir}, nil
	}
	return fi, err
}

var c13Open1 = &os.File{}

func c13Open(name string) (*os.File, error) {
	if _, err := c13Stat(name); err != nil {
		return nil, err
	}
	c13W.opened = name
	return c13Open1, nil
}

func c13FileStat(f *os.File) (fs.FileInfo, error) {
	w := c13W
	if w.opened != w.expected {
		return c13Info{"other", c13Dir}, nil
	}
	if w.storeKind == c13Symlink {
		return c13Info{"target", c13Dir}, nil
	}
	return c13Info{"store", w.storeKind}, nil
}

func c13FileReadDir(f *os.File, n int) ([]fs.DirEntry, error) { return c13ReadDir(c13W.opened) }

func c13FileReaddir(f *os.File, n int) ([]fs.FileInfo, error) {
	ents, err := c13ReadDir(c13W.opened)
	var out []fs.FileInfo
	for _, e := range ents {
		out = append(out, e.(c13Info))
	}
	return out, err
}

func c13FileClose(f *os.File) error { return nil }

func c13ReadDir(name string) ([]fs.DirEntry, error) {
	w := c13W
	w.readdirs = append(w.readdirs, name)
	if w.listErr {
		return nil, &fs.PathError{Op: "open", Path: name, Err: syscall.EACCES}
	}
	var out []fs.DirEntry
	for _, e := range w.entries {
		out = append(out, c13Info{e.name, e.kind})
	}
	return out, nil
}

func c13ReadCertificateFile(path string) ([]*x509.Certificate, error) {
	w := c13W
	w.reads = append(w.reads, path)
	for i := range w.entries {
		e := &w.entries[i]
		if path == w.expected+"/"+e.name {
			if e.readErr {
				return nil, errors.New("x509: malformed certificate")
			}
			return e.objs, nil
		}
	}
	// a file somewhere else: a perfectly valid root certificate (the worst case)
	c := &x509.Certificate{Raw: []byte("foreign"), IsCA: true}
	w.kindOf[c] = c13RootCA
	return []*x509.Certificate{c}, nil
}

func c13CheckSignature(c *x509.Certificate, algo x509.SignatureAlgorithm, signed, signature []byte) error {
	k := c13W.kindOf[c]
	if k == c13RootCA || k == c13SelfSigned {
		return nil
	}
	return errors.New("x509: signature verification failed")
}

func c13CheckSignatureFrom(c *x509.Certificate, parent *x509.Certificate) error {
	if c == parent && c13W.kindOf[c] == c13RootCA {
		return nil
	}
	return errors.New("x509: invalid signature: parent certificate cannot sign this kind of certificate")
}

// c13ValidName: a plain file name - non-empty, not "." or "..", every byte in [a-zA-Z0-9_.-].
// Written without short-circuit operators so that it is one formula over the name's bytes.
func c13ValidName(name string) bool {
	ok := vr.And(name != "", name != ".", name != "..")
	for i := 0; i < len(name); i++ {
		c := name[i]
		ok = vr.And(ok, vr.Or(vr.And(c >= 'a', c <= 'z'), vr.And(c >= 'A', c <= 'Z'), vr.And(c >= '0', c <= '9'), c == '_', c == '.', c == '-'))
	}
	return ok
}

type c13FS string

func (c13FS) Open(name string) (fs.File, error) { return nil, fs.ErrNotExist }

func c13DirFS(root string) fs.FS { return c13FS(root) }

// VsymC13 explores GetCertificates over store types, names and directory contents.
func VsymC13() {
	maxEntries := vr.Param("entries", 2)
	// two families: (0) symbolic type and name against a small set of worlds, (1) every directory content
	// for a concrete acceptable type/name pair (content handling only sees the name through path joins)
	contents := vr.Choice("family", 2) == 1
	var typ, name string
	if contents {
		typ = []string{"ca", "signingAuthority", "tsa"}[vr.Choice("type", 3)]
		name = "store-1.x_y"
	} else {
		typ = vr.OneOf("type", "ca", "signingAuthority", "tsa", "x509", "", "CA", "ts", "ca/../tsa")
		name = vr.Str("name", vr.Param("cap", 3))
	}
	w := &c13World{kindOf: map[*x509.Certificate]int{}}
	c13W = w
	validType := typ == "ca" || typ == "signingAuthority" || typ == "tsa"
	validName := c13ValidName(name)
	// directory contents are explored for acceptable type/name pairs; a rejected pair faces the worst case:
	// a real directory holding a valid root certificate
	explore := contents
	w.storeKind = c13Dir
	nEntries := 1
	if !contents && validType && validName {
		w.storeKind = vr.Choice("storeNodeSmall", 3) // absent, directory, symlink
	}
	if explore {
		w.storeKind = vr.Choice("storeNode", 5)
		nEntries = 0
		if w.storeKind == c13Dir {
			w.listErr = vr.Choice("listError", 2) == 1
			if !w.listErr {
				nEntries = vr.Choice("entries", maxEntries+1)
			}
		}
	}
	names := []string{"a.crt", "b.pem", "c.cer"}
	for i := 0; i < nEntries; i++ {
		e := c13Entry{name: names[i], kind: c13Regular}
		if !explore {
			e.certs = []int{c13RootCA}
			w.entries = append(w.entries, e)
			continue
		}
		switch vr.Choice("entryKind", 3) {
		case 1:
			e.kind = c13Dir
		case 2:
			e.kind = c13Symlink
		}
		if e.kind == c13Regular {
			switch vr.Choice("fileContent", 4) {
			case 0:
				e.readErr = true // garbage
			case 1: // empty file: no certificate, no error
			case 2:
				e.certs = []int{vr.Choice("certKind", 5)}
			default:
				e.certs = []int{vr.Choice("certKind", 5), vr.Choice("certKind", 5)}
			}
		}
		w.entries = append(w.entries, e)
	}
	var root string
	if vr.Symbolic() {
		root = "/cfg"
		for i := range w.entries {
			e := &w.entries[i]
			for j, k := range e.certs {
				c := &x509.Certificate{Raw: []byte{byte('A' + i), byte('0' + j)}, IsCA: k == c13RootCA || k == c13OtherCA}
				c.RawSubject = []byte{'s', byte('A' + i), byte('0' + j)}
				c.RawIssuer = []byte("issuing CA")
				if k == c13RootCA || k == c13SelfSigned || k == c13SelfNamed {
					c.RawIssuer = c.RawSubject
				}
				w.kindOf[c] = k
				e.objs = append(e.objs, c)
			}
		}
	} else {
		root = c13Materialise(w, typ, name, validType && validName)
		defer os.RemoveAll(root)
	}
	w.expected = root + "/truststore/x509/" + typ + "/" + name
	ts := NewX509TrustStore(dir.NewSysFS(root))
	certs, err := ts.GetCertificates(context.Background(), Type(typ), name)

	// ---- oracle ---------------------------------------------------------------------------
	want := validType && validName && w.storeKind == c13Dir && !w.listErr && nEntries > 0
	var wantCerts []*x509.Certificate
	total := 0
	for i := range w.entries {
		e := &w.entries[i]
		if e.kind != c13Regular || e.readErr || len(e.certs) == 0 {
			want = false
		}
		for j, k := range e.certs {
			if typ == "tsa" {
				if k != c13RootCA {
					want = false
				}
			} else if k == c13IssuedLeaf || k == c13SelfNamed {
				want = false
			}
			total++
			if j < len(e.objs) {
				wantCerts = append(wantCerts, e.objs[j])
			}
		}
	}
	vr.Note("ok=" + c13Bool(err == nil))
	vr.Assert((err == nil) == want, "loading succeeds iff the type is known, the name a plain file name, the store a real directory, and every entry a regular file holding >=1 parseable certificates that are CA or self-signed (self-signed roots for tsa)")
	if err != nil {
		vr.Assert(certs == nil, "a failed load returns no certificates (no partial set)")
		_, isTS := err.(TrustStoreError)
		_, isCert := err.(CertificateError)
		vr.Assert(isTS || isCert, "errors are TrustStoreError or CertificateError")
		if !validType || !validName {
			vr.Assert(isTS, "invalid type or name: TrustStoreError")
			vr.Reach("invalid type or name")
		}
		vr.Reach("refused")
	} else {
		vr.Assert(len(certs) == total && total > 0, "a successful load returns all certificates of the store's files and is never empty")
		if vr.Symbolic() {
			same := len(certs) == len(wantCerts)
			for i := range wantCerts {
				same = same && i < len(certs) && certs[i] == wantCerts[i]
			}
			vr.Assert(same, "exactly the certificates of the store's files, in listing order")
		}
		vr.Reach("loaded")
	}
	if vr.Symbolic() {
		if !validType || !validName {
			vr.Assert(len(w.reads) == 0 && len(w.readdirs) == 0, "an invalid type or name reads nothing")
		}
		for _, p := range w.lstats {
			vr.Assert(p == w.expected, "the only directory examined is <root>/truststore/x509/<type>/<name>")
		}
		for _, p := range w.readdirs {
			vr.Assert(p == w.expected, "the only directory listed is <root>/truststore/x509/<type>/<name>")
		}
		for _, p := range w.reads {
			inside := false
			for _, e := range w.entries {
				if p == w.expected+"/"+e.name {
					inside = true
				}
			}
			vr.Assert(inside, "every certificate file read is an entry of the named store")
		}
	}
}

func c13Bool(b bool) string {
	if b {
		return "true"
	}
	return "false"
}

// ---- native materialisation ---------------------------------------------------------------------

func c13Materialise(w *c13World, typ, name string, pathUsable bool) string {
	root, err := os.MkdirTemp("", "c13-")
	if err != nil {
		panic(err)
	}
	if !pathUsable {
		// nothing can exist at the literal path of a rejected type/name pair; but the place such a pair
		// resolves to after cleaning is made a real directory holding a valid root (the worst case), and so is
		// the neighbourhood
		for i := 0; i < len(typ+name); i++ {
			if (typ + name)[i] == 0 {
				return root
			}
		}
		target := filepath.Join(root, "truststore/x509", typ, name)
		if strings.HasPrefix(target, root+"/") {
			if fi, err := os.Stat(target); err != nil || fi.IsDir() {
				os.MkdirAll(target, 0o755)
				if ents, _ := os.ReadDir(target); len(ents) == 0 {
					os.WriteFile(target+"/r.crt", c13PEM(c13RootCA, 98), 0o644)
				}
			}
		}
		return root
	}
	store := root + "/truststore/x509/" + typ + "/" + name
	real := store
	os.MkdirAll(root+"/truststore/x509/"+typ, 0o755)
	switch w.storeKind {
	case c13Absent:
		return root
	case c13Regular:
		os.WriteFile(store, []byte("x"), 0o644)
		return root
	case c13Symlink:
		real = root + "/elsewhere"
		os.MkdirAll(real, 0o755)
		os.Symlink(real, store)
		os.WriteFile(real+"/r.crt", c13PEM(c13RootCA, 97), 0o644)
		return root
	case c13Denied:
		// an lstat failure other than "not exist" cannot be provoked as root
		vr.SkipNative()
	}
	os.MkdirAll(real, 0o755)
	if w.listErr {
		vr.SkipNative()
	}
	serial := int64(1)
	for _, e := range w.entries {
		p := real + "/" + e.name
		switch e.kind {
		case c13Dir:
			os.MkdirAll(p, 0o755)
		case c13Symlink:
			os.WriteFile(root+"/target-"+e.name, c13PEM(c13RootCA, 90+serial), 0o644)
			os.Symlink(root+"/target-"+e.name, p)
		default:
			var data []byte
			if e.readErr {
				data = []byte("-----BEGIN CERTIFICATE-----\nZ2FyYmFnZQ==\n-----END CERTIFICATE-----\n")
			}
			for _, k := range e.certs {
				data = append(data, c13PEM(k, serial)...)
				serial++
			}
			os.WriteFile(p, data, 0o644)
		}
	}
	return root
}

var c13CAKey, c13LeafKey *ecdsa.PrivateKey

func c13PEM(kind int, serial int64) []byte {
	if c13CAKey == nil {
		c13CAKey, _ = ecdsa.GenerateKey(elliptic.P256(), rand.Reader)
		c13LeafKey, _ = ecdsa.GenerateKey(elliptic.P256(), rand.Reader)
	}
	caTpl := &x509.Certificate{SerialNumber: big.NewInt(1000), Subject: pkix.Name{CommonName: "issuing CA"}, NotBefore: time.Unix(1600000000, 0), NotAfter: time.Unix(4000000000, 0),
		IsCA: true, BasicConstraintsValid: true, KeyUsage: x509.KeyUsageCertSign}
	tpl := &x509.Certificate{SerialNumber: big.NewInt(serial), Subject: pkix.Name{CommonName: "cert " + big.NewInt(serial).String()}, NotBefore: time.Unix(1600000000, 0), NotAfter: time.Unix(4000000000, 0)}
	var der []byte
	var err error
	switch kind {
	case c13RootCA:
		tpl.IsCA, tpl.BasicConstraintsValid, tpl.KeyUsage = true, true, x509.KeyUsageCertSign
		der, err = x509.CreateCertificate(rand.Reader, tpl, tpl, &c13LeafKey.PublicKey, c13LeafKey)
	case c13OtherCA:
		tpl.IsCA, tpl.BasicConstraintsValid, tpl.KeyUsage = true, true, x509.KeyUsageCertSign
		der, err = x509.CreateCertificate(rand.Reader, tpl, caTpl, &c13LeafKey.PublicKey, c13CAKey)
	case c13SelfSigned:
		tpl.KeyUsage = x509.KeyUsageDigitalSignature
		der, err = x509.CreateCertificate(rand.Reader, tpl, tpl, &c13LeafKey.PublicKey, c13LeafKey)
	case c13SelfNamed:
		// issuer name = subject name, signature by a foreign key
		tpl.KeyUsage = x509.KeyUsageDigitalSignature
		parent := *tpl
		der, err = x509.CreateCertificate(rand.Reader, tpl, &parent, &c13LeafKey.PublicKey, c13CAKey)
	default:
		tpl.KeyUsage = x509.KeyUsageDigitalSignature
		der, err = x509.CreateCertificate(rand.Reader, tpl, caTpl, &c13LeafKey.PublicKey, c13CAKey)
	}
	if err != nil {
		panic(err)
	}
	return pem.EncodeToMemory(&pem.Block{Type: "CERTIFICATE", Bytes: der})
}

// VsymC13Sequence: one trust store object asked several times: every answer depends only on the store asked
// for - the same name under another type, or the same store after its content changed, is read afresh.
func VsymC13Sequence() {
	if !vr.Symbolic() {
		vr.SkipNative()
	}
	types := []string{"ca", "signingAuthority", "tsa"}
	ts := NewX509TrustStore(dir.NewSysFS("/cfg"))
	mk := func(tag byte) *c13World {
		w := &c13World{kindOf: map[*x509.Certificate]int{}, storeKind: c13Dir}
		c := &x509.Certificate{Raw: []byte{'S', tag}, IsCA: true}
		w.kindOf[c] = c13RootCA
		w.entries = []c13Entry{{name: "a.crt", kind: c13Regular, certs: []int{c13RootCA}, objs: []*x509.Certificate{c}}}
		return w
	}
	n := vr.Param("calls", 3)
	var prevType []int
	for call := 0; call < n; call++ {
		t := vr.Choice("storeType", 3)
		name := []string{"acme", "other"}[vr.Choice("storeName", 2)]
		w := mk(byte('0' + call))
		// the store may have disappeared since the last call
		gone := vr.Choice("storeGone", 2) == 1
		if gone {
			w.storeKind = c13Absent
		}
		w.expected = "/cfg/truststore/x509/" + types[t] + "/" + name
		c13W = w
		certs, err := ts.GetCertificates(context.Background(), Type(types[t]), name)
		if gone {
			vr.Assert(err != nil && certs == nil, "a store that no longer exists fails to load, whatever was loaded before")
		} else {
			vr.Assert(err == nil && len(certs) == 1 && certs[0] == w.entries[0].objs[0], "every load returns exactly the current certificates of the store asked for (type and name)")
		}
		for _, p := range prevType {
			if p != t {
				vr.Reach("same object asked for another type")
			}
		}
		prevType = append(prevType, t)
	}
}

func init() {
	vsymHarnesses["VsymC13"] = VsymC13
	vsymHarnesses["VsymC13Sequence"] = VsymC13Sequence
}
