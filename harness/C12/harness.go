//go:build verif

package verifier

// C12: no untrusted input or unusual configuration crashes the library; (outcome, error) pairs are consistent.
// The assertion "no panic" is the engine's implicit one: every feasible path that ends in a Go runtime panic
// or an explicit panic is reported.

import (
	"context"
	"crypto/x509"
	"encoding/json"
	"errors"
	"hash"
	"strings"
	"time"

	"github.com/notaryproject/notation-core-go/signature"
	"github.com/notaryproject/notation-go"
	vr "github.com/notaryproject/notation-go/internal/zzvr"
	"github.com/notaryproject/notation-go/plugin"
	pluginframework "github.com/notaryproject/notation-plugin-framework-go/plugin"
	"github.com/notaryproject/notation-go/verifier/trustpolicy"
	"github.com/opencontainers/go-digest"
	ocispec "github.com/opencontainers/image-spec/specs-go/v1"
)

//vsym:stub (github.com/opencontainers/go-digest.Algorithm).Digester = c12NewDigester
//vsym:stub (github.com/opencontainers/go-digest.Algorithm).Hash = c12NewHash
//vsym:stub (github.com/opencontainers/go-digest.Algorithm).Available = c12Available
//vsym:stub github.com/opencontainers/go-digest.NewDigest = c12NewDigest

// SHA-256 of the four bytes "blob"
const c12BlobDigest = "sha256:fa2c8cc4f28176bbeed4b736df569a34c79cd3723e9ec42f9674b4d46ac6b8b8"

type c12Hash struct{ n int }

func (h *c12Hash) Write(p []byte) (int, error) { h.n += len(p); return len(p), nil }
func (h *c12Hash) Sum(b []byte) []byte         { return b }
func (h *c12Hash) Reset()                      {}
func (h *c12Hash) Size() int                   { return 32 }
func (h *c12Hash) BlockSize() int              { return 64 }

type c12Digester struct {
	alg digest.Algorithm
	h   *c12Hash
}

func (d *c12Digester) Hash() hash.Hash { return d.h }
func (d *c12Digester) Digest() digest.Digest {
	if d.alg == digest.SHA256 {
		return digest.Digest(c12BlobDigest)
	}
	return digest.Digest(string(d.alg) + ":00")
}

// the other ways go-digest offers to digest a stream
func c12NewHash(a digest.Algorithm) hash.Hash { return &c12Hash{} }
func c12Available(a digest.Algorithm) bool {
	return a == digest.SHA256 || a == digest.SHA384 || a == digest.SHA512
}
func c12NewDigest(a digest.Algorithm, h hash.Hash) digest.Digest {
	return (&c12Digester{alg: a}).Digest()
}

// c12NewDigester: go-digest's Digester under the engine (the digest of the one blob the harness reads)
func c12NewDigester(a digest.Algorithm) digest.Digester { return &c12Digester{alg: a, h: &c12Hash{}} }

const c12Digest = "sha256:aaaaaaaaaaaaaaaaaaaaaaaaaaaaaaaaaaaaaaaaaaaaaaaaaaaaaaaaaaaaaaaa"

type c12Repo struct {
	sig []byte
}

func (r *c12Repo) Resolve(ctx context.Context, reference string) (ocispec.Descriptor, error) {
	return ocispec.Descriptor{MediaType: "application/vnd.oci.image.manifest.v1+json", Digest: digest.Digest(c12Digest), Size: 10}, nil
}

func (r *c12Repo) ListSignatures(ctx context.Context, desc ocispec.Descriptor, fn func(signatureManifests []ocispec.Descriptor) error) error {
	return fn([]ocispec.Descriptor{{MediaType: "application/vnd.oci.image.manifest.v1+json", Digest: digest.Digest(c12Digest), Size: 1}})
}

func (r *c12Repo) FetchSignatureBlob(ctx context.Context, desc ocispec.Descriptor) ([]byte, ocispec.Descriptor, error) {
	return r.sig, ocispec.Descriptor{MediaType: kitJWS, Size: int64(len(r.sig))}, nil
}

func (r *c12Repo) PushSignature(ctx context.Context, mediaType string, blob []byte, subject ocispec.Descriptor, annotations map[string]string) (blobDesc, manifestDesc ocispec.Descriptor, err error) {
	return ocispec.Descriptor{}, ocispec.Descriptor{}, errors.New("read-only")
}

// c12Content draws what an envelope that parses and verifies may contain (contract 4.1): everything the
// base envelope does not guarantee is arbitrary.
func c12Content(leaf *x509.Certificate) *signature.EnvelopeContent {
	c := &signature.EnvelopeContent{}
	c.Payload.ContentType = []string{"application/vnd.cncf.notary.payload.v1+json", "application/json"}[vr.Choice("payloadType", 2)]
	switch vr.Choice("payload", 7) {
	case 0:
		c.Payload.Content = vr.JSONBytes(vr.JObj("targetArtifact", vr.JObj("mediaType", vr.JStr("application/vnd.oci.image.manifest.v1+json"), "digest", vr.JStr(c12Digest), "size", vr.JNum(10))))
	case 1:
		c.Payload.Content = vr.JSONBytes(vr.JBad())
	case 2:
		c.Payload.Content = vr.JSONBytes(vr.JNull())
	case 3:
		c.Payload.Content = vr.JSONBytes(vr.JArr())
	case 4:
		c.Payload.Content = vr.JSONBytes(vr.JObj("targetArtifact", vr.JNull()))
	case 5:
		c.Payload.Content = vr.JSONBytes(vr.JObj("targetArtifact", vr.JObj("size", vr.JStr("big"), "annotations", vr.JArr())))
	default:
		c.Payload.Content = vr.JSONBytes(vr.JObj("TargetArtifact", vr.JObj("mediaType", vr.JNull(), "annotations", vr.JObj("k", vr.JNum(1)))))
	}
	si := &c.SignerInfo
	si.SignedAttributes.SigningScheme = signature.SigningSchemeX509
	si.SignedAttributes.SigningTime = time.Unix(1700000000, 0)
	si.SignatureAlgorithm = signature.AlgorithmPS256
	// one deviation at a time in the dimensions that do not interact
	switch vr.Choice("deviation", 6) {
	case 1:
		si.SignedAttributes.SigningScheme = signature.SigningSchemeX509SigningAuthority
	case 2:
		si.SignedAttributes.SigningScheme = "other.scheme"
	case 3:
		si.SignatureAlgorithm = signature.AlgorithmES512
	case 4:
		si.SignatureAlgorithm = signature.Algorithm(99)
	case 5:
		si.UnsignedAttributes.TimestampSignature = []byte("not a token")
	}
	si.CertificateChain = []*x509.Certificate{leaf}
	si.Signature = []byte("s")
	switch vr.Choice("attributes", 6) {
	case 1: // plugin headers of the wrong kinds
		si.SignedAttributes.ExtendedAttributes = []signature.Attribute{{Key: HeaderVerificationPlugin, Critical: true, Value: 7}}
	case 2:
		si.SignedAttributes.ExtendedAttributes = []signature.Attribute{{Key: 42, Critical: true, Value: "x"}}
	case 3:
		si.SignedAttributes.ExtendedAttributes = []signature.Attribute{{Key: HeaderVerificationPlugin, Critical: true, Value: "foo"}, {Key: HeaderVerificationPluginMinVersion, Critical: true, Value: nil}}
	case 4:
		si.SignedAttributes.ExtendedAttributes = []signature.Attribute{{Key: HeaderVerificationPlugin, Critical: true, Value: "foo"}}
	case 5:
		si.SignedAttributes.ExtendedAttributes = []signature.Attribute{{Key: nil, Critical: false, Value: nil}, {Key: HeaderVerificationPlugin, Critical: false, Value: "  "}}
	}
	return c
}

// VsymC12Config: every verifier construction x level x entry point, against a small set of envelope answers.
func VsymC12Config() { c12Verifier(false) }

// VsymC12Content: every envelope answer, against the full verifier under each non-skip level.
func VsymC12Content() { c12Verifier(true) }

func c12Verifier(contentFamily bool) {
	kitEnv = kitEnvState{}
	kitInstallEnvelope()
	construction := 2
	if !contentFamily {
		construction = vr.Choice("construction", 3) // OCI-only, blob-only, both
	}
	nLevels := 4
	if contentFamily {
		nLevels = 3
	}
	level := []string{"strict", "permissive", "audit", "skip"}[vr.Choice("level", nLevels)]
	stores, ids := []string{"ca:s"}, []string{"*"}
	if level == "skip" {
		stores, ids = nil, nil
	}
	leaf := kitCert([]byte("leaf"), "leaf")
	leaf.NotBefore, leaf.NotAfter = time.Unix(946684800, 0), time.Unix(4102444800, 0)
	store := &kitStore{answers: map[string]kitStoreAnswer{"ca:s": {certs: []*x509.Certificate{leaf}}, "signingAuthority:s": {certs: []*x509.Certificate{leaf}}}}
	opts := VerifierOptions{RevocationCodeSigningValidator: &kitValidator{results: kitOKResults(1)}, RevocationTimestampingValidator: &kitValidator{results: kitOKResults(1)}}
	globalBlob := contentFamily || vr.Choice("blobStatementGlobal", 2) == 1
	if construction != 1 {
		opts.OCITrustPolicy = kitOCIDoc(level, nil, stores, ids)
	}
	if construction != 0 {
		if globalBlob && level == "skip" {
			// a global skip statement is not a valid document; use a named one
			globalBlob = false
		}
		opts.BlobTrustPolicy = kitBlobDoc(level, nil, stores, ids, globalBlob)
	}
	var mgr *kitManager
	if vr.Choice("pluginManager", 2) == 1 {
		mgr = &kitManager{plugins: map[string]*kitPlugin{}}
		if vr.Choice("pluginInstalled", 2) == 1 {
			p := &kitPlugin{}
			p.meta.Name, p.meta.Version = "foo", "1.0.0"
			p.metaErr = vr.Choice("pluginMetadataError", 2) == 1
			if !p.metaErr && contentFamily {
				// a plugin that has something to verify and answers in unusual ways
				p.meta.Capabilities = []pluginframework.Capability{pluginframework.CapabilityTrustedIdentityVerifier, pluginframework.CapabilityRevocationCheckVerifier}
				switch 1 + vr.Choice("pluginAnswer", 4) {
				case 1:
					p.verifyErr = true
				case 2:
					// an empty response (a nil response without error is outside the collaborator contract, DESIGN 4.6:
					// the CLI plugin always returns a response object)
					p.response = &pluginframework.VerifySignatureResponse{}
				case 3: // verdicts present but null
					p.response = &pluginframework.VerifySignatureResponse{VerificationResults: map[pluginframework.Capability]*pluginframework.VerificationResult{
						pluginframework.CapabilityTrustedIdentityVerifier: nil, pluginframework.CapabilityRevocationCheckVerifier: nil}, ProcessedAttributes: []interface{}{nil, 7}}
				default:
					p.response = &pluginframework.VerifySignatureResponse{VerificationResults: map[pluginframework.Capability]*pluginframework.VerificationResult{
						pluginframework.CapabilityTrustedIdentityVerifier: {Success: true}, pluginframework.CapabilityRevocationCheckVerifier: {Success: false}}}
				}
			}
			mgr.plugins["foo"] = p
		}
		opts.PluginManager = mgr
	}
	v, err := NewVerifierWithOptions(store, opts)
	vr.Assert(err == nil && v != nil, "harness: a valid configuration constructs")
	if err != nil {
		return
	}
	api := 0
	if contentFamily {
		api = vr.Choice("entryPoint", 2)
	} else {
		api = vr.Choice("entryPoint", 6)
	}
	// envelope library answers
	sig := []byte("sig")
	if contentFamily {
		kitEnv.parseErr = vr.Choice("parse", 2)
		if kitEnv.parseErr == 0 {
			kitEnv.verifyErr = vr.Choice("verify", 5)
			if kitEnv.verifyErr == 0 {
				kitEnv.content = c12Content(leaf)
			}
		}
	} else {
		switch vr.Choice("envelope", 3) {
		case 0:
			kitEnv.parseErr = 1
		case 1:
			kitEnv.verifyErr = 3
		default:
			c := &signature.EnvelopeContent{}
			c.Payload.ContentType = "application/vnd.cncf.notary.payload.v1+json"
			c.Payload.Content = []byte(`{"targetArtifact":{"mediaType":"application/vnd.oci.image.manifest.v1+json","digest":"` + c12Digest + `","size":10}}`)
			if api == 4 {
				// the descriptor of the blob "blob" read by notation.VerifyBlob
				c.Payload.Content = []byte(`{"targetArtifact":{"mediaType":"text/plain","digest":"` + c12BlobDigest + `","size":4}}`)
			}
			c.SignerInfo.SignedAttributes.SigningScheme = signature.SigningSchemeX509
			c.SignerInfo.SignedAttributes.SigningTime = time.Unix(1700000000, 0)
			c.SignerInfo.SignatureAlgorithm = signature.AlgorithmPS256
			c.SignerInfo.CertificateChain = []*x509.Certificate{leaf}
			c.SignerInfo.Signature = []byte("s")
			kitEnv.content = c
		}
		sig = [][]byte{nil, {}, []byte("sig")}[vr.Choice("signatureBytes", 3)]
	}
	ctx := context.Background()
	desc := ocispec.Descriptor{MediaType: "application/vnd.oci.image.manifest.v1+json", Digest: digest.Digest(c12Digest), Size: 10}
	var outcome *notation.VerificationOutcome
	selected := false // a statement was selected for the request
	vopts := notation.VerifierVerifyOptions{ArtifactReference: kitRef, SignatureMediaType: kitJWS}
	bopts := notation.BlobVerifierVerifyOptions{SignatureMediaType: kitJWS}
	if !contentFamily && api != 2 && api != 5 {
		vopts.SignatureMediaType = []string{kitJWS, "application/other", ""}[vr.Choice("mediaType", 3)]
		bopts.SignatureMediaType = vopts.SignatureMediaType
		if api == 1 || api == 4 {
			bopts.TrustPolicyName = []string{"", "p", "missing"}[vr.Choice("policyName", 3)]
		}
	}
	gen := func(a digest.Algorithm) (ocispec.Descriptor, error) {
		if vr.Choice("blobReadable", 2) == 0 {
			return ocispec.Descriptor{}, errors.New("read error")
		}
		return ocispec.Descriptor{MediaType: "application/vnd.oci.image.manifest.v1+json", Digest: digest.Digest(c12Digest), Size: 10}, nil
	}
	switch api {
	case 0:
		outcome, err = v.Verify(ctx, desc, sig, vopts)
		selected = construction != 1
	case 1:
		outcome, err = v.VerifyBlob(ctx, gen, sig, bopts)
		selected = construction != 0 && (bopts.TrustPolicyName == "p" || (bopts.TrustPolicyName == "" && globalBlob))
	case 2:
		skip, lvl, serr := v.SkipVerify(ctx, vopts)
		vr.Assert(serr != nil || lvl != nil, "SkipVerify returns a level or an error")
		vr.Assert(!skip || serr == nil, "skip only without error")
		vr.Reach("skip check")
		return
	case 3:
		// through the package-level API, as applications do
		var outs []*notation.VerificationOutcome
		_, outs, err = notation.Verify(ctx, v, &c12Repo{sig: sig}, notation.VerifyOptions{ArtifactReference: kitRef, MaxSignatureAttempts: 2})
		if err == nil {
			vr.Assert(len(outs) == 1 && outs[0] != nil && outs[0].Error == nil, "notation.Verify: no error means one outcome without error")
			if len(outs) == 1 && outs[0] != nil {
				_, _ = outs[0].UserMetadata()
			}
			vr.Reach("verified through notation.Verify")
		} else {
			for _, o := range outs {
				vr.Assert(o != nil, "notation.Verify: outcomes are never nil")
				if o != nil {
					_, _ = o.UserMetadata()
				}
			}
		}
		return
	case 4:
		var d ocispec.Descriptor
		bo := notation.VerifyBlobOptions{BlobVerifierVerifyOptions: bopts, ContentMediaType: []string{"text/plain", "", "not a media type;;"}[vr.Choice("contentType", 3)]}
		var rd *strings.Reader
		if vr.Choice("blobReader", 2) == 1 {
			rd = strings.NewReader("blob")
		}
		if rd == nil {
			d, outcome, err = notation.VerifyBlob(ctx, v, nil, sig, bo)
		} else {
			d, outcome, err = notation.VerifyBlob(ctx, v, rd, sig, bo)
		}
		vr.Assert(err != nil || outcome != nil, "notation.VerifyBlob: no error means an outcome")
		if err == nil && outcome != nil {
			vr.Assert(outcome.Error == nil, "notation.VerifyBlob: no error means an outcome without error")
			_, _ = outcome.UserMetadata()
			_ = d
			vr.Reach("verified through notation.VerifyBlob")
		}
		return
	default:
		// nil verifier / nil repository arguments
		_, _, e1 := notation.Verify(ctx, nil, &c12Repo{sig: sig}, notation.VerifyOptions{ArtifactReference: kitRef, MaxSignatureAttempts: 1})
		_, _, e2 := notation.Verify(ctx, v, nil, notation.VerifyOptions{ArtifactReference: kitRef, MaxSignatureAttempts: 1})
		_, _, e3 := notation.VerifyBlob(ctx, nil, strings.NewReader("b"), []byte("s"), notation.VerifyBlobOptions{})
		vr.Assert(e1 != nil && e2 != nil && e3 != nil, "nil collaborators are refused with an error")
		o := &notation.VerificationOutcome{}
		_, uerr := o.UserMetadata()
		vr.Assert(uerr != nil, "UserMetadata without envelope content is an error")
		vr.Reach("nil arguments")
		return
	}
	if err == nil {
		vr.Assert(outcome != nil && outcome.Error == nil, "no error means an outcome without error")
		if outcome != nil && outcome.EnvelopeContent != nil {
			_, _ = outcome.UserMetadata()
		}
		vr.Reach("verified")
		if level == "skip" {
			vr.Reach("skip level")
		}
	} else if selected {
		vr.Assert(outcome != nil && outcome.Error != nil, "a verification failure after policy selection comes with an outcome whose error is set")
		vr.Reach("failed after selection")
	} else {
		vr.Reach("refused before selection")
	}
}

// VsymC12Policy: policy documents of every JSON shape decode and validate without crashing.
func VsymC12Policy() {
	stmt := func(kind int) vr.J {
		sv := vr.JObj("level", vr.JStr("strict"))
		switch vr.Choice("signatureVerification", 6) {
		case 1:
			sv = vr.JNull()
		case 2:
			sv = vr.JObj("level", vr.JStr("strict"), "override", vr.JNull())
		case 3:
			sv = vr.JObj("level", vr.JStr("audit"), "override", vr.JObj("revocation", vr.JStr("skip"), "x", vr.JStr("y")))
		case 4:
			sv = vr.JObj("level", vr.JNum(1))
		case 5:
			sv = vr.JObj("level", vr.JStr("strict"), "verifyTimestamp", vr.JStr("sometimes"))
		}
		kv := []any{"name", vr.JStr("p"), "signatureVerification", sv}
		switch vr.Choice("lists", 5) {
		case 0:
			kv = append(kv, "trustStores", vr.JArr(vr.JStr("ca:s")), "trustedIdentities", vr.JArr(vr.JStr("*")))
		case 1:
			kv = append(kv, "trustStores", vr.JNull(), "trustedIdentities", vr.JNull())
		case 2:
			kv = append(kv, "trustStores", vr.JArr(vr.JStr(":"), vr.JStr("ca")), "trustedIdentities", vr.JArr(vr.JStr("x509.subject:"), vr.JStr("x509.subject")))
		case 3:
			kv = append(kv, "trustStores", vr.JStr("ca:s"))
		case 4:
			kv = append(kv, "trustStores", vr.JArr(vr.JStr("ca:s")), "trustedIdentities", vr.JArr(vr.JStr("x509.subject:C=US,,=")))
		}
		if kind == 0 {
			switch vr.Choice("scopes", 4) {
			case 0:
				kv = append(kv, "registryScopes", vr.JArr(vr.JStr("*")))
			case 1:
				kv = append(kv, "registryScopes", vr.JNull())
			case 2:
				kv = append(kv, "registryScopes", vr.JArr(vr.JStr(""), vr.JStr("a/b@")))
			}
		} else if vr.Choice("global", 2) == 1 {
			kv = append(kv, "globalPolicy", vr.JBool(true))
		}
		return vr.JObj(kv...)
	}
	kind := vr.Choice("documentKind", 2)
	var doc vr.J
	switch vr.Choice("documentShape", 8) {
	case 0:
		doc = vr.JObj("version", vr.JStr("1.0"), "trustPolicies", vr.JArr(stmt(kind)))
	case 1:
		doc = vr.JNull()
	case 2:
		doc = vr.JArr()
	case 3:
		doc = vr.JBad()
	case 4:
		doc = vr.JObj("version", vr.JNum(1), "trustPolicies", vr.JObj())
	case 5:
		doc = vr.JObj("version", vr.JStr("1.0"), "trustPolicies", vr.JArr(vr.JNull()))
	case 6:
		doc = vr.JObj("version", vr.JStr("1.0"), "trustPolicies", vr.JNull())
	default:
		doc = vr.JObj("version", vr.JStr("1.0"), "trustPolicies", vr.JArr(stmt(kind), stmt(kind)))
	}
	data := vr.JSONBytes(doc)
	if kind == 0 {
		var d trustpolicy.OCIDocument
		if json.Unmarshal(data, &d) == nil {
			if d.Validate() == nil {
				_, _ = d.GetApplicableTrustPolicy(kitRef)
				vr.Reach("valid OCI document")
			}
		}
		var np *trustpolicy.OCIDocument
		vr.Assert(np.Validate() != nil, "a nil document does not validate")
	} else {
		var d trustpolicy.BlobDocument
		if json.Unmarshal(data, &d) == nil {
			if d.Validate() == nil {
				_, _ = d.GetApplicableTrustPolicy("p")
				_, _ = d.GetGlobalTrustPolicy()
				vr.Reach("valid blob document")
			}
		}
		var np *trustpolicy.BlobDocument
		vr.Assert(np.Validate() != nil, "a nil document does not validate")
	}
	vr.Reach("document processed")
}

var _ plugin.Manager = (*kitManager)(nil)

func init() {
	vsymHarnesses["VsymC12Config"] = VsymC12Config
	vsymHarnesses["VsymC12Content"] = VsymC12Content
	vsymHarnesses["VsymC12Policy"] = VsymC12Policy
}
