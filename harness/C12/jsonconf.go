//go:build verif

package verifier

// JSON model conformance (DESIGN.md 6.3): concrete documents are decoded into the repo's own types under the
// engine's model and by the real encoding/json (native witness replay of every case); the observable result
// (error class and the re-marshalled value) is recorded as a note and must agree.

import (
	"encoding/json"
	"errors"

	"github.com/notaryproject/notation-go/internal/envelope"
	vr "github.com/notaryproject/notation-go/internal/zzvr"
	"github.com/notaryproject/notation-go/plugin/proto"
	"github.com/notaryproject/notation-go/verifier/trustpolicy"
	pluginframework "github.com/notaryproject/notation-plugin-framework-go/plugin"
	ocispec "github.com/opencontainers/image-spec/specs-go/v1"
)

var c12JSONTexts = []string{
	`{}`, `null`, `[]`, `"s"`, `1`, `true`, ``, ` {} `, `{} x`, `{"a":}`, `{"a":1,}`,
	`{"targetArtifact":{"mediaType":"m","digest":"sha256:d","size":3}}`,
	`{"TargetArtifact":{"mediaType":"m","digest":"sha256:d","size":3}}`,
	`{"TARGETARTIFACT":{"MEDIATYPE":"m","Digest":"sha256:d","SIZE":3}}`,
	`{"targetArtifact":{"mediaType":"a"},"TargetArtifact":{"mediaType":"b","size":1}}`,
	`{"TargetArtifact":{"mediaType":"a","size":1},"targetArtifact":{"mediaType":"b"}}`,
	`{"targetArtifact":null,"TargetArtifact":{"mediaType":"b"}}`,
	`{"targetArtifact":{"mediaType":"m","size":"3"}}`,
	`{"targetArtifact":{"mediaType":1,"digest":"d","size":3}}`,
	`{"targetArtifact":{"size":-1,"annotations":null}}`,
	`{"targetArtifact":{"size":1000,"annotations":{}}}`,
	`{"targetArtifact":{"annotations":{"b":"2","a":"1"},"urls":["u1","u2"],"unknown":[1,{"x":null}]}}`,
	`{"targetArtifact":{"annotations":{"a":1}}}`,
	`{"targetArtifact":{"annotations":["a"]}}`,
	`{"targetArtifact":"x"}`, `{"targetArtifact":[]}`,
	`{"mediaType":"m","digest":"sha256:d","size":3,"annotations":{"k":"v"},"artifactType":"t","data":"ZGF0YQ=="}`,
	`{"mediaType":"m","data":"!!"}`, `{"mediaType":"m","data":null,"urls":null,"platform":{"architecture":"amd64","os":"linux"}}`,
	`{"name":"n","description":"d","version":"1.0.0","url":"u","supportedContractVersions":["1.0"],"capabilities":["c1","c2"]}`,
	`{"name":"n","capabilities":["a",null],"supportedContractVersions":null}`,
	`{"name":null,"capabilities":"c"}`, `{"Name":"n","CAPABILITIES":[]}`,
	`{"errorCode":"VALIDATION_ERROR","errorMessage":"m","errorMetadata":{"k":"v"}}`,
	`{"errorCode":"ERROR"}`, `{"errorMessage":"only a message"}`, `{"errorMetadata":{}}`, `{"errorCode":1}`, `{"errorcode":"X","ERRORMESSAGE":"y"}`,
	`{"version":"1.0","trustPolicies":[{"name":"p","registryScopes":["*"],"signatureVerification":{"level":"strict","override":{"expiry":"log"}},"trustStores":["ca:s"],"trustedIdentities":["*"]}]}`,
	`{"version":"1.0","trustPolicies":[{"name":"p","signatureVerification":{"level":"audit","verifyTimestamp":"always"}},null]}`,
	`{"version":1,"trustPolicies":{}}`, `{"version":"1.0","trustPolicies":null}`,
	`{"a":{"b":[1,2,{"c":null}],"d":"e"},"f":true,"g":1.5,"h":-2}`,
}

func c12JSONErrClass(err error) string {
	if err == nil {
		return "nil"
	}
	var se *json.SyntaxError
	var te *json.UnmarshalTypeError
	switch {
	case errors.As(err, &se):
		return "syntax"
	case errors.As(err, &te):
		return "type"
	}
	if err.Error() == "unexpected end of JSON input" {
		return "syntax"
	}
	return "other"
}

// VsymC12JSON: one case = (target type, document).
func VsymC12JSON() {
	ti := vr.Choice("type", 7)
	xi := vr.Choice("text", len(c12JSONTexts))
	data := []byte(c12JSONTexts[xi])
	var err error
	var out []byte
	switch ti {
	case 0:
		var v envelope.Payload
		err = json.Unmarshal(data, &v)
		out, _ = json.Marshal(v)
	case 1:
		var v ocispec.Descriptor
		err = json.Unmarshal(data, &v)
		out, _ = json.Marshal(v)
	case 2:
		var v pluginframework.GetMetadataResponse
		err = json.Unmarshal(data, &v)
		out, _ = json.Marshal(v)
	case 3:
		var v proto.RequestError
		err = json.Unmarshal(data, &v)
		out, _ = json.Marshal(v)
	case 4:
		var v trustpolicy.OCIDocument
		err = json.Unmarshal(data, &v)
		out, _ = json.Marshal(v)
	case 5:
		var v map[string]interface{}
		err = json.Unmarshal(data, &v)
		if err == nil {
			// numbers decode to float64 under the real decoder and stay integers in the model: compare the shape only
			keys := 0
			for range v {
				keys++
			}
			out = []byte{byte('0' + keys%10)}
			if v == nil {
				out = []byte("nil")
			}
		}
	default:
		var v ocispec.Manifest
		err = json.Unmarshal(data, &v)
		out, _ = json.Marshal(v)
	}
	cls := c12JSONErrClass(err)
	if cls == "type" || cls == "other" {
		// after a kind mismatch the real decoder keeps decoding the rest; compare the outcome class only for
		// "other" (custom unmarshalers), the value too for type errors
		if cls == "other" {
			out = nil
		}
	}
	if cls == "syntax" {
		out = nil
	}
	vr.Note("json " + string(rune('0'+ti)) + "/" + string(rune('A'+xi%26)) + string(rune('0'+xi/26)) + " " + cls + " " + string(out))
	vr.Reach("decoded")
}

func init() { vsymHarnesses["VsymC12JSON"] = VsymC12JSON }
