//go:build verif

package verifier

import (
	revocationresult "github.com/notaryproject/notation-core-go/revocation/result"
	"context"
	"crypto/x509"
	"time"

	"github.com/notaryproject/notation-core-go/signature"
	"github.com/notaryproject/notation-go"
	vr "github.com/notaryproject/notation-go/internal/zzvr"
	"github.com/notaryproject/notation-go/verifier/trustpolicy"
	"github.com/opencontainers/go-digest"
	ocispec "github.com/opencontainers/image-spec/specs-go/v1"
)

var c03Types = []string{"ca", "signingAuthority", "tsa"}

func c03Name(tag string) string { return string([]byte{vr.Byte2(tag, 'a', 'b')}) }

// VsymC03: authenticity passes only through a listed store of the scheme's type holding a chain certificate.
func VsymC03() {
	kitEnv = kitEnvState{}
	kitInstallEnvelope()
	scheme := []signature.SigningScheme{signature.SigningSchemeX509, signature.SigningSchemeX509SigningAuthority, "notary.other"}[vr.Choice("scheme", 3)]
	required := ""
	switch scheme {
	case signature.SigningSchemeX509:
		required = "ca"
	case signature.SigningSchemeX509SigningAuthority:
		required = "signingAuthority"
	}
	window := func(c *x509.Certificate) *x509.Certificate {
		c.NotBefore = time.Unix(946684800, 0)
		c.NotAfter = time.Unix(4102444800, 0)
		return c
	}
	leaf, inter, root, unrelated := window(kitCert([]byte("leaf"), "leaf")), window(kitCert([]byte("inter"), "inter")), window(kitCert([]byte("root"), "root")), window(kitCert([]byte("unrelated"), "unrelated"))
	chainLen := vr.Choice("chainLen", vr.Param("chain", 2)) + 1
	chain := []*x509.Certificate{leaf, inter, root}[:chainLen]
	universe := []*x509.Certificate{leaf, inter, root, unrelated}

	// the applicable statement (scope of the reference) and another statement
	nA := vr.Choice("entriesA", vr.Param("entries", 2)) + 1
	var listA []string
	for i := 0; i < nA; i++ {
		listA = append(listA, c03Types[vr.Choice("typeA", 3)]+":"+c03Name("nameA"))
	}
	// the one store that holds a certificate of interest, and the one that cannot be loaded
	goodType := c03Types[vr.Choice("goodType", 3)]
	goodName := c03Name("goodName")
	goodCert := universe[vr.Choice("goodCert", 4)]
	withBad := vr.Choice("withUnloadable", 2) == 1
	badType, badName := "", ""
	if withBad {
		badType = c03Types[vr.Choice("badType", 3)]
		badName = c03Name("badName")
		vr.Assume(vr.Not(vr.And(badType == goodType, badName == goodName)))
	}
	listB := []string{goodType + ":" + goodName} // the other statement always lists the interesting store
	store := &c03Store{goodType: goodType, goodName: goodName, goodCert: goodCert, badType: badType, badName: badName, withBad: withBad, filler: unrelated,
		fillerEverywhere: vr.Choice("fillerEverywhere", 2) == 1}

	// another certificate with the very same subject (a re-issued root after a key roll-over) is another certificate
	if store.fillerEverywhere && goodCert != unrelated && vr.Choice("fillerSharesSubject", 2) == 1 {
		unrelated.Subject = goodCert.Subject
		unrelated.RawSubject = goodCert.RawSubject
	}

	doc := &trustpolicy.OCIDocument{Version: "1.0", TrustPolicies: []trustpolicy.OCITrustPolicy{
		{Name: "A", RegistryScopes: []string{"reg.io/repo"}, SignatureVerification: trustpolicy.SignatureVerification{VerificationLevel: "strict"}, TrustStores: listA, TrustedIdentities: []string{"*"}},
		{Name: "B", RegistryScopes: []string{"reg.io/other"}, SignatureVerification: trustpolicy.SignatureVerification{VerificationLevel: "strict"}, TrustStores: listB, TrustedIdentities: []string{"*"}},
	}}
	if vr.Choice("order", 2) == 1 {
		doc.TrustPolicies[0], doc.TrustPolicies[1] = doc.TrustPolicies[1], doc.TrustPolicies[0]
	}
	kitEnv.content = &signature.EnvelopeContent{
		Payload: signature.Payload{ContentType: "application/vnd.cncf.notary.payload.v1+json", Content: vr.JSONBytes(vr.JObj("targetArtifact", vr.JObj("mediaType", vr.JStr("m"), "digest", vr.JStr("d"), "size", vr.JNum(1))))},
		SignerInfo: signature.SignerInfo{SignedAttributes: signature.SignedAttributes{SigningScheme: scheme, SigningTime: time.Unix(1700000000, 0)},
			SignatureAlgorithm: signature.AlgorithmPS256, CertificateChain: chain, Signature: []byte("sig")},
	}
	v, err := NewVerifierWithOptions(store, VerifierOptions{OCITrustPolicy: doc, RevocationCodeSigningValidator: &kitValidator{results: kitOKResults(chainLen)}, RevocationTimestampingValidator: &kitValidator{}})
	if err != nil {
		vr.Assert(false, "valid document rejected")
		return
	}
	outcome, _ := v.Verify(context.Background(), ocispec.Descriptor{MediaType: "m", Digest: "d", Size: 1}, []byte{1}, notation.VerifierVerifyOptions{ArtifactReference: kitRef, SignatureMediaType: kitJWS})
	if outcome == nil {
		vr.Assert(false, "no outcome")
		return
	}
	var auth *notation.ValidationResult
	for _, r := range outcome.VerificationResults {
		if r.Type == trustpolicy.TypeAuthenticity {
			auth = r
		}
	}
	if auth == nil {
		vr.Assert(false, "no authenticity result")
		return
	}
	// oracle
	inChain := false
	for _, c := range chain {
		if c == goodCert {
			inChain = true
		}
	}
	goodListed, badLoaded := false, false
	for _, e := range listA {
		goodListed = vr.Or(goodListed, e == goodType+":"+goodName)
		if withBad {
			badLoaded = vr.Or(badLoaded, vr.And(e == badType+":"+badName, badType == required))
		}
	}
	want := vr.And(required != "", goodType == required, goodListed, inChain, vr.Not(badLoaded))
	vr.Assert(vr.Iff(auth.Error == nil, want), "authenticity passes iff a chain certificate is in a store the applicable statement lists, of the scheme's type, and every listed store of that type loads")
	vr.Assert(vr.Implies(badLoaded, auth.Error != nil), "a listed store of the required type that cannot be loaded fails authenticity")
	// every store consulted is listed by the applicable statement and of the scheme's type
	for _, c := range store.calls {
		listed := false
		for _, e := range listA {
			listed = vr.Or(listed, e == c)
		}
		vr.Assert(listed, "only stores listed by the applicable statement are consulted")
		vr.Assert(len(c) > len(required) && c[:len(required)+1] == required+":" && required != "", "only stores of the scheme's type are consulted for authenticity")
	}
	if auth.Error == nil {
		vr.Reach("trusted")
	} else {
		vr.Reach("not trusted")
	}
}

type c03Store struct {
	goodType, goodName string
	goodCert           *x509.Certificate
	badType, badName   string
	withBad            bool
	filler             *x509.Certificate
	fillerEverywhere   bool
	calls              []string
}

func (s *c03Store) GetCertificates(ctx context.Context, storeType truststoreType, namedStore string) ([]*x509.Certificate, error) {
	s.calls = append(s.calls, string(storeType)+":"+namedStore)
	if s.withBad && string(storeType) == s.badType && vr.Fork(namedStore == s.badName) {
		return nil, errStoreUnloadable
	}
	var out []*x509.Certificate
	if s.fillerEverywhere {
		out = append(out, s.filler)
	}
	if string(storeType) == s.goodType && vr.Fork(namedStore == s.goodName) {
		out = append(out, s.goodCert)
	}
	return out, nil
}

func init() { vsymHarnesses["VsymC03"] = VsymC03 }

// VsymC03Sequence: one verifier object, several verifications one after the other - under the OCI statement of
// one repository, the OCI statement of another, and the blob statement that happens to carry the same name as
// the first. Every statement has stores, a trusted identity and a level of its own, and the revocation answer
// may change from one verification to the next. Each verification is decided by its own statement and by the
// answers given at that moment, whatever the same verifier verified before (nothing a verifier remembers may
// stand in for a statement's stores, identities or level, or for a revocation check).
func VsymC03Sequence() {
	kitEnv = kitEnvState{}
	kitInstallEnvelope()
	window := func(c *x509.Certificate) *x509.Certificate {
		c.NotBefore = time.Unix(946684800, 0)
		c.NotAfter = time.Unix(4102444800, 0)
		c.Subject.Country, c.Subject.Province, c.Subject.Organization = []string{"US"}, []string{"WA"}, []string{c.Subject.CommonName}
		return c
	}
	leaf, unrelated := window(kitCert([]byte("leaf"), "leaf")), window(kitCert([]byte("unrelated"), "unrelated"))
	// three statements, three stores; which of the stores hold the signer's certificate is arbitrary
	stores := []string{"ca:x", "ca:y", "ca:z"}
	holds := []bool{vr.Bool("x.holdsSigner"), vr.Bool("y.holdsSigner"), vr.Bool("z.holdsSigner")}
	answers := map[string]kitStoreAnswer{}
	for i, s := range stores {
		c := unrelated
		if holds[i] {
			c = leaf
		}
		answers[s] = kitStoreAnswer{certs: []*x509.Certificate{c}}
	}
	store := &kitStore{answers: answers}
	// the two statements named alike differ in what they pin and demand
	pins := []bool{vr.Choice("acme.oci.pinsSigner", 2) == 1, true, vr.Choice("acme.blob.pinsSigner", 2) == 1}
	identity := func(pinsSigner bool) []string {
		if pinsSigner {
			return []string{"x509.subject:C=US,ST=WA,O=leaf"}
		}
		return []string{"x509.subject:C=US,ST=WA,O=somebody else"}
	}
	levels := []string{[]string{"strict", "skip"}[vr.Choice("acme.oci.level", 2)], "strict", "strict"}
	sv := func(l string) trustpolicy.SignatureVerification {
		return trustpolicy.SignatureVerification{VerificationLevel: l}
	}
	st0 := trustpolicy.OCITrustPolicy{Name: "acme", RegistryScopes: []string{"reg.io/repo"}, SignatureVerification: sv(levels[0])}
	if levels[0] != "skip" {
		st0.TrustStores, st0.TrustedIdentities = []string{stores[0]}, identity(pins[0])
	}
	oci := &trustpolicy.OCIDocument{Version: "1.0", TrustPolicies: []trustpolicy.OCITrustPolicy{st0,
		{Name: "other", RegistryScopes: []string{"reg.io/other"}, SignatureVerification: sv(levels[1]), TrustStores: []string{stores[1]}, TrustedIdentities: identity(pins[1])},
	}}
	blob := &trustpolicy.BlobDocument{Version: "1.0", TrustPolicies: []trustpolicy.BlobTrustPolicy{
		{Name: "acme", SignatureVerification: sv(levels[2]), TrustStores: []string{stores[2]}, TrustedIdentities: identity(pins[2])},
	}}
	kitEnv.content = &signature.EnvelopeContent{
		Payload: signature.Payload{ContentType: "application/vnd.cncf.notary.payload.v1+json", Content: vr.JSONBytes(vr.JObj("targetArtifact", vr.JObj("mediaType", vr.JStr("m"), "digest", vr.JStr("d"), "size", vr.JNum(1))))},
		SignerInfo: signature.SignerInfo{SignedAttributes: signature.SignedAttributes{SigningScheme: signature.SigningSchemeX509, SigningTime: time.Unix(1700000000, 0)},
			SignatureAlgorithm: signature.AlgorithmPS256, CertificateChain: []*x509.Certificate{leaf}, Signature: []byte("sig")},
	}
	validator := &kitValidator{}
	v, err := NewVerifierWithOptions(store, VerifierOptions{OCITrustPolicy: oci, BlobTrustPolicy: blob,
		RevocationCodeSigningValidator: validator, RevocationTimestampingValidator: &kitValidator{}})
	vr.Assert(err == nil, "harness: verifier")
	if err != nil {
		return
	}
	ctx := context.Background()
	desc := ocispec.Descriptor{MediaType: "m", Digest: "d", Size: 1}
	n := vr.Param("verifications", 3)
	for i := 0; i < n; i++ {
		which := vr.Choice("statement", 3)
		revoked := vr.Choice("signerRevokedNow", 2) == 1
		validator.results = kitOKResults(1)
		if revoked {
			validator.results = []*revocationresult.CertRevocationResult{{Result: revocationresult.ResultRevoked}}
		}
		validator.calls = 0
		store.calls = nil
		var outcome *notation.VerificationOutcome
		var verr error
		switch which {
		case 0:
			outcome, verr = v.Verify(ctx, desc, []byte{1}, notation.VerifierVerifyOptions{ArtifactReference: "reg.io/repo@sha256:aaaaaaaaaaaaaaaaaaaaaaaaaaaaaaaaaaaaaaaaaaaaaaaaaaaaaaaaaaaaaaaa", SignatureMediaType: kitJWS})
		case 1:
			outcome, verr = v.Verify(ctx, desc, []byte{1}, notation.VerifierVerifyOptions{ArtifactReference: "reg.io/other@sha256:aaaaaaaaaaaaaaaaaaaaaaaaaaaaaaaaaaaaaaaaaaaaaaaaaaaaaaaaaaaaaaaa", SignatureMediaType: kitJWS})
		default:
			gen := func(a digest.Algorithm) (ocispec.Descriptor, error) { return desc, nil }
			outcome, verr = v.VerifyBlob(ctx, gen, []byte{1}, notation.BlobVerifierVerifyOptions{SignatureMediaType: kitJWS, TrustPolicyName: "acme"})
		}
		vr.Assert(outcome != nil, "an outcome is returned")
		if levels[which] == "skip" {
			vr.Assert(verr == nil && outcome != nil && outcome.VerificationLevel != nil && outcome.VerificationLevel.Name == "skip" && len(store.calls) == 0, "under a skip-level statement nothing is verified and no store consulted")
			vr.Reach("skip statement in the sequence")
			continue
		}
		want := holds[which] && pins[which] && !revoked
		vr.Assert((verr == nil) == want, "each verification is decided by the stores, the trusted identities and the level of its own statement and by the revocation answer given now, whatever the same verifier verified before")
		vr.Assert(outcome != nil && outcome.VerificationLevel != nil && outcome.VerificationLevel.Name == levels[which], "the level reported is that of the statement that applies")
		for _, c := range store.calls {
			vr.Assert(c == stores[which], "only the stores listed by the statement that applies are consulted")
		}
		if holds[which] && pins[which] {
			vr.Assert(validator.calls == 1, "revocation is checked anew for every verification that gets that far")
		}
		if i > 0 {
			vr.Reach("verified after another statement")
		}
	}
}

func init() { vsymHarnesses["VsymC03Sequence"] = VsymC03Sequence }
