//go:build verif

// Package blobkit: what the blob routes of notation (SignBlob / VerifyBlob through getDescriptorFunc) need
// from their environment - a reader that delivers the blob the way real readers may (in pieces, the last one
// together with io.EOF or not), and go-digest's Digester as an uninterpreted injective function of the
// algorithm and the bytes written.
package blobkit

import (
	"hash"
	"io"
	"strings"

	vr "github.com/notaryproject/notation-go/internal/zzvr"
	"github.com/opencontainers/go-digest"
)

//vsym:stub (github.com/opencontainers/go-digest.Algorithm).Digester = NewDigester
//vsym:stub (github.com/opencontainers/go-digest.Algorithm).Hash = NewHash
//vsym:stub (github.com/opencontainers/go-digest.Algorithm).Available = Available
//vsym:stub github.com/opencontainers/go-digest.NewDigest = NewDigest

// Reader delivers data in pieces of at most Piece bytes; with EOFWithData the last piece comes together with
// io.EOF (as HTTP bodies, decompressors and iotest.DataErrReader do), otherwise io.EOF follows on its own.
type Reader struct {
	Data        string
	Piece       int
	EOFWithData bool
	pos         int
	Reads       int
}

// NewReader draws how the blob is delivered.
func NewReader(data string) *Reader {
	r := &Reader{Data: data}
	r.Piece = []int{1 << 20, 1, 5}[vr.Choice("blobPiece", 3)]
	r.EOFWithData = vr.Choice("blobLastPieceWithEOF", 2) == 1
	return r
}

func (r *Reader) Read(p []byte) (int, error) {
	r.Reads++
	if r.pos >= len(r.Data) {
		return 0, io.EOF
	}
	n := len(r.Data) - r.pos
	if n > r.Piece {
		n = r.Piece
	}
	if n > len(p) {
		n = len(p)
	}
	copy(p, r.Data[r.pos:r.pos+n])
	r.pos += n
	if r.pos == len(r.Data) && r.EOFWithData {
		return n, io.EOF
	}
	return n, nil
}

// Algs records the algorithm of every digester handed out.
var Algs []digest.Algorithm

var seen []string

// Reset forgets what was digested so far.
func Reset() { Algs, seen = nil, nil }

type blobHash struct {
	data []byte
	alg  digest.Algorithm
}

func (h *blobHash) Write(p []byte) (int, error) { h.data = append(h.data, p...); return len(p), nil }
func (h *blobHash) Sum(b []byte) []byte         { return b }
func (h *blobHash) Reset()                      { h.data = nil }
func (h *blobHash) Size() int                   { return 32 }
func (h *blobHash) BlockSize() int              { return 64 }

type blobDigester struct {
	alg digest.Algorithm
	h   *blobHash
}

func (d *blobDigester) Hash() hash.Hash       { return d.h }
func (d *blobDigester) Digest() digest.Digest { return digest.Digest(model(d.alg, string(d.h.data))) }

// NewDigester stands for go-digest's Algorithm.Digester under the engine.
func NewDigester(a digest.Algorithm) digest.Digester {
	Algs = append(Algs, a)
	return &blobDigester{alg: a, h: &blobHash{}}
}

// NewHash stands for Algorithm.Hash (the other way go-digest offers to digest a stream).
func NewHash(a digest.Algorithm) hash.Hash {
	Algs = append(Algs, a)
	return &blobHash{alg: a}
}

// Available: the three algorithms of the library are linked in.
func Available(a digest.Algorithm) bool {
	return a == digest.SHA256 || a == digest.SHA384 || a == digest.SHA512
}

// NewDigest stands for digest.NewDigest(alg, h) on a hash handed out by NewHash / NewDigester.
func NewDigest(a digest.Algorithm, h hash.Hash) digest.Digest {
	if b, ok := h.(*blobHash); ok {
		return digest.Digest(model(a, string(b.data)))
	}
	return digest.Digest(model(a, "\x00foreign hash"))
}

// model: one hex digit per distinct content, in the order of first sight - injective on what a run digests.
func model(a digest.Algorithm, content string) string {
	idx := -1
	for i, s := range seen {
		if s == content {
			idx = i
		}
	}
	if idx < 0 {
		seen = append(seen, content)
		idx = len(seen) - 1
	}
	n := 64
	switch a {
	case digest.SHA384:
		n = 96
	case digest.SHA512:
		n = 128
	}
	return string(a) + ":" + strings.Repeat(string("0123456789abcdef"[idx%16]), n)
}

// DigestOf is the digest of content under a: the model's under the engine, the real one natively.
func DigestOf(a digest.Algorithm, content string) string {
	if vr.Symbolic() {
		return model(a, content)
	}
	return string(a.FromString(content))
}
