//go:build verif

package crl

// C14: a CRL cache entry is only ever absent or complete - under every interleaving and crash point.
//
// Stage 1 runs the real FileCache.Set / FileCache.Get over the file-system model and records the sequence
// of file-system operations each performs (the writer and reader programs, regenerated from the current
// tree on every run). Stage 2 composes W writers and R readers over an inode-level model and lets the
// scheduler (which thread moves at each micro-step) and the crash point of every writer be symbolic
// variables; the interpreter below is written without branches on them, so each assertion is ONE solver
// query over all schedules and crash points of the configuration - not an enumeration of schedules.

import (
	"context"
	"crypto/x509"
	"os"
	"strings"
	"time"

	corecrl "github.com/notaryproject/notation-core-go/revocation/crl"
	"github.com/notaryproject/notation-go/internal/zzvr/fskit"
	vr "github.com/notaryproject/notation-go/internal/zzvr"
)

// micro-step kinds of the composed model
const (
	mCreateNew   = iota // bind a fresh inode to name (O_EXCL / CreateTemp)
	mCreateTrunc        // bind name to a fresh inode if unbound, else truncate the inode it is bound to
	mOpenKeep           // like mCreateTrunc but an existing inode keeps its content (no O_TRUNC)
	mWriteHalf          // first part of the content reaches the inode
	mWriteRest          // the rest of the content reaches the inode
	mClose
	mRename
	mRemove
	mStat     // reader: remember what the name currently holds
	mOpenRead // reader: bind the inode the name currently holds (or miss)
	mRead     // reader: read the bound inode's current content
	mNop
)

// labels shared by the engine side and the native scheduler
const (
	c14LRead = "a read never yields a truncated, mixed or torn entry: it is a miss or a complete bundle"
	c14LURL = "a read yields a bundle some writer stored for that URL"
	c14LMiss = "a read that starts after a write for the URL has returned is not a miss"
	c14LOlder = "a read that starts after a write for the URL has returned does not yield an older bundle"
	c14LKey = "whatever a key name is bound to - at every cut of every execution - is a complete entry"
	c14LW1 = "witness: a reader is served the last writer's bundle while the first writer is still at work"
	c14LW2 = "witness: a crash inside the write leaves a partial temporary file"
	c14LW3 = "witness: a reader misses"
)

var kindNames = []string{"create-new", "create-trunc", "open-keep", "write-half", "write-rest", "close", "rename", "remove", "stat", "open-read", "read", "nop"}

type c14Step struct {
	kind int
	name int // index into the name table
	to   int // rename target
}

type c14Prog struct {
	steps []c14Step
	url   int
}

type c14Names struct{ list []string }

func (n *c14Names) idx(s string) int {
	for i, x := range n.list {
		if x == s {
			return i
		}
	}
	n.list = append(n.list, s)
	return len(n.list) - 1
}

// c14Translate turns a recorded operation log into micro-steps.
func c14Translate(log []fskit.Op, names *c14Names, root string, writer bool) []c14Step {
	var out []c14Step
	forWriting := map[string]bool{}
	for _, o := range log {
		switch o.Kind {
		case "createtemp":
			forWriting[o.Ret] = true
		case "create", "writefile":
			forWriting[o.Path] = true
		case "openfile":
			forWriting[o.Path] = o.Flags&(os.O_WRONLY|os.O_RDWR) != 0
		case "open":
			forWriting[o.Path] = false
		}
		switch o.Kind {
		case "mkdirall", "mkdir", "chmod", "fchmod", "fstat":
			// directory set-up and permissions do not bear on the property
		case "createtemp":
			out = append(out, c14Step{kind: mCreateNew, name: names.idx(o.Ret)})
		case "create":
			out = append(out, c14Step{kind: mCreateTrunc, name: names.idx(o.Path)})
		case "openfile":
			switch {
			case o.Flags&(os.O_WRONLY|os.O_RDWR) == 0:
				out = append(out, c14Step{kind: mOpenRead, name: names.idx(o.Path)})
			case o.Flags&os.O_EXCL != 0:
				out = append(out, c14Step{kind: mCreateNew, name: names.idx(o.Path)})
			case o.Flags&os.O_TRUNC != 0:
				out = append(out, c14Step{kind: mCreateTrunc, name: names.idx(o.Path)})
			default:
				out = append(out, c14Step{kind: mOpenKeep, name: names.idx(o.Path)})
			}
		case "writefile":
			i := names.idx(o.Path)
			out = append(out, c14Step{kind: mCreateTrunc, name: i}, c14Step{kind: mWriteHalf, name: i}, c14Step{kind: mWriteRest, name: i}, c14Step{kind: mClose, name: i})
		case "write":
			i := names.idx(o.Path)
			out = append(out, c14Step{kind: mWriteHalf, name: i}, c14Step{kind: mWriteRest, name: i})
		case "close":
			// closing a file opened for reading changes nothing and is not a step of the composed model
			if forWriting[o.Path] {
				out = append(out, c14Step{kind: mClose, name: names.idx(o.Path)})
			}
		case "rename":
			out = append(out, c14Step{kind: mRename, name: names.idx(o.Path), to: names.idx(o.To)})
		case "remove":
			out = append(out, c14Step{kind: mRemove, name: names.idx(o.Path)})
		case "read":
			i := names.idx(o.Path)
			out = append(out, c14Step{kind: mOpenRead, name: i}, c14Step{kind: mRead, name: i})
		case "stat", "lstat":
			// a writer looking at a name (os.Rename looks at the new one) changes nothing and decides nothing in
			// the composed model: it is left out on both sides (the native scheduler lets it through)
			if !writer {
				out = append(out, c14Step{kind: mStat, name: names.idx(o.Path)})
			}
		case "open":
			out = append(out, c14Step{kind: mOpenRead, name: names.idx(o.Path)})
		case "fileread", "copy":
			// consecutive reads of one open file are one step (the composed model hands the whole content to
			// the first; the native scheduler groups them the same way)
			i := names.idx(o.Path)
			if len(out) > 0 && out[len(out)-1].kind == mRead && out[len(out)-1].name == i {
				continue
			}
			out = append(out, c14Step{kind: mRead, name: i})
		default:
			vr.Unsupported("file-system operation " + o.Kind + " in the extracted program")
		}
	}
	return out
}

func c14KeyShaped(root, p string) bool {
	return strings.HasPrefix(p, root+"/") && c15IsHexName(p[len(root)+1:])
}

// VsymC14 extracts the programs and decides the property over all schedules and crash points.
func VsymC14() {
	if !vr.Symbolic() {
		c14Native()
		return
	}
	W := vr.Param("writers", 2)
	R := vr.Param("readers", 1)
	ctx := context.Background()
	// two URLs that differ in one letter's case inside the query only: the cache key is the URL, every byte of it
	urlNames := []string{"http://example.com/crl?issuer=a", "http://example.com/crl?issuer=A"}
	names := &c14Names{}
	root := ""
	var writers, readers []c14Prog
	keyOf := []int{-1, -1}

	// ---- stage 1: the programs of the real code ------------------------------------------------------
	c15Hashes, c15Known = nil, nil
	for w := 0; w < W; w++ {
		fskit.Reset()
		fskit.FS.TempSeq = 10 * (w + 1)
		root = fskit.Root() + "/cache"
		cache, err := NewFileCache(root)
		vr.Assert(err == nil, "the cache directory can be created")
		u := 0
		if W+R > 2 && w == W-1 && vr.Param("urls", 1) > 1 {
			u = 1 // the last writer stores another URL
		}
		base := &c15CRL{der: []byte{'c', 'r', 'l', byte('0' + w)}, nextUpdate: 1 << 41}
		base.list = &x509.RevocationList{Raw: base.der, NextUpdate: time.Unix(1<<41, 0)}
		c15Known = append(c15Known, base)
		fskit.FS.Log = nil
		err = cache.Set(ctx, urlNames[u], &corecrl.Bundle{BaseCRL: base.list})
		vr.Assert(err == nil, "storing succeeds when nothing interferes")
		log := fskit.FS.Log
		// what is written is the complete entry; where it ends up is the key of the URL
		wrote := false
		for _, o := range log {
			if o.Kind == "write" || o.Kind == "writefile" {
				vr.Assert(!wrote, "the entry is written in one piece")
				wrote = true
				vr.Assert(vr.JSONEqual(o.Data, vr.JObj("baseCRL", vr.JBytesVal(base.der))), "the content written is the complete marshalled entry")
			}
		}
		vr.Assert(wrote, "the entry is written")
		key := root + "/" + cache.fileName(urlNames[u])
		vr.Assert(c14KeyShaped(root, key), "the key of a URL is root/<64 hex digits>")
		keyOf[u] = names.idx(key)
		c15NowSecs = 1000
		got, gerr := cache.Get(ctx, urlNames[u])
		vr.Assert(gerr == nil && got != nil && string(got.BaseCRL.Raw) == string(base.der), "what was stored is read back when nothing interferes")
		writers = append(writers, c14Prog{steps: c14Translate(log, names, root, true), url: u})
	}
	for r := 0; r < R; r++ {
		fskit.Reset()
		root = fskit.Root() + "/cache"
		cache, _ := NewFileCache(root)
		u := 0
		if r == 1 && vr.Param("urls", 1) > 1 {
			u = 1
		}
		// the reader program is recorded on a hit (a miss ends it early)
		rb := &c15CRL{der: []byte{'r', 'd', 'r', byte('0' + r)}, nextUpdate: 1 << 41}
		rb.list = &x509.RevocationList{Raw: rb.der, NextUpdate: time.Unix(1<<41, 0)}
		c15Known = append(c15Known, rb)
		fskit.Quiet()
		serr := cache.Set(ctx, urlNames[u], &corecrl.Bundle{BaseCRL: rb.list})
		fskit.Loud()
		vr.Assert(serr == nil, "harness: preparing the entry the reader program is recorded on")
		// the reader is another process: a handle of its own on the same directory
		fskit.Quiet()
		cache, _ = NewFileCache(root)
		fskit.Loud()
		fskit.FS.Log = nil
		c15NowSecs = 1000
		_, gerr := cache.Get(ctx, urlNames[u])
		vr.Assert(gerr == nil, "a stored entry is read back")
		log := fskit.FS.Log
		steps := c14Translate(log, names, root, false)
		readers = append(readers, c14Prog{steps: steps, url: u})
	}
	// leftover temporary files can never be mistaken for entries
	for i, n := range names.list {
		isKey := i == keyOf[0] || i == keyOf[1]
		vr.Assert(isKey || !c14KeyShaped(root, n), "no temporary name is shaped like a key")
	}
	for w, p := range writers {
		line := "writer" + string(rune('0'+w)) + ":"
		for _, st := range p.steps {
			line += " " + kindNames[st.kind] + "(" + string(rune('0'+st.name)) + ")"
		}
		vr.Note(line)
	}
	for r, p := range readers {
		line := "reader" + string(rune('0'+r)) + ":"
		for _, st := range p.steps {
			line += " " + kindNames[st.kind] + "(" + string(rune('0'+st.name)) + ")"
		}
		vr.Note(line)
	}
	vr.Reach("programs extracted")

	// ---- stage 2: all schedules and crash points, symbolically --------------------------------------------
	nNames := len(names.list)
	nThreads := W + R
	total := 0
	for _, p := range writers {
		total += len(p.steps)
	}
	for _, p := range readers {
		total += len(p.steps)
	}
	// inodes: one per creating step
	type inodeRef struct{ w, pos int }
	var inodes []inodeRef
	for w, p := range writers {
		for i, s := range p.steps {
			if s.kind == mCreateNew || s.kind == mCreateTrunc || s.kind == mOpenKeep {
				inodes = append(inodes, inodeRef{w, i})
			}
		}
	}
	nI := len(inodes) + 1 // inode 0 = "none"
	// state (all symbolic integers / booleans; updated by if-then-else only)
	bind := make([]int, nNames)   // name -> inode (0 none)
	owner := make([]int, nI)      // inode -> writer whose content it holds (-1 none)
	prog := make([]int, nI)       // inode -> 0 empty, 1 partial, 2 complete
	mixed := make([]bool, nI)     // inode holds a mixture of two writers' bytes
	renAt := make([]int, nI)      // inode -> time it was renamed onto a key (0 never)
	for i := range owner {
		owner[i] = -1
	}
	pc := make([]int, nThreads)
	hnd := make([]int, nThreads) // the inode a thread's handle is bound to
	doneAt := make([]int, W)     // time at which Set returned (0 = not yet / crashed)
	crash := make([]int, W)
	for w := 0; w < W; w++ {
		crash[w] = vr.Int("crashAfter", 0, len(writers[w].steps)) // == len: never crashes
	}
	// reader observations
	statOwner := make([]int, R)
	statProg := make([]int, R)
	didStat := make([]bool, R)
	openAt := make([]int, R)
	resOwner := make([]int, R) // -2 not read yet, -1 miss
	resProg := make([]int, R)
	resMixed := make([]bool, R)
	resTorn := make([]bool, R)
	resEmpty := make([]bool, R) // the inode read holds nobody's bytes yet (created or truncated, not written)
	resInode := make([]int, R)
	for r := range resOwner {
		resOwner[r] = -2
		statOwner[r] = -1
	}

	for t := 1; t <= total; t++ {
		who := vr.Int("sched", 0, nThreads-1)
		// exactly one micro-step of one thread per instant: steps are enabled by the program counters as they
		// were at the beginning of the instant
		pcAt := append([]int{}, pc...)
		for th := 0; th < nThreads; th++ {
			var steps []c14Step
			if th < W {
				steps = writers[th].steps
			} else {
				steps = readers[th-W].steps
			}
			for p, s := range steps {
				on := vr.And(who == th, pcAt[th] == p)
				if th < W {
					on = vr.And(on, p < crash[th])
				}
				switch s.kind {
				case mCreateNew, mCreateTrunc, mOpenKeep:
					fresh := 0
					for k, ir := range inodes {
						if ir.w == th && ir.pos == p {
							fresh = k + 1
						}
					}
					cur := bind[s.name]
					useOld := vr.And(cur != 0, s.kind != mCreateNew)
					target := vr.IteInt(useOld, cur, fresh)
					// a fresh inode is empty and owned by nobody yet; truncation empties the shared inode;
					// keeping the content makes the coming write a mixture
					for i := 1; i < nI; i++ {
						hit := vr.And(on, target == i)
						if s.kind == mOpenKeep {
							mixed[i] = vr.IteBool(vr.And(hit, useOld, prog[i] != 0), true, mixed[i])
						} else {
							prog[i] = vr.IteInt(hit, 0, prog[i])
							owner[i] = vr.IteInt(hit, -1, owner[i])
							mixed[i] = vr.IteBool(hit, false, mixed[i])
						}
					}
					bind[s.name] = vr.IteInt(on, target, bind[s.name])
					hnd[th] = vr.IteInt(on, target, hnd[th])
				case mWriteHalf, mWriteRest:
					for i := 1; i < nI; i++ {
						hit := vr.And(on, hnd[th] == i)
						// bytes of two writers in one inode: a mixture
						mixed[i] = vr.IteBool(vr.And(hit, owner[i] != -1, owner[i] != th), true, mixed[i])
						owner[i] = vr.IteInt(hit, th, owner[i])
						if s.kind == mWriteHalf {
							prog[i] = vr.IteInt(hit, 1, prog[i])
						} else {
							prog[i] = vr.IteInt(hit, 2, prog[i])
						}
					}
				case mRename:
					src := bind[s.name]
					isKey := s.to == keyOf[0] || s.to == keyOf[1]
					for i := 1; i < nI; i++ {
						if isKey {
							renAt[i] = vr.IteInt(vr.And(on, src == i), t, renAt[i])
						}
					}
					bind[s.to] = vr.IteInt(vr.And(on, src != 0), src, bind[s.to])
					bind[s.name] = vr.IteInt(vr.And(on, src != 0), 0, bind[s.name])
				case mRemove:
					bind[s.name] = vr.IteInt(on, 0, bind[s.name])
				case mStat:
					if th < W {
						break // a writer looking at a name (os.Rename does) takes an instant and changes nothing
					}
					r := th - W
					cur := bind[s.name]
					for i := 1; i < nI; i++ {
						hit := vr.And(on, cur == i)
						statOwner[r] = vr.IteInt(hit, owner[i], statOwner[r])
						statProg[r] = vr.IteInt(hit, prog[i], statProg[r])
					}
					statProg[r] = vr.IteInt(vr.And(on, cur == 0), -1, statProg[r])
					// a name that is not there ends the reader with a miss, as a failing open does
					resOwner[r] = vr.IteInt(vr.And(on, cur == 0, resOwner[r] == -2), -1, resOwner[r])
					didStat[r] = vr.IteBool(on, true, didStat[r])
				case mOpenRead:
					r := th - W
					cur := bind[s.name]
					hnd[th] = vr.IteInt(on, cur, hnd[th])
					// a missing file is a miss, and the reader is done
					resOwner[r] = vr.IteInt(vr.And(on, cur == 0, resOwner[r] == -2), -1, resOwner[r])
				case mRead:
					r := th - W
					for i := 1; i < nI; i++ {
						hit := vr.And(on, hnd[th] == i, resOwner[r] == -2)
						resEmpty[r] = vr.IteBool(vr.And(hit, owner[i] == -1), true, resEmpty[r])
						resOwner[r] = vr.IteInt(hit, vr.IteInt(owner[i] == -1, -3, owner[i]), resOwner[r])
						resProg[r] = vr.IteInt(hit, prog[i], resProg[r])
						resMixed[r] = vr.IteBool(hit, mixed[i], resMixed[r])
						resInode[r] = vr.IteInt(hit, i, resInode[r])
						// a size taken from an earlier stat of the name that no longer describes what is read
						resTorn[r] = vr.IteBool(vr.And(hit, didStat[r], vr.Or(statOwner[r] != owner[i], statProg[r] != prog[i])), true, resTorn[r])
					}
				}
				if th >= W && p == 0 {
					openAt[th-W] = vr.IteInt(on, t, openAt[th-W]) // the instant the read starts
				}
				last := p == len(steps)-1
				if th < W && last {
					doneAt[th] = vr.IteInt(on, t, doneAt[th])
				}
				pc[th] = vr.IteInt(on, p+1, pc[th])
			}
		}
	}

	// ---- the property, as assertions over the final symbolic state ------------------------------------------
	for r := 0; r < R; r++ {
		u := readers[r].url
		read := resOwner[r] >= 0
		ownerURL := -1
		for w := 0; w < W; w++ {
			ownerURL = vr.IteInt(resOwner[r] == w, writers[w].url, ownerURL)
		}
		vr.Assert(vr.And(vr.Implies(read, vr.And(resProg[r] == 2, !resMixed[r], !resTorn[r])), !resEmpty[r]), c14LRead)
		vr.Assert(vr.Implies(read, ownerURL == u), c14LURL)
		for w := 0; w < W; w++ {
			if writers[w].url != u {
				continue
			}
			after := vr.And(doneAt[w] != 0, openAt[r] != 0, doneAt[w] < openAt[r])
			vr.Assert(vr.Implies(after, resOwner[r] != -1), c14LMiss)
			// ... and not older than that write: the entry read was renamed into place no earlier than w's
			wRen := 0
			for i := 1; i < nI; i++ {
				wRen = vr.IteInt(vr.And(owner[i] == w, renAt[i] != 0), renAt[i], wRen)
			}
			rRen := 0
			for i := 1; i < nI; i++ {
				rRen = vr.IteInt(resInode[r] == i, renAt[i], rRen)
			}
			vr.Assert(vr.Implies(vr.And(after, read, wRen != 0), rRen >= wRen), c14LOlder)
		}
	}
	// after any crash, what sits under a key name is complete
	for _, k := range keyOf {
		if k < 0 {
			continue
		}
		for i := 1; i < nI; i++ {
			vr.Assert(vr.Implies(bind[k] == i, vr.And(prog[i] == 2, !mixed[i])), c14LKey)
		}
	}
	vr.Reach("all schedules decided")
	// reachability witnesses (guards against a vacuous model): situations that must be possible
	lw := 0
	for w := range writers {
		if writers[w].url == readers[0].url {
			lw = w
		}
	}
	if vr.Fork(vr.And(lw > 0, resOwner[0] == lw, doneAt[0] == 0, crash[0] == len(writers[0].steps))) {
		vr.Reach(c14LW1)
		return
	}
	partialTemp := false
	for i := 1; i < nI; i++ {
		for n := 0; n < nNames; n++ {
			if n != keyOf[0] && n != keyOf[1] {
				partialTemp = vr.Or(partialTemp, vr.And(bind[n] == i, prog[i] == 1))
			}
		}
	}
	if vr.Fork(partialTemp) {
		vr.Reach(c14LW2)
		return
	}
	if vr.Fork(resOwner[0] == -1) {
		vr.Reach(c14LW3)
	}
}

// VsymC14Handles: several FileCache handles (as several processes have) on one cache directory: a read
// through any handle that starts after a write through any handle has returned yields that write's bundle.
func VsymC14Handles() {
	c15Hashes, c15Known = nil, nil
	var root string
	if vr.Symbolic() {
		fskit.Reset()
	}
	root = fskit.Root() + "/cache"
	defer fskit.Cleanup()
	ctx := context.Background()
	var handles []*FileCache
	for i := 0; i < 2; i++ {
		c, err := NewFileCache(root)
		vr.Assert(err == nil, "the cache directory can be opened")
		handles = append(handles, c)
	}
	url := "http://example.com/a.crl"
	type stored struct{ base, delta []byte }
	var last *stored
	mint := func(tag byte, op int) (*x509.RevocationList, []byte) {
		if vr.Symbolic() {
			b := &c15CRL{der: []byte{'h', tag, byte('0' + op)}, nextUpdate: 1 << 41}
			b.list = &x509.RevocationList{Raw: b.der, NextUpdate: time.Unix(1<<41, 0)}
			c15Known = append(c15Known, b)
			return b.list, b.der
		}
		// natively: real CRLs of equal encoded size (re-issued lists with consecutive numbers)
		der := c15MintCRL(int64(100+10*int(tag-'a')+op), time.Now().Add(240*time.Hour))
		list, _ := x509.ParseRevocationList(der)
		return list, der
	}
	n := vr.Param("ops", 4)
	for op := 0; op < n; op++ {
		h := handles[vr.Choice("handle", 2)]
		switch vr.Choice("op", 3) {
		case 0: // store a bundle: base only, or base and delta
			b := &corecrl.Bundle{}
			s := &stored{}
			b.BaseCRL, s.base = mint('a', op)
			if vr.Choice("withDelta", 2) == 1 {
				b.DeltaCRL, s.delta = mint('b', op)
			}
			vr.Assert(h.Set(ctx, url, b) == nil, "storing succeeds")
			last = s
			continue
		case 1: // the entry disappears behind the handles' back (another process cleans the cache directory)
			if last == nil {
				continue
			}
			vr.Assert(os.Remove(root+"/"+h.fileName(url)) == nil, "harness: entry removed")
			last = nil
			continue
		}
		c15NowSecs = 1000
		got, err := h.Get(ctx, url)
		if last == nil {
			vr.Assert(err == corecrl.ErrCacheMiss, "nothing stored (any more): a miss")
			continue
		}
		ok := err == nil && got != nil && got.BaseCRL != nil && string(got.BaseCRL.Raw) == string(last.base)
		if ok {
			if last.delta == nil {
				ok = got.DeltaCRL == nil
			} else {
				ok = got.DeltaCRL != nil && string(got.DeltaCRL.Raw) == string(last.delta)
			}
		}
		vr.Assert(ok, "a read that starts after a write has returned yields that write's bundle - its base and its delta, nothing of an earlier one - whichever handle wrote and whichever reads")
		vr.Reach("read after write through handles")
	}
}

func init() {
	vsymHarnesses["VsymC14"] = VsymC14
	vsymHarnesses["VsymC14Handles"] = VsymC14Handles
}
