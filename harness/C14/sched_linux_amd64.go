//go:build verif && linux && amd64

package crl

// Native side of C14: a deterministic scheduler over real processes. Every thread of the composed model
// (a writer calling the real FileCache.Set, a reader calling the real FileCache.Get) is a child process of
// the replay test, traced with ptrace and held at the entry of every system call that touches the cache
// directory. The scheduler releases exactly one such call per instant, in the order the solver's model
// gives (sched#t), shortens the first write of every buffer to half its length (so that the kernel performs
// the partial write the model's write-half / write-rest pair stands for) and never releases a writer past
// its crash point (crashAfter#w). What the readers return and what is left on disk is then judged against
// the same assertions as under the engine.

import (
	"bytes"
	"errors"
	"fmt"
	"os"
	"runtime"
	"strings"
	"syscall"
	"time"
)

const c14NativeSched = true

type c14NatStep struct {
	kind     int
	name, to string // relative to the cache root
}

type c14Proc struct {
	pid      int
	exited   bool
	held     bool
	heldTid  int
	heldStep c14NatStep
	fdName   map[int]string
	fdWr     map[int]bool
	halved   map[int]bool
	lastRead int // fd of the read step just executed (further reads of it belong to the same step)
	steps    []c14NatStep
	unsup    string
	writer   bool // a writer's look at a name (stat) is not a step of the composed model
}

type c14Tracer struct {
	root   string
	procs  map[int]*c14Proc // by pid
	tidPid map[int]int
	inSys  map[int]bool
	// per tid, information carried from a system call's entry to its exit
	pendOpen map[int]string
	pendWr   map[int]bool
	pendCls  map[int]int
	err      error
}

func c14NewTracer(root string) *c14Tracer {
	return &c14Tracer{root: root, procs: map[int]*c14Proc{}, tidPid: map[int]int{}, inSys: map[int]bool{},
		pendOpen: map[int]string{}, pendWr: map[int]bool{}, pendCls: map[int]int{}}
}

// start launches one helper (this test binary in a helper role) under ptrace and runs it up to its first step.
func (t *c14Tracer) start(env []string, writer bool) (*c14Proc, error) {
	attr := &syscall.ProcAttr{Env: append(os.Environ(), env...), Files: []uintptr{0, 1, 2}, Sys: &syscall.SysProcAttr{Ptrace: true}}
	pid, err := syscall.ForkExec(os.Args[0], []string{os.Args[0], "-test.run", "^TestVsymC14Helper$"}, attr)
	if err != nil {
		return nil, err
	}
	var ws syscall.WaitStatus
	if _, err := syscall.Wait4(pid, &ws, syscall.WALL, nil); err != nil {
		return nil, err
	}
	if !ws.Stopped() {
		return nil, errors.New("helper did not stop at exec")
	}
	const exitKill = 0x100000
	if err := syscall.PtraceSetOptions(pid, syscall.PTRACE_O_TRACESYSGOOD|syscall.PTRACE_O_TRACECLONE|exitKill); err != nil {
		return nil, err
	}
	p := &c14Proc{pid: pid, writer: writer, fdName: map[int]string{}, fdWr: map[int]bool{}, halved: map[int]bool{}, lastRead: -1}
	t.procs[pid] = p
	t.tidPid[pid] = pid
	if err := syscall.PtraceSyscall(pid, 0); err != nil {
		return nil, err
	}
	t.run(p)
	return p, t.err
}

func (t *c14Tracer) under(path string) (string, bool) {
	if strings.HasPrefix(path, t.root+"/") {
		return path[len(t.root):], true
	}
	return "", false
}

func c14PeekString(tid int, addr uintptr) string {
	var out []byte
	buf := make([]byte, 8)
	for len(out) < 4096 {
		n, err := syscall.PtracePeekData(tid, addr+uintptr(len(out)), buf)
		if err != nil || n == 0 {
			break
		}
		if i := bytes.IndexByte(buf[:n], 0); i >= 0 {
			return string(append(out, buf[:i]...))
		}
		out = append(out, buf[:n]...)
	}
	return string(out)
}

func (t *c14Tracer) procOf(tid int) *c14Proc {
	if pid, ok := t.tidPid[tid]; ok {
		return t.procs[pid]
	}
	b, err := os.ReadFile(fmt.Sprintf("/proc/%d/status", tid))
	if err == nil {
		for _, l := range strings.Split(string(b), "\n") {
			if strings.HasPrefix(l, "Tgid:") {
				var pid int
				fmt.Sscanf(strings.TrimSpace(l[5:]), "%d", &pid)
				if p, ok := t.procs[pid]; ok {
					t.tidPid[tid] = pid
					return p
				}
			}
		}
	}
	return nil
}

// classify looks at a system call at its entry. step: it begins a micro-step of the program (hold it);
// otherwise it is let through.
func (t *c14Tracer) classify(p *c14Proc, tid int, regs *syscall.PtraceRegs) (step bool, st c14NatStep) {
	const atRemoveDir = 0x200
	nr := int64(regs.Orig_rax)
	pathArg := func(a uint64) (string, bool) { return t.under(c14PeekString(tid, uintptr(a))) }
	unsupported := func(what string) { p.unsup = what }
	switch nr {
	case syscall.SYS_OPEN, syscall.SYS_OPENAT, syscall.SYS_CREAT:
		pa, fl := regs.Rsi, int(regs.Rdx)
		if nr == syscall.SYS_OPEN {
			pa, fl = regs.Rdi, int(regs.Rsi)
		} else if nr == syscall.SYS_CREAT {
			pa, fl = regs.Rdi, syscall.O_CREAT|syscall.O_WRONLY|syscall.O_TRUNC
		}
		rel, ok := pathArg(pa)
		if !ok || fl&syscall.O_DIRECTORY != 0 {
			return false, st
		}
		t.pendOpen[tid] = rel
		wr := fl&(syscall.O_WRONLY|syscall.O_RDWR) != 0
		t.pendWr[tid] = wr
		switch {
		case !wr && fl&syscall.O_CREAT == 0:
			return true, c14NatStep{kind: mOpenRead, name: rel}
		case fl&syscall.O_EXCL != 0:
			return true, c14NatStep{kind: mCreateNew, name: rel}
		case fl&syscall.O_TRUNC != 0:
			return true, c14NatStep{kind: mCreateTrunc, name: rel}
		default:
			return true, c14NatStep{kind: mOpenKeep, name: rel}
		}
	case syscall.SYS_WRITE:
		fd := int(regs.Rdi)
		name, ok := p.fdName[fd]
		if !ok {
			return false, st
		}
		if !p.halved[fd] {
			if regs.Rdx < 2 {
				unsupported("a write of fewer than two bytes")
				return false, st
			}
			regs.Rdx /= 2
			if err := syscall.PtraceSetRegs(tid, regs); err != nil {
				unsupported("PtraceSetRegs: " + err.Error())
			}
			p.halved[fd] = true
			return true, c14NatStep{kind: mWriteHalf, name: name}
		}
		p.halved[fd] = false
		return true, c14NatStep{kind: mWriteRest, name: name}
	case syscall.SYS_READ, syscall.SYS_PREAD64:
		fd := int(regs.Rdi)
		name, ok := p.fdName[fd]
		if !ok {
			return false, st
		}
		if p.lastRead == fd {
			return false, st
		}
		return true, c14NatStep{kind: mRead, name: name}
	case syscall.SYS_CLOSE:
		fd := int(regs.Rdi)
		name, ok := p.fdName[fd]
		if !ok {
			return false, st
		}
		t.pendCls[tid] = fd
		if !p.fdWr[fd] {
			return false, st // closing a file opened for reading is not a step of the model
		}
		return true, c14NatStep{kind: mClose, name: name}
	case syscall.SYS_RENAME, syscall.SYS_RENAMEAT, 316 /* renameat2 */:
		oa, na := regs.Rdi, regs.Rsi
		if nr != syscall.SYS_RENAME {
			oa, na = regs.Rsi, regs.R10
		}
		o, ok1 := pathArg(oa)
		n, ok2 := pathArg(na)
		if !ok1 && !ok2 {
			return false, st
		}
		if !ok1 || !ok2 {
			unsupported("rename across the cache root")
			return false, st
		}
		return true, c14NatStep{kind: mRename, name: o, to: n}
	case syscall.SYS_UNLINK, syscall.SYS_UNLINKAT:
		pa := regs.Rdi
		if nr == syscall.SYS_UNLINKAT {
			pa = regs.Rsi
			if regs.Rdx&atRemoveDir != 0 {
				return false, st
			}
		}
		rel, ok := pathArg(pa)
		if !ok {
			return false, st
		}
		return true, c14NatStep{kind: mRemove, name: rel}
	case syscall.SYS_STAT, syscall.SYS_LSTAT, syscall.SYS_NEWFSTATAT, 332 /* statx */ :
		pa := regs.Rdi
		if nr == syscall.SYS_NEWFSTATAT || nr == 332 {
			pa = regs.Rsi
		}
		rel, ok := pathArg(pa)
		if !ok || p.writer {
			return false, st
		}
		return true, c14NatStep{kind: mStat, name: rel}
	case syscall.SYS_PWRITE64, syscall.SYS_WRITEV, syscall.SYS_PWRITEV, syscall.SYS_FTRUNCATE, syscall.SYS_SENDFILE, 326 /* copy_file_range */, syscall.SYS_SPLICE, syscall.SYS_READV, syscall.SYS_PREADV, syscall.SYS_FALLOCATE:
		if _, ok := p.fdName[int(regs.Rdi)]; ok {
			unsupported(fmt.Sprintf("system call %d on a cache file", nr))
		}
		if nr == syscall.SYS_SENDFILE || nr == 326 || nr == syscall.SYS_SPLICE {
			if _, ok := p.fdName[int(regs.Rsi)]; ok {
				unsupported(fmt.Sprintf("system call %d on a cache file", nr))
			}
			if _, ok := p.fdName[int(regs.Rdx)]; ok {
				unsupported(fmt.Sprintf("system call %d on a cache file", nr))
			}
		}
	case syscall.SYS_TRUNCATE, syscall.SYS_LINK, syscall.SYS_SYMLINK:
		if _, ok := pathArg(regs.Rdi); ok {
			unsupported(fmt.Sprintf("system call %d on a cache path", nr))
		}
		if _, ok := pathArg(regs.Rsi); ok && nr != syscall.SYS_TRUNCATE {
			unsupported(fmt.Sprintf("system call %d on a cache path", nr))
		}
	case syscall.SYS_LINKAT, syscall.SYS_SYMLINKAT:
		for _, a := range []uint64{regs.Rdi, regs.Rsi, regs.Rdx, regs.R10} {
			if a > 4096 {
				if _, ok := pathArg(a); ok {
					unsupported(fmt.Sprintf("system call %d on a cache path", nr))
				}
			}
		}
	}
	return false, st
}

func (t *c14Tracer) atExit(p *c14Proc, tid int, regs *syscall.PtraceRegs) {
	ret := int64(regs.Rax)
	if rel, ok := t.pendOpen[tid]; ok {
		if ret >= 0 {
			p.fdName[int(ret)] = rel
			p.fdWr[int(ret)] = t.pendWr[tid]
		}
		delete(t.pendOpen, tid)
		delete(t.pendWr, tid)
	}
	if fd, ok := t.pendCls[tid]; ok {
		delete(p.fdName, fd)
		delete(p.fdWr, fd)
		delete(p.halved, fd)
		if p.lastRead == fd {
			p.lastRead = -1
		}
		delete(t.pendCls, tid)
	}
}

// run lets p go on - executing the step it is held at, if any - until it is held at the entry of its next
// step or has exited. Other helpers stay where they are (their service threads are let through).
func (t *c14Tracer) run(p *c14Proc) {
	if p.exited {
		return
	}
	if p.held {
		p.held = false
		st := p.heldStep
		p.steps = append(p.steps, st)
		if st.kind == mRead {
			for fd, n := range p.fdName {
				if n == st.name && !p.fdWr[fd] {
					p.lastRead = fd
				}
			}
		} else {
			p.lastRead = -1
		}
		if err := syscall.PtraceSyscall(p.heldTid, 0); err != nil {
			t.err = err
			return
		}
	}
	for {
		var ws syscall.WaitStatus
		tid, err := syscall.Wait4(-1, &ws, syscall.WALL, nil)
		if err != nil {
			t.err = err
			return
		}
		q := t.procOf(tid)
		if ws.Exited() || ws.Signaled() {
			delete(t.inSys, tid)
			if q != nil && tid == q.pid {
				q.exited = true
				if q == p {
					return
				}
			}
			continue
		}
		if !ws.Stopped() {
			continue
		}
		if q == nil {
			syscall.PtraceSyscall(tid, 0)
			continue
		}
		sig := ws.StopSignal()
		switch {
		case sig == syscall.SIGTRAP|0x80:
			var regs syscall.PtraceRegs
			if err := syscall.PtraceGetRegs(tid, &regs); err != nil {
				syscall.PtraceSyscall(tid, 0)
				continue
			}
			if !t.inSys[tid] {
				t.inSys[tid] = true
				step, st := t.classify(q, tid, &regs)
				if step {
					q.held, q.heldTid, q.heldStep = true, tid, st
					if q == p {
						return
					}
					continue // another helper reached its next step: it waits there for its turn
				}
			} else {
				t.inSys[tid] = false
				t.atExit(q, tid, &regs)
			}
			syscall.PtraceSyscall(tid, 0)
		case sig == syscall.SIGTRAP && ws.TrapCause() > 0:
			syscall.PtraceSyscall(tid, 0) // clone event
		case sig == syscall.SIGTRAP, sig == syscall.SIGSTOP:
			syscall.PtraceSyscall(tid, 0) // exec stop, first stop of a new thread
		default:
			syscall.PtraceSyscall(tid, int(sig)) // a signal of the helper's own (the runtime's SIGURG ...)
		}
	}
}

// finish kills what is still alive (a crashed writer, a reader that never got its turn) and reaps everything.
func (t *c14Tracer) finish() {
	for _, p := range t.procs {
		if !p.exited {
			syscall.Kill(p.pid, syscall.SIGKILL)
		}
	}
	for {
		var ws syscall.WaitStatus
		if _, err := syscall.Wait4(-1, &ws, syscall.WALL, nil); err != nil {
			break
		}
	}
}

// c14Watchdog kills every helper if the native run does not finish (a tracer stuck in wait4 would hang).
func (t *c14Tracer) watchdog(d time.Duration) chan struct{} {
	done := make(chan struct{})
	go func() {
		select {
		case <-done:
		case <-time.After(d):
			for pid := range t.procs {
				syscall.Kill(pid, syscall.SIGKILL)
			}
		}
	}()
	return done
}

func c14LockThread() { runtime.LockOSThread() }
