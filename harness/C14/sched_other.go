//go:build verif && !(linux && amd64)

package crl

import vr "github.com/notaryproject/notation-go/internal/zzvr"

// the native scheduler needs ptrace on linux/amd64
func c14Native() { vr.SkipNative() }

func c14HelperMain() {}
