//go:build verif

package crl

import (
	"testing"

	vr "github.com/notaryproject/notation-go/internal/zzvr"
)

func TestVsymReplay(t *testing.T) {
	if err := vr.ReplayMain(vsymHarnesses); err != nil {
		t.Fatal(err)
	}
}

// TestVsymC14Helper is what the native scheduler of C14 runs as a traced child process: one call of the real
// FileCache.Set or FileCache.Get, as the environment says.
func TestVsymC14Helper(t *testing.T) { c14HelperMain() }
