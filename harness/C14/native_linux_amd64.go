//go:build verif && linux && amd64

package crl

import (
	"context"
	"crypto/rand"
	"crypto/sha256"
	"crypto/x509"
	"encoding/hex"
	"encoding/json"
	"errors"
	"math/big"
	"os"
	"strconv"
	"strings"
	"time"

	corecrl "github.com/notaryproject/notation-core-go/revocation/crl"
	vr "github.com/notaryproject/notation-go/internal/zzvr"
	"github.com/notaryproject/notation-go/internal/zzvr/fskit"
)

// c14HelperMain is the body of a traced child: one real Set or Get.
func c14HelperMain() {
	role := os.Getenv("VSYM_C14_ROLE")
	if role == "" {
		return
	}
	out := os.Getenv("VSYM_C14_OUT")
	url := os.Getenv("VSYM_C14_URL")
	ctx := context.Background()
	res := ""
	cache, err := NewFileCache(os.Getenv("VSYM_C14_ROOT"))
	switch {
	case err != nil:
		res = "err:" + err.Error()
	case role == "set":
		der, _ := os.ReadFile(os.Getenv("VSYM_C14_CRL"))
		list, perr := x509.ParseRevocationList(der)
		if perr != nil {
			res = "err:" + perr.Error()
		} else if serr := cache.Set(ctx, url, &corecrl.Bundle{BaseCRL: list}); serr != nil {
			res = "err:" + serr.Error()
		} else {
			res = "ok"
		}
	case role == "get":
		b, gerr := cache.Get(ctx, url)
		switch {
		case errors.Is(gerr, corecrl.ErrCacheMiss):
			res = "miss"
		case gerr != nil:
			res = "err:" + gerr.Error()
		case b == nil || b.BaseCRL == nil:
			res = "err:nil bundle"
		default:
			h := sha256.Sum256(b.BaseCRL.Raw)
			res = "ok:" + hex.EncodeToString(h[:])
		}
	}
	os.WriteFile(out, []byte(res), 0o644)
	os.Exit(0)
}

// c14Mint: real CRLs of different encoded sizes (a read cut to another entry's size is then visibly short).
func c14Mint(w int) []byte {
	c15MintCRL(1, time.Now().Add(time.Hour)) // issuer and key
	tpl := &x509.RevocationList{Number: big.NewInt(int64(500 + w)), ThisUpdate: time.Unix(1700000000, 0), NextUpdate: time.Now().Add(240 * time.Hour)}
	for i := 0; i < 1+3*w; i++ {
		tpl.RevokedCertificateEntries = append(tpl.RevokedCertificateEntries, x509.RevocationListEntry{SerialNumber: big.NewInt(int64(1000 + i)), RevocationTime: time.Unix(1690000000, 0)})
	}
	der, err := x509.CreateRevocationList(rand.Reader, tpl, c15Issuer, c15Key)
	if err != nil {
		panic(err)
	}
	return der
}

func c14NatTranslate(steps []c14NatStep, names *c14Names) []c14Step {
	var out []c14Step
	for _, s := range steps {
		st := c14Step{kind: s.kind, name: names.idx(s.name)}
		if s.kind == mRename {
			st.to = names.idx(s.to)
		}
		out = append(out, st)
	}
	return out
}

func c14Native() {
	c14LockThread()
	W := vr.Param("writers", 2)
	R := vr.Param("readers", 1)
	urlNames := []string{"http://example.com/crl?issuer=a", "http://example.com/crl?issuer=A"}
	base := fskit.Root()
	defer fskit.Cleanup()
	skip := func(why string) {
		vr.Note("native scheduler: " + why)
		vr.SkipNative()
	}
	urlOfW := make([]int, W)
	urlOfR := make([]int, R)
	for w := 0; w < W; w++ {
		if W+R > 2 && w == W-1 && vr.Param("urls", 1) > 1 {
			urlOfW[w] = 1
		}
	}
	for r := 0; r < R; r++ {
		if r == 1 && vr.Param("urls", 1) > 1 {
			urlOfR[r] = 1
		}
	}
	ders := make([][]byte, W)
	hashes := make([]string, W)
	crlFiles := make([]string, W)
	os.MkdirAll(base+"/in", 0o755)
	os.MkdirAll(base+"/out", 0o755)
	for w := 0; w < W; w++ {
		ders[w] = c14Mint(w)
		h := sha256.Sum256(ders[w])
		hashes[w] = hex.EncodeToString(h[:])
		crlFiles[w] = base + "/in/crl" + strconv.Itoa(w)
		os.WriteFile(crlFiles[w], ders[w], 0o644)
	}
	env := func(role, root string, u int, crl, out string) []string {
		return []string{"VSYM_C14_ROLE=" + role, "VSYM_C14_ROOT=" + root, "VSYM_C14_URL=" + urlNames[u], "VSYM_C14_CRL=" + crl, "VSYM_C14_OUT=" + out, "VSYM_REPLAY_LIST="}
	}
	solo := func(tag, role string, u int, crl string, prepare bool) ([]c14NatStep, bool) {
		root := base + "/solo-" + tag + "/cache"
		if prepare {
			cache, err := NewFileCache(root)
			if err != nil {
				return nil, false
			}
			list, _ := x509.ParseRevocationList(ders[0])
			if cache.Set(context.Background(), urlNames[u], &corecrl.Bundle{BaseCRL: list}) != nil {
				return nil, false
			}
		}
		tr := c14NewTracer(root)
		done := tr.watchdog(60 * time.Second)
		defer close(done)
		p, err := tr.start(env(role, root, u, crl, base+"/out/solo-"+tag), role == "set")
		if err != nil {
			tr.finish()
			return nil, false
		}
		for !p.exited && tr.err == nil {
			tr.run(p)
		}
		tr.finish()
		if tr.err != nil || p.unsup != "" {
			if p.unsup != "" {
				vr.Note("native scheduler: " + p.unsup)
			}
			return nil, false
		}
		return p.steps, true
	}

	// ---- stage 1 natively: the programs the real processes perform on a real kernel ------------------------
	names := &c14Names{}
	keyOf := []int{-1, -1}
	keyName := []string{"", ""}
	var writers, readers []c14Prog
	fc := &FileCache{}
	for w := 0; w < W; w++ {
		steps, ok := solo("w"+strconv.Itoa(w), "set", urlOfW[w], crlFiles[w], false)
		if !ok {
			skip("the writer could not be traced")
		}
		u := urlOfW[w]
		keyName[u] = "/" + fc.fileName(urlNames[u])
		keyOf[u] = names.idx(keyName[u])
		writers = append(writers, c14Prog{steps: c14NatTranslate(steps, names), url: u})
	}
	for r := 0; r < R; r++ {
		steps, ok := solo("r"+strconv.Itoa(r), "get", urlOfR[r], "", true)
		if !ok {
			skip("the reader could not be traced")
		}
		readers = append(readers, c14Prog{steps: c14NatTranslate(steps, names), url: urlOfR[r]})
	}
	for w, p := range writers {
		line := "writer" + string(rune('0'+w)) + ":"
		for _, st := range p.steps {
			line += " " + kindNames[st.kind] + "(" + string(rune('0'+st.name)) + ")"
		}
		vr.Note(line)
	}
	for r, p := range readers {
		line := "reader" + string(rune('0'+r)) + ":"
		for _, st := range p.steps {
			line += " " + kindNames[st.kind] + "(" + string(rune('0'+st.name)) + ")"
		}
		vr.Note(line)
	}
	vr.Reach("programs extracted")

	// ---- the solver's schedule and crash points ----------------------------------------------------------------
	nThreads := W + R
	total := 0
	for _, p := range writers {
		total += len(p.steps)
	}
	for _, p := range readers {
		total += len(p.steps)
	}
	crash := make([]int, W)
	for w := 0; w < W; w++ {
		crash[w] = vr.Int("crashAfter", 0, len(writers[w].steps))
	}
	sched := make([]int, total)
	for t := 0; t < total; t++ {
		sched[t] = vr.Int("sched", 0, nThreads-1)
	}

	// ---- stage 2 natively: real processes, released one system call at a time ----------------------------------
	root := base + "/run/cache"
	tr := c14NewTracer(root)
	done := tr.watchdog(120 * time.Second)
	defer close(done)
	procs := make([]*c14Proc, nThreads)
	outs := make([]string, nThreads)
	for th := 0; th < nThreads; th++ {
		outs[th] = base + "/out/t" + strconv.Itoa(th)
		var p *c14Proc
		var err error
		if th < W {
			p, err = tr.start(env("set", root, urlOfW[th], crlFiles[th], outs[th]), true)
		} else {
			p, err = tr.start(env("get", root, urlOfR[th-W], "", outs[th]), false)
		}
		if err != nil {
			tr.finish()
			skip("a helper could not be started: " + err.Error())
		}
		procs[th] = p
	}
	pcs := make([]int, nThreads)
	halfWritten := map[string]bool{} // name -> the last write step executed on it was the first half of a buffer
	doneAt := make([]int, W)
	renAt := make([]int, W)
	openAt := make([]int, R)
	for t := 1; t <= total; t++ {
		th := sched[t-1]
		p := procs[th]
		if p.exited || !p.held {
			continue
		}
		if th < W && pcs[th] >= crash[th] {
			continue // the writer has crashed: it never moves again
		}
		st := p.heldStep
		tr.run(p)
		if tr.err != nil {
			tr.finish()
			skip("tracing failed: " + tr.err.Error())
		}
		pcs[th]++
		switch st.kind {
		case mWriteHalf:
			halfWritten[st.name] = true
		case mWriteRest, mCreateNew, mCreateTrunc:
			halfWritten[st.name] = false
		case mRename:
			if _, err := os.Lstat(root + st.name); err != nil { // the rename took place
				halfWritten[st.to] = halfWritten[st.name]
				delete(halfWritten, st.name)
			}
		case mRemove:
			delete(halfWritten, st.name)
		}
		if th < W {
			if st.kind == mRename && (st.to == keyName[0] || st.to == keyName[1]) {
				renAt[th] = t
			}
			if pcs[th] == len(writers[th].steps) {
				doneAt[th] = t
			}
		} else if pcs[th] == 1 {
			openAt[th-W] = t // the instant the read starts
		}
	}
	tr.finish()
	for _, p := range procs {
		if p.unsup != "" {
			skip(p.unsup)
		}
	}

	// ---- the property, judged on what the real processes returned and left behind ------------------------------
	res := make([]string, R)
	resOwner := make([]int, R) // -2 not read, -1 miss, -3 unusable, else the writer whose bundle was returned
	for r := 0; r < R; r++ {
		b, _ := os.ReadFile(outs[W+r])
		res[r] = string(b)
		resOwner[r] = -2
		switch {
		case res[r] == "miss":
			resOwner[r] = -1
		case strings.HasPrefix(res[r], "ok:"):
			resOwner[r] = -3
			for w := 0; w < W; w++ {
				if res[r][3:] == hashes[w] {
					resOwner[r] = w
				}
			}
		case strings.HasPrefix(res[r], "err:"):
			resOwner[r] = -3
		}
	}
	for r := 0; r < R; r++ {
		u := urlOfR[r]
		read := resOwner[r] >= 0
		vr.Assert(resOwner[r] != -3, c14LRead)
		vr.Assert(!read || urlOfW[resOwner[r]] == u, c14LURL)
		for w := 0; w < W; w++ {
			if urlOfW[w] != u {
				continue
			}
			after := doneAt[w] != 0 && openAt[r] != 0 && doneAt[w] < openAt[r]
			vr.Assert(!after || resOwner[r] != -1, c14LMiss)
			rRen := 0
			if read {
				rRen = renAt[resOwner[r]]
			}
			vr.Assert(!(after && read && renAt[w] != 0) || rRen >= renAt[w], c14LOlder)
		}
	}
	for u, k := range keyOf {
		if k < 0 {
			continue
		}
		b, err := os.ReadFile(root + keyName[u])
		if err != nil {
			continue
		}
		var c fileCacheContent
		complete := json.Unmarshal(b, &c) == nil
		if complete {
			complete = false
			for w := 0; w < W; w++ {
				if string(c.BaseCRL) == string(ders[w]) {
					complete = true
				}
			}
		}
		vr.Assert(complete, c14LKey)
	}
	vr.Reach("all schedules decided")
	c14NativeWitnesses(W, writers, readers, resOwner, doneAt, crash, root, keyName, halfWritten)
	// a counterexample of the composed model that the real processes do not reproduce (the model abstracts
	// from content sizes; stage-1 assertions are not re-evaluated here) stands on the solver's verdict
	if vr.Kind() == "assert" || vr.Kind() == "panic" {
		for _, f := range vr.Out.Failed {
			if f == vr.Label() {
				return
			}
		}
		vr.SkipNative()
	}
}

func c14NativeWitnesses(W int, writers, readers []c14Prog, resOwner, doneAt, crash []int, root string, keyName []string, halfWritten map[string]bool) {
	lw := 0
	for w := range writers {
		if writers[w].url == readers[0].url {
			lw = w
		}
	}
	if vr.Fork(lw > 0 && resOwner[0] == lw && doneAt[0] == 0 && crash[0] == len(writers[0].steps)) {
		vr.Reach(c14LW1)
		return
	}
	partialTemp := false
	for name, half := range halfWritten {
		if name == keyName[0] || name == keyName[1] || !half {
			continue
		}
		if fi, err := os.Stat(root + name); err == nil && fi.Size() > 0 {
			partialTemp = true
		}
	}
	if vr.Fork(partialTemp) {
		vr.Reach(c14LW2)
		return
	}
	if vr.Fork(resOwner[0] == -1) {
		vr.Reach(c14LW3)
	}
}
