//go:build verif

package notation

// registry of natively replayable harnesses of package notation (one replay test serves all properties)
var vsymHarnesses = map[string]func(){}
