//go:build verif

package verifier

// Harness kit for package verifier: the environment contract (DESIGN.md section 4) as plain Go.
// The same code runs under the symbolic engine and natively (replays).

import (
	"context"
	"crypto/sha256"
	"crypto/x509"
	"errors"
	"hash"
	"time"

	"github.com/notaryproject/notation-core-go/revocation"
	revocationresult "github.com/notaryproject/notation-core-go/revocation/result"
	"github.com/notaryproject/notation-core-go/signature"
	vr "github.com/notaryproject/notation-go/internal/zzvr"
	"github.com/notaryproject/notation-go/plugin"
	"github.com/notaryproject/notation-go/verifier/trustpolicy"
	"github.com/notaryproject/notation-go/verifier/truststore"
	pluginframework "github.com/notaryproject/notation-plugin-framework-go/plugin"
)

//vsym:stub github.com/notaryproject/notation-core-go/signature.ParseEnvelope = kitParseEnvelope
//vsym:stub github.com/notaryproject/notation-core-go/revocation.NewWithOptions = kitNewDefaultValidator

//vsym:stub crypto/sha256.New = kitNewSHA256

// kitSHA256: the streaming form of sha256.Sum256 (code that fingerprints through a hash.Hash): what was written
// is digested when the sum is asked for.
type kitSHA256 struct{ buf []byte }

func (h *kitSHA256) Write(p []byte) (int, error) { h.buf = append(h.buf, p...); return len(p), nil }
func (h *kitSHA256) Sum(b []byte) []byte {
	d := sha256.Sum256(h.buf)
	return append(b, d[:]...)
}
func (h *kitSHA256) Reset()         { h.buf = nil }
func (h *kitSHA256) Size() int      { return 32 }
func (h *kitSHA256) BlockSize() int { return 64 }

func kitNewSHA256() hash.Hash { return &kitSHA256{} }

const (
	kitJWS  = "application/jose+json"
	kitCOSE = "application/cose"
)

// ---- envelope stub (contract 4.1) ------------------------------------------

type kitEnvState struct {
	parseErr    int // 0 ok, 1 invalid signature error
	verifyErr   int // 0 ok, 1 *SignatureEnvelopeNotFoundError, 2 *InvalidSignatureError, 3 *SignatureIntegrityError, 4 other error
	content     *signature.EnvelopeContent
	parsedBytes []byte
	parsedMedia string
	parseCalls  int
	verifyCalls int
	returned    *signature.EnvelopeContent
}

var kitEnv kitEnvState

type kitEnvelope struct{}

func (kitEnvelope) Sign(req *signature.SignRequest) ([]byte, error) {
	return nil, errors.New("not a signing envelope")
}

func (kitEnvelope) Verify() (*signature.EnvelopeContent, error) {
	kitEnv.verifyCalls++
	switch kitEnv.verifyErr {
	case 1:
		return nil, &signature.SignatureEnvelopeNotFoundError{}
	case 2:
		return nil, &signature.InvalidSignatureError{Msg: "bad"}
	case 3:
		return nil, &signature.SignatureIntegrityError{Err: errors.New("tampered")}
	case 4:
		return nil, errors.New("unexpected")
	}
	kitEnv.returned = kitEnv.content
	return kitEnv.content, nil
}

func (kitEnvelope) Content() (*signature.EnvelopeContent, error) { return kitEnv.content, nil }

func kitParse(b []byte) (signature.Envelope, error) {
	kitEnv.parseCalls++
	kitEnv.parsedBytes = b
	if kitEnv.parseErr == 1 {
		return nil, &signature.InvalidSignatureError{Msg: "cannot parse"}
	}
	return kitEnvelope{}, nil
}

// kitParseEnvelope replaces signature.ParseEnvelope under the engine (natively the registry is used).
func kitParseEnvelope(mediaType string, b []byte) (signature.Envelope, error) {
	if mediaType != kitJWS && mediaType != kitCOSE {
		return nil, &signature.UnsupportedSignatureFormatError{MediaType: mediaType}
	}
	kitEnv.parsedMedia = mediaType
	return kitParse(b)
}

// kitInstallEnvelope registers the stub for the two media types in native runs.
func kitInstallEnvelope() {
	if vr.Symbolic() {
		return
	}
	for _, mt := range []string{kitJWS, kitCOSE} {
		mt := mt
		signature.RegisterEnvelopeType(mt, func() signature.Envelope { return kitEnvelope{} }, func(b []byte) (signature.Envelope, error) {
			kitEnv.parsedMedia = mt
			return kitParse(b)
		})
	}
}

// ---- certificates -------------------------------------------------------------

func kitCert(raw []byte, cn string) *x509.Certificate {
	c := &x509.Certificate{Raw: raw}
	c.Subject.CommonName = cn
	return c
}

// ---- trust store stub -----------------------------------------------------------

type kitStoreAnswer struct {
	certs []*x509.Certificate
	err   bool
}

type kitStore struct {
	answers map[string]kitStoreAnswer // "type:name" -> answer
	calls   []string
}

func (s *kitStore) GetCertificates(ctx context.Context, storeType truststore.Type, namedStore string) ([]*x509.Certificate, error) {
	key := string(storeType) + ":" + namedStore
	s.calls = append(s.calls, key)
	a := s.answers[key]
	if a.err {
		return nil, truststore.TrustStoreError{Msg: "cannot load " + key}
	}
	return a.certs, nil
}

// ---- revocation validator stub ----------------------------------------------------

type kitValidator struct {
	results []*revocationresult.CertRevocationResult
	err     bool
	calls   int
	chain   []*x509.Certificate
	time    time.Time
}

func (v *kitValidator) ValidateContext(ctx context.Context, opts revocation.ValidateContextOptions) ([]*revocationresult.CertRevocationResult, error) {
	v.calls++
	v.chain = opts.CertChain
	v.time = opts.AuthenticSigningTime
	if v.err {
		return nil, errors.New("validator error")
	}
	return v.results, nil
}

// kitDefaultValidators: the validators the verifier builds for itself when the caller supplies none
// (core-go's OCSP / CRL client under the engine: answers "OK" and counts its consultations)
var kitDefaultValidators []*kitValidator

func kitNewDefaultValidator(opts revocation.Options) (revocation.Validator, error) {
	v := &kitValidator{}
	kitDefaultValidators = append(kitDefaultValidators, v)
	return kitDefault{v}, nil
}

type kitDefault struct{ v *kitValidator }

func (d kitDefault) ValidateContext(ctx context.Context, opts revocation.ValidateContextOptions) ([]*revocationresult.CertRevocationResult, error) {
	d.v.calls++
	return kitOKResults(len(opts.CertChain)), nil
}

// kitClient is the deprecated revocation.Revocation interface
type kitClient struct{ kitValidator }

func (c *kitClient) Validate(certChain []*x509.Certificate, signingTime time.Time) ([]*revocationresult.CertRevocationResult, error) {
	c.calls++
	c.chain = certChain
	c.time = signingTime
	if c.err {
		return nil, errors.New("validator error")
	}
	return c.results, nil
}

func kitOKResults(n int) []*revocationresult.CertRevocationResult {
	var r []*revocationresult.CertRevocationResult
	for i := 0; i < n; i++ {
		r = append(r, &revocationresult.CertRevocationResult{Result: revocationresult.ResultOK})
	}
	return r
}

// ---- plugin manager / plugin stubs ---------------------------------------------------

type kitPlugin struct {
	metaErr    bool
	meta       pluginframework.GetMetadataResponse
	verifyErr  bool
	response   *pluginframework.VerifySignatureResponse
	metaCalls  int
	verifyReqs []*pluginframework.VerifySignatureRequest
}

func (p *kitPlugin) GetMetadata(ctx context.Context, req *pluginframework.GetMetadataRequest) (*pluginframework.GetMetadataResponse, error) {
	p.metaCalls++
	if p.metaErr {
		return nil, errors.New("metadata error")
	}
	m := p.meta
	return &m, nil
}

func (p *kitPlugin) DescribeKey(ctx context.Context, req *pluginframework.DescribeKeyRequest) (*pluginframework.DescribeKeyResponse, error) {
	return nil, errors.New("not a signing plugin")
}

func (p *kitPlugin) GenerateSignature(ctx context.Context, req *pluginframework.GenerateSignatureRequest) (*pluginframework.GenerateSignatureResponse, error) {
	return nil, errors.New("not a signing plugin")
}

func (p *kitPlugin) GenerateEnvelope(ctx context.Context, req *pluginframework.GenerateEnvelopeRequest) (*pluginframework.GenerateEnvelopeResponse, error) {
	return nil, errors.New("not a signing plugin")
}

func (p *kitPlugin) VerifySignature(ctx context.Context, req *pluginframework.VerifySignatureRequest) (*pluginframework.VerifySignatureResponse, error) {
	p.verifyReqs = append(p.verifyReqs, req)
	if p.verifyErr {
		return nil, errors.New("plugin failed")
	}
	return p.response, nil
}

type kitManager struct {
	plugins map[string]*kitPlugin
	calls   []string
}

func (m *kitManager) Get(ctx context.Context, name string) (plugin.Plugin, error) {
	m.calls = append(m.calls, name)
	if p, ok := m.plugins[name]; ok {
		return p, nil
	}
	return nil, errors.New("plugin not found")
}

func (m *kitManager) List(ctx context.Context) ([]string, error) { return nil, nil }

// ---- policy documents ------------------------------------------------------------------

func kitOCIDoc(level string, override map[trustpolicy.ValidationType]trustpolicy.ValidationAction, stores, ids []string) *trustpolicy.OCIDocument {
	return &trustpolicy.OCIDocument{Version: "1.0", TrustPolicies: []trustpolicy.OCITrustPolicy{{
		Name: "p", RegistryScopes: []string{"*"},
		SignatureVerification: trustpolicy.SignatureVerification{VerificationLevel: level, Override: override},
		TrustStores:           stores, TrustedIdentities: ids,
	}}}
}

func kitBlobDoc(level string, override map[trustpolicy.ValidationType]trustpolicy.ValidationAction, stores, ids []string, global bool) *trustpolicy.BlobDocument {
	return &trustpolicy.BlobDocument{Version: "1.0", TrustPolicies: []trustpolicy.BlobTrustPolicy{{
		Name: "p", GlobalPolicy: global,
		SignatureVerification: trustpolicy.SignatureVerification{VerificationLevel: level, Override: override},
		TrustStores:           stores, TrustedIdentities: ids,
	}}}
}

const kitRef = "reg.io/repo@sha256:aaaaaaaaaaaaaaaaaaaaaaaaaaaaaaaaaaaaaaaaaaaaaaaaaaaaaaaaaaaaaaaa"

// kitLevels: every reachable enforcement map = base level x legal overrides (<= n override entries)
func kitLevel(tag string, maxOverrides int) (string, map[trustpolicy.ValidationType]trustpolicy.ValidationAction) {
	level := []string{"strict", "permissive", "audit"}[vr.Choice(tag+".level", 3)]
	n := vr.Choice(tag+".noverrides", maxOverrides+1)
	var ov map[trustpolicy.ValidationType]trustpolicy.ValidationAction
	types := []trustpolicy.ValidationType{trustpolicy.TypeAuthenticity, trustpolicy.TypeAuthenticTimestamp, trustpolicy.TypeExpiry, trustpolicy.TypeRevocation}
	first := 0
	for i := 0; i < n; i++ {
		if ov == nil {
			ov = map[trustpolicy.ValidationType]trustpolicy.ValidationAction{}
		}
		// strictly increasing type index: no duplicate keys, each set of overrides once
		ti := first + vr.Choice(tag+".otype", len(types)-first)
		first = ti + 1
		acts := []trustpolicy.ValidationAction{trustpolicy.ActionEnforce, trustpolicy.ActionLog}
		if types[ti] == trustpolicy.TypeRevocation {
			acts = append(acts, trustpolicy.ActionSkip)
		}
		ov[types[ti]] = acts[vr.Choice(tag+".oaction", len(acts))]
		if first >= len(types) {
			break
		}
	}
	return level, ov
}

type truststoreType = truststore.Type

var errStoreUnloadable = truststore.TrustStoreError{Msg: "store cannot be loaded"}

//vsym:stub time.Now = kitNow

// kitNow: the verification instant under the engine: the next instant of kitNowSecs, else a fixed one
// (natively the real clock is used; harnesses place their instants on the same side of it).
var kitNowSecs []int64
var kitNowCalls int

// kitNowFixed, when set, is the clock's reading for every call (a harness moves it between phases)
var kitNowFixed int64

func kitNow() time.Time {
	if kitNowFixed != 0 {
		return time.Unix(kitNowFixed, 0)
	}
	i := kitNowCalls
	kitNowCalls++
	if i < len(kitNowSecs) {
		return time.Unix(kitNowSecs[i], 0)
	}
	return time.Unix(1900000000, 0)
}
