//go:build verif

package truststore

// registry of natively replayable harnesses of package truststore
var vsymHarnesses = map[string]func(){}
