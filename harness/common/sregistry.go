//go:build verif

package signer

// registry of natively replayable harnesses of package signer
var vsymHarnesses = map[string]func(){}
