//go:build verif

package verifier

// registry of natively replayable harnesses of package verifier (one replay test serves all properties)
var vsymHarnesses = map[string]func(){}
