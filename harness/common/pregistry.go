//go:build verif

package plugin

// registry of natively replayable harnesses of package plugin (one replay test serves all properties)
var vsymHarnesses = map[string]func(){}
