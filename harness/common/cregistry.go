//go:build verif

package crl

// registry of natively replayable harnesses of package crl
var vsymHarnesses = map[string]func(){}
