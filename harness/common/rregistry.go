//go:build verif

package registry

// registry of natively replayable harnesses of package registry
var vsymHarnesses = map[string]func(){}
