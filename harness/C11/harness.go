//go:build verif

package notation

// C11: SignOCI signs exactly what was resolved (+ user metadata), pushes to the resolved artifact with the
// thumbprint / created annotations, refuses what it must, and changes nothing else - over k consecutive calls.

import (
	"context"
	"crypto/sha256"
	"crypto/x509"
	"encoding/hex"
	"errors"
	"time"

	"github.com/notaryproject/notation-core-go/signature"
	vr "github.com/notaryproject/notation-go/internal/zzvr"
	"github.com/opencontainers/go-digest"
	ocispec "github.com/opencontainers/image-spec/specs-go/v1"
)

const (
	c11MT      = "application/vnd.oci.image.manifest.v1+json"
	c11DigestA = "sha256:aaaaaaaaaaaaaaaaaaaaaaaaaaaaaaaaaaaaaaaaaaaaaaaaaaaaaaaaaaaaaaaa"
	c11DigestB = "sha256:bbbbbbbbbbbbbbbbbbbbbbbbbbbbbbbbbbbbbbbbbbbbbbbbbbbbbbbbbbbbbbbb"
	c11JWS     = "application/jose+json"
	c11Alpha   = "io.cnftaryIx"
)

type c11Push struct {
	mediaType string
	blob      []byte
	subject   ocispec.Descriptor
	subjAnn   map[string]string // content of the subject's annotations at the time of the push
	ann       map[string]string
}

// c11Repo: Resolve returns the stored descriptor value each time - a struct copy that shares the
// annotations map, as oras' resolvers do for a tag.
type c11Repo struct {
	stored     ocispec.Descriptor
	resolveErr bool
	pushErr    bool
	resolveLog []string
	pushes     []c11Push
}

func c11CopyMap(m map[string]string) map[string]string {
	if m == nil {
		return nil
	}
	c := make(map[string]string, len(m))
	for k, v := range m {
		c[k] = v
	}
	return c
}

func (r *c11Repo) Resolve(ctx context.Context, reference string) (ocispec.Descriptor, error) {
	r.resolveLog = append(r.resolveLog, reference)
	if r.resolveErr {
		return ocispec.Descriptor{}, errors.New("not found")
	}
	return r.stored, nil
}

func (r *c11Repo) ListSignatures(ctx context.Context, desc ocispec.Descriptor, fn func(signatureManifests []ocispec.Descriptor) error) error {
	panic("ListSignatures must not be called by SignOCI")
}

func (r *c11Repo) FetchSignatureBlob(ctx context.Context, desc ocispec.Descriptor) ([]byte, ocispec.Descriptor, error) {
	panic("FetchSignatureBlob must not be called by SignOCI")
}

func (r *c11Repo) PushSignature(ctx context.Context, mediaType string, blob []byte, subject ocispec.Descriptor, annotations map[string]string) (blobDesc, manifestDesc ocispec.Descriptor, err error) {
	r.pushes = append(r.pushes, c11Push{mediaType: mediaType, blob: blob, subject: subject, subjAnn: c11CopyMap(subject.Annotations), ann: c11CopyMap(annotations)})
	if r.pushErr {
		return ocispec.Descriptor{}, ocispec.Descriptor{}, errors.New("push failed")
	}
	return ocispec.Descriptor{MediaType: mediaType, Size: int64(len(blob))},
		ocispec.Descriptor{MediaType: c11MT, Digest: digest.Digest(c11DigestB), Size: int64(100 + len(r.pushes))}, nil
}

type c11SignCall struct {
	desc ocispec.Descriptor
	ann  map[string]string
	opts SignerSignOptions
}

type c11Signer struct {
	fail  bool
	sig   []byte
	info  *signature.SignerInfo
	calls []c11SignCall
}

func (s *c11Signer) Sign(ctx context.Context, desc ocispec.Descriptor, opts SignerSignOptions) ([]byte, *signature.SignerInfo, error) {
	s.calls = append(s.calls, c11SignCall{desc: desc, ann: c11CopyMap(desc.Annotations), opts: opts})
	if s.fail {
		return nil, nil, errors.New("signing failed")
	}
	return s.sig, s.info, nil
}

// c11PluginSigner additionally reports manifest annotations, as signer.PluginSigner does.
type c11PluginSigner struct {
	c11Signer
	ann map[string]string
}

func (s *c11PluginSigner) PluginAnnotations() map[string]string { return c11CopyMap(s.ann) }

func c11SameMap(m map[string]string, keys, vals []string) bool {
	if len(m) != len(keys) {
		return false
	}
	for i, k := range keys {
		v, ok := m[k]
		if !ok || v != vals[i] {
			return false
		}
	}
	return true
}

func c11Thumbprints(chain []*x509.Certificate) vr.J {
	var elems []vr.J
	for _, c := range chain {
		h := sha256.Sum256(c.Raw)
		elems = append(elems, vr.JStr(hex.EncodeToString(h[:])))
	}
	return vr.JArr(elems...)
}

// VsymC11 explores k consecutive SignOCI calls with the same options against one repository.
func VsymC11() {
	K := vr.Param("calls", 2)
	maxAnn := vr.Param("annotations", 1)
	maxMeta := vr.Param("metadata", 1)
	repo := &c11Repo{}
	repo.stored = ocispec.Descriptor{MediaType: c11MT, Digest: digest.Digest(c11DigestA), Size: vr.Int64("resolved.size"),
		URLs: []string{"https://example.com/a"}, ArtifactType: "application/vnd.example"}
	// the artifact's own annotations
	var annK, annV []string
	nAnn := vr.Choice("resolved.annotations", maxAnn+2) - 1 // -1: nil map
	if nAnn >= 0 {
		repo.stored.Annotations = map[string]string{}
		for i := 0; i < nAnn; i++ {
			k := vr.StrIn("resolved.annKey", 3, c11Alpha)
			v := vr.StrIn("resolved.annVal", 1, "a-b")
			for _, p := range annK {
				vr.Assume(p != k)
			}
			annK, annV = append(annK, k), append(annV, v)
			repo.stored.Annotations[k] = v
		}
	}
	// the caller's metadata
	var metaK, metaV []string
	var userMeta map[string]string
	nMeta := vr.Choice("metadata", maxMeta+2) - 1
	if nMeta >= 0 {
		userMeta = map[string]string{}
		for i := 0; i < nMeta; i++ {
			k := vr.StrIn("meta.key", 15, c11Alpha)
			v := vr.StrIn("meta.val", 1, "a-b")
			for _, p := range metaK {
				vr.Assume(p != k)
			}
			metaK, metaV = append(metaK, k), append(metaV, v)
			userMeta[k] = v
		}
	}
	reserved, collides := false, false
	for _, k := range metaK {
		if vr.Fork(len(k) >= 14 && k[:14] == "io.cncf.notary") {
			reserved = true
		}
		for _, a := range annK {
			if vr.Fork(k == a) {
				collides = true
			}
		}
	}
	// reference
	refs := []string{"reg.io/repo:v1", "v1", "reg.io/repo@" + c11DigestA, c11DigestA, "reg.io/repo@" + c11DigestB, c11DigestB}
	wantResolve := []string{"v1", "v1", c11DigestA, c11DigestA, c11DigestB, c11DigestB}
	refKind := vr.Choice("reference", len(refs))
	// failures of the environment, drawn so that they only multiply the cases that get that far
	situation := 0
	if refKind < 4 && !reserved && !collides {
		situation = vr.Choice("situation", 6) // 0 all fine, 1 resolve error, 2 signer error, 3 no signing time, 4 push error, 5 invalid options
	} else {
		situation = vr.Choice("situation", 2)
	}
	repo.resolveErr = situation == 1
	repo.pushErr = situation == 4
	chain := []*x509.Certificate{{Raw: []byte("leaf certificate")}}
	if vr.Choice("chainLength", 2) == 1 {
		chain = append(chain, &x509.Certificate{Raw: []byte("root certificate")})
	}
	signingTime := time.Unix(1700000000+int64(vr.Choice("signingTime", 2))*86400*200, 0)
	info := &signature.SignerInfo{CertificateChain: chain}
	if situation != 3 {
		info.SignedAttributes.SigningTime = signingTime
	}
	base := c11Signer{fail: situation == 2, sig: []byte("signature envelope"), info: info}
	var signer Signer
	var sg *c11Signer
	var pluginAnn map[string]string
	if k := vr.Choice("signerKind", 4); k >= 1 {
		pluginAnn = map[string]string{"plugin.note": "n"}
		// a plugin that (also) uses the keys notation computes itself: the computed values must win
		if k == 2 {
			pluginAnn["io.cncf.notary.x509chain.thumbprint#S256"] = `["00"]`
		}
		if k == 3 {
			pluginAnn["org.opencontainers.image.created"] = "1999-01-01T00:00:00Z"
		}
		ps := &c11PluginSigner{c11Signer: base, ann: pluginAnn}
		sg, signer = &ps.c11Signer, ps
	} else {
		b := base
		sg, signer = &b, &b
	}
	opts := SignOptions{ArtifactReference: refs[refKind], UserMetadata: userMeta}
	opts.SignatureMediaType = c11JWS
	opts.PluginConfig = map[string]string{"cfg": "1"}
	opts.ExpiryDuration = 24 * time.Hour
	if situation == 5 {
		switch vr.Choice("badOption", 3) {
		case 0:
			opts.SignatureMediaType = "application/other"
		case 1:
			opts.ExpiryDuration = -time.Second
		default:
			opts.ExpiryDuration = time.Second + time.Millisecond
		}
	}

	firstOK := false
	for call := 0; call < K; call++ {
		nResolve, nSign, nPush := len(repo.resolveLog), len(sg.calls), len(repo.pushes)
		artifact, sigManifest, err := SignOCI(context.Background(), signer, repo, opts)

		// frame conditions, whatever the outcome
		vr.Assert(repo.stored.MediaType == c11MT && string(repo.stored.Digest) == c11DigestA && (nAnn < 0) == (repo.stored.Annotations == nil) &&
			c11SameMap(repo.stored.Annotations, annK, annV), "the repository's descriptor of the artifact (annotations included) is unchanged")
		vr.Assert((nMeta < 0) == (opts.UserMetadata == nil) && c11SameMap(opts.UserMetadata, metaK, metaV), "the caller's user metadata map is unchanged")
		vr.Assert(len(opts.PluginConfig) == 1 && opts.PluginConfig["cfg"] == "1", "the caller's plugin config map is unchanged")
		vr.Assert(len(repo.pushes)-nPush <= 1 && len(sg.calls)-nSign <= 1 && len(repo.resolveLog)-nResolve <= 1, "at most one resolve, one signing and one push per call")

		refuse := ""
		switch {
		case situation == 5:
			refuse = "invalid options"
		case situation == 1:
			refuse = "resolve error"
		case refKind >= 4:
			refuse = "digest mismatch"
		case reserved:
			refuse = "reserved prefix"
		case collides:
			refuse = "overwrites an annotation"
		}
		if refuse != "" {
			vr.Assert(err != nil, "refused: "+refuse)
			vr.Assert(len(sg.calls) == nSign && len(repo.pushes) == nPush, "a refused request signs nothing and pushes nothing ("+refuse+")")
			if situation == 5 {
				vr.Assert(len(repo.resolveLog) == nResolve, "invalid options are refused before the repository is asked")
			}
			vr.Assert(artifact.Digest == "" && sigManifest.Digest == "", "a refused request returns empty descriptors")
			vr.Reach("refused: " + refuse)
			continue
		}
		vr.Assert(len(repo.resolveLog) == nResolve+1 && repo.resolveLog[nResolve] == wantResolve[refKind], "the repository resolves the tag or digest of the reference")
		vr.Assert(len(sg.calls) == nSign+1, "the signer is called once")
		if len(sg.calls) != nSign+1 {
			return
		}
		sc := sg.calls[nSign]
		vr.Assert(sc.desc.MediaType == c11MT && string(sc.desc.Digest) == c11DigestA && sc.desc.Size == repo.stored.Size, "the descriptor signed is the resolved one (media type, digest, size)")
		wantK := append(append([]string{}, annK...), metaK...)
		wantV := append(append([]string{}, annV...), metaV...)
		vr.Assert(c11SameMap(sc.ann, wantK, wantV), "the annotations signed are the artifact's plus the user metadata, nothing else")
		vr.Assert(sc.opts.SignatureMediaType == c11JWS && sc.opts.ExpiryDuration == 24*time.Hour, "the signer receives the caller's options")
		if situation == 2 || situation == 3 {
			vr.Assert(err != nil && len(repo.pushes) == nPush, "signer failure / missing signing time: error, nothing pushed")
			vr.Reach("signing failed")
			continue
		}
		vr.Assert(len(repo.pushes) == nPush+1, "one signature is pushed")
		if len(repo.pushes) != nPush+1 {
			return
		}
		p := repo.pushes[nPush]
		vr.Assert(p.mediaType == c11JWS && string(p.blob) == "signature envelope", "the signature pushed is the signer's, under the requested media type")
		vr.Assert(p.subject.MediaType == c11MT && string(p.subject.Digest) == c11DigestA && p.subject.Size == repo.stored.Size && c11SameMap(p.subjAnn, annK, annV),
			"the signature is attached to the resolved artifact (its descriptor as resolved, without the user metadata)")
		wantAnn := 2
		for k := range pluginAnn {
			if k != "io.cncf.notary.x509chain.thumbprint#S256" && k != "org.opencontainers.image.created" {
				wantAnn++
			}
		}
		vr.Assert(len(p.ann) == wantAnn, "the signature manifest carries the thumbprint and created annotations (plus the plugin's)")
		vr.Assert(vr.JSONEqual([]byte(p.ann["io.cncf.notary.x509chain.thumbprint#S256"]), c11Thumbprints(chain)), "thumbprint annotation: SHA-256 of every certificate of the signing chain, in chain order")
		vr.Assert(p.ann["org.opencontainers.image.created"] == signingTime.UTC().Format(time.RFC3339), "created annotation: the signing time")
		if pluginAnn != nil {
			vr.Assert(p.ann["plugin.note"] == "n", "the plugin's manifest annotations are pushed")
		}
		if situation == 4 {
			_, isPushErr := err.(ErrorPushSignatureFailed)
			vr.Assert(isPushErr && artifact.Digest == "", "push failure: ErrorPushSignatureFailed")
			vr.Reach("push failed")
			continue
		}
		vr.Assert(err == nil, "signing a resolvable artifact with acceptable metadata succeeds")
		if err != nil {
			return
		}
		vr.Assert(artifact.MediaType == c11MT && string(artifact.Digest) == c11DigestA && artifact.Size == repo.stored.Size, "the artifact descriptor returned is the resolved one")
		vr.Assert(string(sigManifest.Digest) == c11DigestB && sigManifest.Size == int64(100+len(repo.pushes)), "the signature manifest descriptor returned is the repository's")
		if call == 0 {
			firstOK = true
			vr.Reach("signed")
			if nMeta > 0 && nAnn >= 0 {
				vr.Reach("signed with metadata on an annotated artifact")
			}
		} else if firstOK {
			vr.Reach("signed again")
		}
	}
}

func init() { vsymHarnesses["VsymC11"] = VsymC11 }
