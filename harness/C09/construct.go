//go:build verif

package verifier

// C09 (last anchor): validation is forced when a verifier is constructed - for every document handed in.

import (
	vr "github.com/notaryproject/notation-go/internal/zzvr"
	"github.com/notaryproject/notation-go/verifier/trustpolicy"
)

func c09OCIDoc(kind int) *trustpolicy.OCIDocument {
	switch kind {
	case 0:
		return nil
	case 1:
		return kitOCIDoc("strict", nil, []string{"ca:s"}, []string{"*"})
	case 2:
		d := kitOCIDoc("strict", nil, []string{"ca:s"}, []string{"*"})
		d.Version = "2.0"
		return d
	case 3:
		return kitOCIDoc("strict", map[trustpolicy.ValidationType]trustpolicy.ValidationAction{trustpolicy.TypeIntegrity: trustpolicy.ActionLog}, []string{"ca:s"}, []string{"*"})
	case 4:
		return kitOCIDoc("strict", nil, []string{"ca:../x"}, []string{"*"})
	}
	return &trustpolicy.OCIDocument{Version: "1.0"}
}

func c09BlobDoc(kind int) *trustpolicy.BlobDocument {
	switch kind {
	case 0:
		return nil
	case 1:
		return kitBlobDoc("strict", nil, []string{"ca:s"}, []string{"*"}, true)
	case 2:
		d := kitBlobDoc("strict", nil, []string{"ca:s"}, []string{"*"}, true)
		d.Version = "2.0"
		return d
	case 3:
		return kitBlobDoc("skip", nil, nil, nil, true) // a global statement must not be skip
	case 4:
		return kitBlobDoc("strict", nil, []string{"ca:../x"}, []string{"*"}, false)
	}
	return &trustpolicy.BlobDocument{Version: "1.0"}
}

// VsymC09Construct: NewVerifierWithOptions succeeds iff at least one document is given and every given
// document validates.
func VsymC09Construct() {
	o, b := vr.Choice("ociDocument", 6), vr.Choice("blobDocument", 6)
	oci, blob := c09OCIDoc(o), c09BlobDoc(b)
	v, err := NewVerifierWithOptions(&kitStore{}, VerifierOptions{OCITrustPolicy: oci, BlobTrustPolicy: blob,
		RevocationCodeSigningValidator: &kitValidator{}, RevocationTimestampingValidator: &kitValidator{}})
	ociOK := oci == nil || oci.Validate() == nil
	blobOK := blob == nil || blob.Validate() == nil
	want := (oci != nil || blob != nil) && ociOK && blobOK
	vr.Assert((err == nil) == want, "a verifier is constructed iff at least one policy document is given and every given document validates")
	vr.Assert((err == nil) == (v != nil), "a verifier or an error")
	if err == nil {
		vr.Reach("constructed")
	} else {
		vr.Reach("refused")
		if oci != nil && blob != nil && ociOK && !blobOK {
			vr.Reach("refused for the second document")
		}
	}
}

func init() { vsymHarnesses["VsymC09Construct"] = VsymC09Construct }
