//go:build verif

package trustpolicy

import (
	"testing"

	vr "github.com/notaryproject/notation-go/internal/zzvr"
)

func TestVsymReplay(t *testing.T) {
	if err := vr.ReplayMain(map[string]func(){
		"VsymC09Level":       VsymC09Level,
		"VsymC09Stores":      VsymC09Stores,
		"VsymC09Identities":  VsymC09Identities,
		"VsymC09ScopeFormat": VsymC09ScopeFormat,
		"VsymC09BlobWhole":   VsymC09BlobWhole,
		"VsymC09StoreNames":  VsymC09StoreNames,
		"VsymC08OCI":         VsymC08OCI,
		"VsymC08Blob":        VsymC08Blob,
	}); err != nil {
		t.Fatal(err)
	}
}
