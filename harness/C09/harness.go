//go:build verif

package trustpolicy

import (
	"errors"

	vr "github.com/notaryproject/notation-go/internal/zzvr"
)

// ---------------------------------------------------------------------------
// H1: GetVerificationLevel == level/override rules

func c09BaseAction(level string, t ValidationType) string {
	// the three named levels; integrity is always enforce
	perm := "log"
	aud := "log"
	if t == TypeIntegrity {
		return vr.IteStr(level == "skip", "skip", "enforce")
	}
	if t == TypeAuthenticity {
		perm = "enforce"
	}
	return vr.IteStr(level == "strict", "enforce", vr.IteStr(level == "permissive", perm, vr.IteStr(level == "audit", aud, "skip")))
}

func VsymC09Level() {
	level := vr.OneOf("level", "strict", "permissive", "audit", "skip", "", "bogus", "Strict", "SKIP", "Audit", "skip ")
	n := vr.Choice("noverrides", vr.Param("overrides", 2)+1)
	var override map[ValidationType]ValidationAction
	if n > 0 || vr.Choice("emptyMapNotNil", 2) == 1 {
		override = map[ValidationType]ValidationAction{}
	}
	for i := 0; i < n; i++ {
		k := vr.OneOf("okey", "integrity", "authenticity", "authenticTimestamp", "expiry", "revocation", "bogus", "")
		v := vr.OneOf("oval", "enforce", "log", "skip", "bogus", "")
		override[ValidationType(k)] = ValidationAction(v)
	}
	sv := SignatureVerification{VerificationLevel: level, Override: override}
	got, err := sv.GetVerificationLevel()

	levelKnown := vr.Or(level == "strict", level == "permissive", level == "audit", level == "skip")
	entriesOK := true
	for k, v := range override {
		kKnown := vr.Or(k == TypeIntegrity, k == TypeAuthenticity, k == TypeAuthenticTimestamp, k == TypeExpiry, k == TypeRevocation)
		vKnown := vr.Or(v == ActionEnforce, v == ActionLog, v == ActionSkip)
		entriesOK = vr.And(entriesOK, kKnown, vKnown, k != TypeIntegrity, vr.Or(k == TypeRevocation, v != ActionSkip))
	}
	valid := vr.And(levelKnown, vr.Or(len(override) == 0, vr.And(level != "skip", entriesOK)))
	vr.Assert(vr.Iff(err == nil, valid), "GetVerificationLevel succeeds iff level known, overrides only on non-skip levels, never integrity, skip only for revocation")
	if err != nil {
		vr.Assert(got == nil, "error comes with nil level")
		vr.Reach("level rejected")
		return
	}
	vr.Reach("level accepted")
	if got == nil {
		vr.Assert(false, "no error but nil level")
		return
	}
	for _, t := range ValidationTypes {
		want := c09BaseAction(level, t)
		if ov, ok := override[t]; ok {
			want = string(ov)
		}
		vr.Assert(string(got.Enforcement[t]) == want, "effective enforcement = base level overridden by the statement")
	}
	vr.Assert(vr.Or(level == "skip", got.Enforcement[TypeIntegrity] == ActionEnforce), "integrity is enforced unless the statement is skip")
	if len(override) > 0 {
		vr.Assert(got.Name == "custom", "customised level is named custom")
		vr.Reach("custom level")
	} else {
		vr.Assert(got.Name == level, "base level returned unchanged")
	}
}

// ---------------------------------------------------------------------------
// H2: validateTrustStore == type:name rules

func c09SafeName(nm string) bool {
	ok := len(nm) >= 1
	for i := 0; i < 2; i++ {
		if i < len(nm) {
			c := nm[i]
			ok = vr.And(ok, vr.Or(vr.And(c >= 'a', c <= 'z'), vr.And(c >= 'A', c <= 'Z'), vr.And(c >= '0', c <= '9'), c == '_', c == '.', c == '-'))
		}
	}
	return ok
}

func VsymC09Stores() {
	n := vr.Choice("nstores", vr.Param("stores", 2)+1)
	var stores []string
	valid := true
	dotName := false
	for i := 0; i < n; i++ {
		typ := vr.OneOf("stype", "ca", "signingAuthority", "tsa", "Ca", "")
		hasSep := vr.Bool("hasSep")
		nm := vr.Str("sname", 2)
		// without the separator the entry must not contain one by accident
		vr.Assume(vr.Or(hasSep, vr.And(vr.Not(c09HasByte(nm, ':')))))
		entry := typ + vr.IteStr(hasSep, ":", "") + nm
		stores = append(stores, entry)
		typeOK := vr.Or(typ == "ca", typ == "signingAuthority", typ == "tsa")
		valid = vr.And(valid, hasSep, typeOK, c09SafeName(nm), nm != ".", nm != "..")
		dotName = vr.Or(dotName, nm == ".", nm == "..")
	}
	if n == 0 && vr.Choice("emptyNotNil", 2) == 1 {
		stores = []string{}
	}
	err := validateTrustStore("p", stores)
	vr.Assert(vr.Iff(err == nil, valid), "trust stores accepted iff every entry is <known type>:<name in [a-zA-Z0-9_.-]+, not . or ..>")
	vr.FindingKey("store-name-dot-or-dotdot")
	vr.Assert(vr.Implies(err == nil, vr.Not(dotName)), "a store name must be file-name-safe: '.' and '..' are not names of a store")
	vr.FindingKey("")
	if err == nil {
		vr.Reach("stores accepted")
	} else {
		vr.Reach("stores rejected")
	}
}

func c09HasByte(s string, b byte) bool {
	r := false
	for i := 0; i < 2; i++ {
		if i < len(s) {
			r = vr.Or(r, s[i] == b)
		}
	}
	return r
}

// ---------------------------------------------------------------------------
// H3: validateTrustedIdentities == identity rules

type c09DN struct {
	x509  bool
	valid bool              // parses and carries C, ST, O; no duplicates; no multi-valued RDN
	attrs map[string]string // ST alias resolved
}

func c09Identity(tag string) (string, bool, c09DN) {
	// returns identity string, structurally valid?, and its DN model
	switch vr.Choice(tag, 10) {
	case 0:
		return "*", true, c09DN{}
	case 1:
		return "", false, c09DN{}
	case 2:
		return "nosep", false, c09DN{}
	case 3:
		return "other:thing", true, c09DN{}
	case 4:
		return "x509.subject:", false, c09DN{}
	case 5: // missing mandatory O
		return "x509.subject:C=US,ST=WA", false, c09DN{x509: true}
	case 6: // duplicate attribute through the alias
		return "x509.subject:C=US,ST=WA,S=WA,O=o", false, c09DN{x509: true}
	case 7: // multi-valued RDN
		return "x509.subject:C=US,ST=WA,O=o+OU=u", false, c09DN{x509: true}
	case 8: // =# value
		return "x509.subject:C=US,ST=WA,O=#6f", false, c09DN{x509: true}
	}
	// valid DN, symbolic O (and optional CN) values, S or ST spelling, with or without spaces after commas
	o := c09Val(tag + ".O")
	st := []string{"ST", "S"}[vr.Choice(tag+".stKey", 2)]
	sep := []string{",", ", "}[vr.Choice(tag+".sep", 2)]
	dn := "C=US" + sep + st + "=WA" + sep + "O=" + o
	attrs := map[string]string{"C": "US", "ST": "WA", "O": o}
	if vr.Choice(tag+".withCN", 2) == 1 {
		cn := c09Val(tag + ".CN")
		if vr.Choice(tag+".cnFirst", 2) == 1 {
			dn = "CN=" + cn + sep + dn
		} else {
			dn = dn + sep + "CN=" + cn
		}
		attrs["CN"] = cn
	}
	return "x509.subject:" + dn, true, c09DN{x509: true, valid: true, attrs: attrs}
}

// c09Val: a one-byte attribute value over {a, b} (fixed length keeps the DN's structure concrete)
func c09Val(tag string) string {
	return string([]byte{vr.Byte2(tag, 'a', 'b')})
}

func c09Subset(a, b map[string]string) bool {
	r := true
	for k, v := range a {
		w, ok := b[k]
		if !ok {
			return false
		}
		r = vr.And(r, v == w)
	}
	return r
}

func VsymC09Identities() {
	n := vr.Choice("nids", vr.Param("ids", 2)+1)
	var ids []string
	var dns []c09DN
	valid := true
	wildcards := 0
	for i := 0; i < n; i++ {
		tag := "id0"
		if i == 1 {
			tag = "id1"
		}
		s, ok, dn := c09Identity(tag)
		ids = append(ids, s)
		dns = append(dns, dn)
		if !ok {
			valid = false
		}
		if s == "*" {
			wildcards++
		}
	}
	if wildcards > 0 && n > 1 {
		valid = false
	}
	overlap := false
	for i := range dns {
		for j := range dns {
			if i != j && dns[i].valid && dns[j].valid {
				overlap = vr.Or(overlap, c09Subset(dns[i].attrs, dns[j].attrs))
			}
		}
	}
	want := vr.And(valid, vr.Not(overlap))
	err := validateTrustedIdentities("p", ids)
	vr.Assert(vr.Iff(err == nil, want), "identities accepted iff none empty, all have a separator, x509.subject values parse with C, ST, O and no duplicates, the wildcard stands alone, and no two overlap")
	if err == nil {
		vr.Reach("identities accepted")
	} else {
		vr.Reach("identities rejected")
	}
}

// ---------------------------------------------------------------------------
// H4: validatePolicyCore over summaries of its three callees

var c09 struct {
	levelErr    bool
	levelName   string
	levelCalls  int
	levelArg    *SignatureVerification
	storesOK    bool
	storesCalls int
	storesArg   []string
	idsOK       bool
	idsCalls    int
	idsArg      []string
	nameArgs    []string
}

func c09StubLevel(sv *SignatureVerification) (*VerificationLevel, error) {
	c09.levelCalls++
	c09.levelArg = sv
	if c09.levelErr {
		return nil, errors.New("bad level")
	}
	return &VerificationLevel{Name: c09.levelName}, nil
}

func c09StubStores(policyName string, trustStores []string) error {
	c09.storesCalls++
	c09.storesArg = trustStores
	c09.nameArgs = append(c09.nameArgs, policyName)
	if !c09.storesOK {
		return errors.New("bad stores")
	}
	return nil
}

func c09StubIdentities(policyName string, tis []string) error {
	c09.idsCalls++
	c09.idsArg = tis
	c09.nameArgs = append(c09.nameArgs, policyName)
	if !c09.idsOK {
		return errors.New("bad identities")
	}
	return nil
}

func VsymC09Core() {
	name := vr.OneOf("name", "", "n")
	c09.levelErr = vr.Choice("levelErr", 2) == 1
	c09.levelName = []string{"strict", "permissive", "audit", "custom", "skip"}[vr.Choice("levelName", 5)]
	ts := vr.OneOf("verifyTimestamp", "", "always", "afterCertExpiry", "bogus", "Always")
	c09.storesOK = vr.Choice("storesOK", 2) == 1
	c09.idsOK = vr.Choice("idsOK", 2) == 1
	var stores, ids []string
	switch vr.Choice("stores", 3) {
	case 1:
		stores = []string{}
	case 2:
		stores = []string{"ca:s"}
	}
	switch vr.Choice("ids", 3) {
	case 1:
		ids = []string{}
	case 2:
		ids = []string{"*"}
	}
	sv := SignatureVerification{VerificationLevel: "whatever", VerifyTimestamp: TimestampOption(ts)}
	err := validatePolicyCore(name, sv, stores, ids)

	skip := c09.levelName == "skip"
	tsKnown := vr.Or(ts == "", ts == "always", ts == "afterCertExpiry")
	var body bool
	if skip {
		body = len(stores) == 0 && len(ids) == 0
	} else {
		body = len(stores) > 0 && len(ids) > 0 && c09.storesOK && c09.idsOK
	}
	want := vr.And(name != "", !c09.levelErr, tsKnown, body)
	vr.Assert(vr.Iff(err == nil, want), "statement accepted iff named, level valid, known verifyTimestamp, skip carries no stores/identities, non-skip carries valid stores and identities")
	if err == nil {
		vr.Reach("core accepted")
		vr.Assert(c09.levelCalls == 1 && c09.levelArg != nil && c09.levelArg.VerificationLevel == "whatever", "level computed from the statement's own signatureVerification")
		if !skip {
			vr.Assert(c09.storesCalls == 1 && len(c09.storesArg) == 1 && c09.storesArg[0] == "ca:s", "the statement's own trust stores were validated")
			vr.Assert(c09.idsCalls == 1 && len(c09.idsArg) == 1 && c09.idsArg[0] == "*", "the statement's own identities were validated")
		}
	} else {
		vr.Reach("core rejected")
	}
}

// ---------------------------------------------------------------------------
// H5/H6: document level over a summary of validatePolicyCore (and of the scope format)

var c09Doc struct {
	coreOK    []bool
	coreCalls int
	argsOK    bool
	names     []string
}

func c09StubCore(name string, sv SignatureVerification, trustStores, trustedIdentities []string) error {
	i := c09Doc.coreCalls
	c09Doc.coreCalls++
	if i >= len(c09Doc.coreOK) {
		c09Doc.argsOK = false
		return errors.New("unexpected call")
	}
	// called with statement i's own fields, in order
	if !(name == c09Doc.names[i] && len(trustStores) == 1 && trustStores[0] == "ca:s"+string(rune('0'+i)) && len(trustedIdentities) == 1 && trustedIdentities[0] == "id"+string(rune('0'+i))) {
		c09Doc.argsOK = false
	}
	if !c09Doc.coreOK[i] {
		return errors.New("bad statement")
	}
	return nil
}

func c09StubScopeFormat(scope string) error {
	if scope == "bad" {
		return errors.New("bad scope")
	}
	return nil
}

func VsymC09OCIDoc() {
	if vr.Choice("nilDoc", 8) == 7 {
		var d *OCIDocument
		vr.Assert(d.Validate() != nil, "nil document rejected")
		return
	}
	version := vr.OneOf("version", "1.0", "", "2.0", "1.00")
	S := vr.Choice("statements", vr.Param("S", 2)+1)
	doc := &OCIDocument{Version: version}
	c09Doc.argsOK = true
	allCore := true
	scopesOK := true
	scopeLists := make([][]string, S)
	for i := 0; i < S; i++ {
		nm := vr.StrIn("name", 1, "a-b")
		c09Doc.names = append(c09Doc.names, nm)
		ok := vr.Choice("coreOK", 2) == 1
		c09Doc.coreOK = append(c09Doc.coreOK, ok)
		allCore = allCore && ok
		ns := vr.Choice("nscopes", 3)
		var scopes []string
		for j := 0; j < ns; j++ {
			scopes = append(scopes, vr.OneOf("scope", "*", "a/b", "a/c", "bad"))
		}
		scopeLists[i] = scopes
		doc.TrustPolicies = append(doc.TrustPolicies, OCITrustPolicy{Name: nm, TrustStores: []string{"ca:s" + string(rune('0'+i))}, TrustedIdentities: []string{"id" + string(rune('0'+i))}, RegistryScopes: scopes})
		hasWild := false
		for _, s := range scopes {
			hasWild = vr.Or(hasWild, s == "*")
			scopesOK = vr.And(scopesOK, s != "bad")
		}
		scopesOK = vr.And(scopesOK, ns >= 1, vr.Or(ns <= 1, vr.Not(hasWild)))
	}
	// no scope value occurs twice anywhere in the document
	var all []string
	for _, l := range scopeLists {
		all = append(all, l...)
	}
	for i := range all {
		for j := i + 1; j < len(all); j++ {
			scopesOK = vr.And(scopesOK, all[i] != all[j])
		}
	}
	namesUnique := true
	for i := 0; i < S; i++ {
		for j := i + 1; j < S; j++ {
			namesUnique = vr.And(namesUnique, c09Doc.names[i] != c09Doc.names[j])
		}
	}
	err := doc.Validate()
	want := vr.And(version == "1.0", S >= 1, namesUnique, allCore, scopesOK)
	vr.Assert(vr.Iff(err == nil, want), "OCI document accepted iff version supported, >=1 statement, unique names, every statement valid, every statement has >=1 valid scope, wildcard alone, no scope used twice")
	if err == nil {
		vr.Reach("document accepted")
		vr.Assert(c09Doc.argsOK && c09Doc.coreCalls == S, "every statement validated once with its own fields")
	} else {
		vr.Reach("document rejected")
	}
}

func VsymC09BlobDoc() {
	if vr.Choice("nilDoc", 8) == 7 {
		var d *BlobDocument
		vr.Assert(d.Validate() != nil, "nil document rejected")
		return
	}
	version := vr.OneOf("version", "1.0", "", "2.0")
	S := vr.Choice("statements", vr.Param("S", 2)+1)
	doc := &BlobDocument{Version: version}
	c09Doc.argsOK = true
	allCore := true
	globals := 0
	globalSkip := false
	for i := 0; i < S; i++ {
		nm := vr.StrIn("name", 1, "a-b")
		c09Doc.names = append(c09Doc.names, nm)
		ok := vr.Choice("coreOK", 2) == 1
		c09Doc.coreOK = append(c09Doc.coreOK, ok)
		allCore = allCore && ok
		global := vr.Choice("global", 2) == 1
		level := []string{"strict", "skip", "audit"}[vr.Choice("level", 3)]
		if global {
			globals++
			if level == "skip" {
				globalSkip = true
			}
		}
		doc.TrustPolicies = append(doc.TrustPolicies, BlobTrustPolicy{Name: nm, SignatureVerification: SignatureVerification{VerificationLevel: level},
			TrustStores: []string{"ca:s" + string(rune('0'+i))}, TrustedIdentities: []string{"id" + string(rune('0'+i))}, GlobalPolicy: global})
	}
	namesUnique := true
	for i := 0; i < S; i++ {
		for j := i + 1; j < S; j++ {
			namesUnique = vr.And(namesUnique, c09Doc.names[i] != c09Doc.names[j])
		}
	}
	err := doc.Validate()
	want := vr.And(version == "1.0", S >= 1, namesUnique, allCore, globals <= 1, !globalSkip)
	vr.Assert(vr.Iff(err == nil, want), "blob document accepted iff version supported, >=1 statement, unique names, every statement valid, at most one global statement, which is not skip")
	vr.FindingKey("global-statement-skip-accepted")
	vr.Assert(!(err == nil && globalSkip), "a global blob statement must not be skip")
	vr.FindingKey("")
	if err == nil {
		vr.Reach("document accepted")
		vr.Assert(c09Doc.argsOK && c09Doc.coreCalls == S, "every statement validated once with its own fields")
	} else {
		vr.Reach("document rejected")
	}
}

// ---------------------------------------------------------------------------
// H7: validateRegistryScopeFormat == hand-written recognizer of <domain>/<repository>

func c09Alnum(c byte) bool {
	return vr.Or(vr.And(c >= 'a', c <= 'z'), vr.And(c >= 'A', c <= 'Z'), vr.And(c >= '0', c <= '9'))
}
func c09LowerNum(c byte) bool { return vr.Or(vr.And(c >= 'a', c <= 'z'), vr.And(c >= '0', c <= '9')) }
func c09Digit(c byte) bool    { return vr.And(c >= '0', c <= '9') }

// domain: label(.label)*(:digits+)?  label: alnum | alnum (alnum|-)* alnum
func c09Domain(s string) bool {
	if len(s) == 0 {
		return false
	}
	i := 0
	for {
		// label
		if i >= len(s) || !vr.Fork(c09Alnum(s[i])) {
			return false
		}
		last := i
		i++
		for i < len(s) && vr.Fork(vr.Or(c09Alnum(s[i]), s[i] == '-')) {
			if vr.Fork(s[i] != '-') {
				last = i
			}
			i++
		}
		if last != i-1 {
			return false // label ends with '-'
		}
		if i < len(s) && vr.Fork(s[i] == '.') {
			i++
			continue
		}
		break
	}
	if i == len(s) {
		return true
	}
	if !vr.Fork(s[i] == ':') {
		return false
	}
	i++
	if i >= len(s) {
		return false
	}
	for i < len(s) {
		if !vr.Fork(c09Digit(s[i])) {
			return false
		}
		i++
	}
	return true
}

// repository: comp(/comp)*  comp: lowernum+ (sep lowernum+)*  sep: '.' | '_' | '__' | '-'*
func c09Repository(s string) bool {
	i := 0
	for {
		// lowernum+
		if i >= len(s) || !vr.Fork(c09LowerNum(s[i])) {
			return false
		}
		for i < len(s) && vr.Fork(c09LowerNum(s[i])) {
			i++
		}
		if i == len(s) {
			return true
		}
		c := s[i]
		switch {
		case vr.Fork(c == '/'):
			i++
			continue
		case vr.Fork(c == '.'):
			i++
		case vr.Fork(c == '_'):
			i++
			if i < len(s) && vr.Fork(s[i] == '_') {
				i++
			}
		case vr.Fork(c == '-'):
			for i < len(s) && vr.Fork(s[i] == '-') {
				i++
			}
		default:
			return false
		}
		// after a separator another lowernum run must follow (checked at loop top, but '/' is not allowed here)
		if i >= len(s) || !vr.Fork(c09LowerNum(s[i])) {
			return false
		}
	}
}

func VsymC09ScopeFormat() {
	capacity := vr.Param("cap", 4)
	s := vr.StrIn("scope", capacity, "a-b0-1A-B/.:_*@-")
	err := validateRegistryScopeFormat(s)
	// oracle
	want := false
	star := false
	for i := 0; i < len(s); i++ {
		if vr.Fork(s[i] == '*') {
			star = true
		}
	}
	if !(star && len(s) > 1) {
		slash := -1
		for i := 0; i < len(s) && slash < 0; i++ {
			if vr.Fork(s[i] == '/') {
				slash = i
			}
		}
		if slash > 0 && slash < len(s)-1 {
			want = c09Domain(s[:slash]) && c09Repository(s[slash+1:])
		}
	}
	vr.Assert((err == nil) == want, "scope accepted iff it is <domain>/<repository> per the distribution grammar, without wildcard characters")
	if want {
		vr.Reach("scope accepted")
	} else {
		vr.Reach("scope rejected")
	}
}

// VsymC09BlobWhole: whole blob documents of real statements (no summaries) — the document-level rules
// seen through the public Validate, natively replayable.
func VsymC09BlobWhole() {
	S := vr.Choice("statements", 2) + 1
	doc := &BlobDocument{Version: "1.0"}
	globals := 0
	globalSkip := false
	names := []string{"a", "b"}
	for i := 0; i < S; i++ {
		global := vr.Choice("global", 2) == 1
		skip := vr.Choice("skip", 2) == 1
		st := BlobTrustPolicy{Name: names[i], GlobalPolicy: global}
		if skip {
			st.SignatureVerification.VerificationLevel = "skip"
		} else {
			st.SignatureVerification.VerificationLevel = "strict"
			st.TrustStores = []string{"ca:s"}
			st.TrustedIdentities = []string{"*"}
		}
		if global {
			globals++
			globalSkip = globalSkip || skip
		}
		doc.TrustPolicies = append(doc.TrustPolicies, st)
	}
	err := doc.Validate()
	vr.Assert(globals <= 1 || err != nil, "two global statements rejected")
	vr.FindingKey("global-statement-skip-accepted")
	vr.Assert(!(err == nil && globalSkip), "a global blob statement must not be skip")
	vr.FindingKey("")
	vr.Assert(globals > 1 || globalSkip || err == nil, "otherwise accepted")
	vr.Reach("done")
}

// VsymC09StoreNames: concrete store names outside the symbolic alphabet - letters and digits of other scripts,
// control characters, path and shell punctuation - none of which is a plain file name.
func VsymC09StoreNames() {
	names := []string{"store", "störe", "存储", "store٣", "сtore", "a\x00b", "a b", "a/b", "a\\b", "a[b", "a^b", "a`b", "a]b", "a b", "é", "ś", "a\nb", "-", "_", "..a", "a..", "\xff\xfe", "a:b"}
	ok := []bool{true, false, false, false, false, false, false, false, false, false, false, false, false, false, false, false, false, true, true, true, true, false, false}
	k := vr.Choice("name", len(names))
	typ := []string{"ca", "signingAuthority", "tsa"}[vr.Choice("type", 3)]
	err := validateTrustStore("p", []string{typ + ":" + names[k]})
	vr.Assert((err == nil) == ok[k], "a trust store name is accepted iff it consists of ASCII letters, digits, '_', '.', '-' only")
	if err == nil {
		vr.Reach("name accepted")
	} else {
		vr.Reach("name rejected")
	}
}
