//go:build verif

package verifier

import (
	"context"
	"crypto/x509"
	"errors"
	"time"

	"github.com/notaryproject/notation-core-go/signature"
	"github.com/notaryproject/notation-go"
	vr "github.com/notaryproject/notation-go/internal/zzvr"
	"github.com/notaryproject/notation-go/internal/zzvr/blobkit"
	"github.com/notaryproject/notation-go/verifier/trustpolicy"
	"github.com/opencontainers/go-digest"
)

// VsymC08NotationBlob: blob statement selection as the public entry point notation.VerifyBlob applies it. The
// name the caller gives reaches the selection as given: a name that differs from a statement's name in white
// space or letter case is another name, and white space is not "no name".
func VsymC08NotationBlob() {
	kitEnv = kitEnvState{}
	kitInstallEnvelope()
	blobkit.Reset()
	const blob = "b"
	leaf := &x509.Certificate{Raw: []byte{'c', '0'}}
	leaf.Subject.Country, leaf.Subject.Province, leaf.Subject.Organization = []string{"US"}, []string{"WA"}, []string{"a"}
	leaf.NotBefore, leaf.NotAfter = time.Unix(946684800, 0), time.Unix(4102444800, 0)
	kitEnv.content = &signature.EnvelopeContent{
		Payload: signature.Payload{ContentType: "application/vnd.cncf.notary.payload.v1+json", Content: vr.JSONBytes(vr.JObj("targetArtifact",
			vr.JObj("mediaType", vr.JStr("m"), "digest", vr.JStr(blobkit.DigestOf(digest.SHA256, blob)), "size", vr.JNum(int64(len(blob))))))},
		SignerInfo: signature.SignerInfo{SignedAttributes: signature.SignedAttributes{SigningScheme: signature.SigningSchemeX509, SigningTime: time.Unix(1700000000, 0)},
			SignatureAlgorithm: signature.AlgorithmPS256, CertificateChain: []*x509.Certificate{leaf}, Signature: []byte("sig")},
	}
	trusted := kitStoreAnswer{certs: []*x509.Certificate{leaf}}
	store := &kitStore{answers: map[string]kitStoreAnswer{"ca:x": trusted, "ca:y": trusted, "ca:z": trusted, "ca:w": trusted}}
	sv := func(level string) trustpolicy.SignatureVerification {
		return trustpolicy.SignatureVerification{VerificationLevel: level}
	}
	withGlobal := vr.Choice("globalStatement", 2) == 1
	withTwin := vr.Choice("paddedTwinStatement", 2) == 1
	rot := vr.Choice("statementOrder", 4)
	sts := []trustpolicy.BlobTrustPolicy{
		{Name: "p", SignatureVerification: sv("strict"), TrustStores: []string{"ca:x"}, TrustedIdentities: []string{"*"}},
		{Name: "q", SignatureVerification: sv("permissive"), TrustStores: []string{"ca:y"}, TrustedIdentities: []string{"*"}},
	}
	if withTwin {
		// a statement whose name is that of another one plus a blank: a legal, different name
		sts = append(sts, trustpolicy.BlobTrustPolicy{Name: "p ", SignatureVerification: sv("permissive"), TrustStores: []string{"ca:z"}, TrustedIdentities: []string{"*"}})
	}
	if withGlobal {
		sts = append(sts, trustpolicy.BlobTrustPolicy{Name: "g", GlobalPolicy: true, SignatureVerification: sv("audit"), TrustStores: []string{"ca:w"}, TrustedIdentities: []string{"*"}})
	}
	sts = append(sts[rot%len(sts):], sts[:rot%len(sts)]...)
	opts := VerifierOptions{RevocationCodeSigningValidator: &kitValidator{results: kitOKResults(1)}, RevocationTimestampingValidator: &kitValidator{},
		BlobTrustPolicy: &trustpolicy.BlobDocument{Version: "1.0", TrustPolicies: sts}}
	v, err := NewVerifierWithOptions(store, opts)
	vr.Assert(err == nil, "harness: verifier")
	if err != nil {
		return
	}
	names := []string{"", "p", "q", "g", "p ", " p", " ", "\t", " \n", "P", "q\n", " ", "r"}
	k := vr.Choice("name", len(names))
	ws, wl := "", ""
	switch names[k] {
	case "", "g":
		if withGlobal {
			ws, wl = "ca:w", "audit"
		}
	case "p":
		ws, wl = "ca:x", "strict"
	case "q":
		ws, wl = "ca:y", "permissive"
	case "p ":
		if withTwin {
			ws, wl = "ca:z", "permissive"
		}
	}
	vo := notation.VerifyBlobOptions{}
	vo.SignatureMediaType = kitJWS
	vo.TrustPolicyName = names[k]
	_, outcome, verr := notation.VerifyBlob(context.Background(), v, blobkit.NewReader(blob), []byte{1, 2, 3}, vo)
	if ws == "" {
		var na notation.ErrorNoApplicableTrustPolicy
		vr.Assert(verr != nil && errors.As(verr, &na) && outcome == nil && len(store.calls) == 0, "notation.VerifyBlob: a name no statement carries exactly (white space and letter case included; no name without a global statement) is refused as 'no applicable trust policy', without an outcome and without consulting a trust store")
		vr.Reach("refused")
		return
	}
	vr.Assert(verr == nil && outcome != nil && outcome.VerificationLevel != nil && outcome.VerificationLevel.Name == wl, "notation.VerifyBlob applies the statement with exactly the requested name, or the global statement when no name is given")
	for _, c := range store.calls {
		vr.Assert(c == ws, "notation.VerifyBlob consults the trust stores of that statement, and no other")
	}
	vr.Assert(len(store.calls) > 0, "harness: a trust store was consulted")
	vr.Reach("applied")
}

func init() { vsymHarnesses["VsymC08NotationBlob"] = VsymC08NotationBlob }
