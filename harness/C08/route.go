//go:build verif

package verifier

import (
	"context"
	"crypto/x509"
	"errors"
	"time"

	"github.com/notaryproject/notation-core-go/signature"
	"github.com/notaryproject/notation-go"
	vr "github.com/notaryproject/notation-go/internal/zzvr"
	"github.com/notaryproject/notation-go/verifier/trustpolicy"
	"github.com/opencontainers/go-digest"
	ocispec "github.com/opencontainers/image-spec/specs-go/v1"
)

// VsymC08Route: statement selection as the verifier applies it. Every statement lists a store of its own and
// carries a level of its own, so the store that is consulted and the level that is reported tell which
// statement was applied - for Verify, SkipVerify and VerifyBlob, with the statements in any order.
func VsymC08Route() {
	kitEnv = kitEnvState{}
	kitInstallEnvelope()
	leaf := &x509.Certificate{Raw: []byte{'c', '0'}}
	leaf.Subject.Country, leaf.Subject.Province, leaf.Subject.Organization = []string{"US"}, []string{"WA"}, []string{"a"}
	leaf.NotBefore, leaf.NotAfter = time.Unix(946684800, 0), time.Unix(4102444800, 0)
	kitEnv.content = &signature.EnvelopeContent{
		Payload: signature.Payload{ContentType: "application/vnd.cncf.notary.payload.v1+json", Content: vr.JSONBytes(vr.JObj("targetArtifact", vr.JObj("mediaType", vr.JStr("m"), "digest", vr.JStr("d"), "size", vr.JNum(1))))},
		SignerInfo: signature.SignerInfo{SignedAttributes: signature.SignedAttributes{SigningScheme: signature.SigningSchemeX509, SigningTime: time.Unix(1700000000, 0)},
			SignatureAlgorithm: signature.AlgorithmPS256, CertificateChain: []*x509.Certificate{leaf}, Signature: []byte("sig")},
	}
	trusted := kitStoreAnswer{certs: []*x509.Certificate{leaf}}
	store := &kitStore{answers: map[string]kitStoreAnswer{"ca:x": trusted, "ca:y": trusted, "ca:w": trusted}}
	sv := func(level string) trustpolicy.SignatureVerification {
		return trustpolicy.SignatureVerification{VerificationLevel: level}
	}
	withFallback := vr.Choice("wildcardOrGlobalStatement", 2) == 1
	rot := vr.Choice("statementOrder", 3)
	desc := ocispec.Descriptor{MediaType: "m", Digest: "d", Size: 1}
	const dg = "@sha256:aaaaaaaaaaaaaaaaaaaaaaaaaaaaaaaaaaaaaaaaaaaaaaaaaaaaaaaaaaaaaaaa"
	ctx := context.Background()
	validators := VerifierOptions{RevocationCodeSigningValidator: &kitValidator{results: kitOKResults(1)}, RevocationTimestampingValidator: &kitValidator{}}

	if vr.Choice("kind", 2) == 0 {
		// ---- OCI ----
		sts := []trustpolicy.OCITrustPolicy{
			{Name: "exact", RegistryScopes: []string{"reg.io/repo"}, SignatureVerification: sv("strict"), TrustStores: []string{"ca:x"}, TrustedIdentities: []string{"*"}},
			{Name: "other", RegistryScopes: []string{"reg.io/other", "reg.io/repo/sub"}, SignatureVerification: sv("permissive"), TrustStores: []string{"ca:y"}, TrustedIdentities: []string{"*"}},
		}
		if withFallback {
			sts = append(sts, trustpolicy.OCITrustPolicy{Name: "any", RegistryScopes: []string{"*"}, SignatureVerification: sv("audit"), TrustStores: []string{"ca:w"}, TrustedIdentities: []string{"*"}})
		}
		sts = append(sts[rot%len(sts):], sts[:rot%len(sts)]...)
		opts := validators
		opts.OCITrustPolicy = &trustpolicy.OCIDocument{Version: "1.0", TrustPolicies: sts}
		v, err := NewVerifierWithOptions(store, opts)
		vr.Assert(err == nil, "harness: verifier")
		if err != nil {
			return
		}
		refs := []string{"reg.io/repo" + dg, "reg.io/other" + dg, "reg.io/repo/sub" + dg, "reg.io/third" + dg, "reg.io/rep" + dg, "reg.io/repo/su" + dg, "REG.io/repo" + dg}
		wantStore := []string{"ca:x", "ca:y", "ca:y", "", "", "", ""}
		wantLevel := []string{"strict", "permissive", "permissive", "", "", "", ""}
		k := vr.Choice("reference", len(refs))
		ws, wl := wantStore[k], wantLevel[k]
		if ws == "" && withFallback {
			ws, wl = "ca:w", "audit"
		}
		vo := notation.VerifierVerifyOptions{ArtifactReference: refs[k], SignatureMediaType: kitJWS}
		skip, level, serr := v.SkipVerify(ctx, vo)
		outcome, verr := v.Verify(ctx, desc, []byte{1}, vo)
		if ws == "" {
			vr.Assert(serr != nil && verr != nil, "a reference no statement applies to is refused")
			var na notation.ErrorNoApplicableTrustPolicy
			vr.Assert(errors.As(verr, &na) && outcome == nil && len(store.calls) == 0, "... as 'no applicable trust policy', without an outcome and without consulting a trust store")
			vr.Reach("oci refused")
			return
		}
		vr.Assert(serr == nil && !skip && level != nil && level.Name == wl, "SkipVerify reports the level of the statement scoped to the repository (exact scope before the wildcard)")
		vr.Assert(verr == nil && outcome != nil && outcome.VerificationLevel != nil && outcome.VerificationLevel.Name == wl, "Verify applies the level of the statement scoped to the repository")
		for _, c := range store.calls {
			vr.Assert(c == ws, "Verify consults the trust stores of the statement scoped to the repository, and no other")
		}
		vr.Assert(len(store.calls) > 0, "harness: a trust store was consulted")
		vr.Reach("oci applied")
		return
	}
	// ---- blob ----
	sts := []trustpolicy.BlobTrustPolicy{
		{Name: "p", SignatureVerification: sv("strict"), TrustStores: []string{"ca:x"}, TrustedIdentities: []string{"*"}},
		{Name: "q", SignatureVerification: sv("permissive"), TrustStores: []string{"ca:y"}, TrustedIdentities: []string{"*"}},
	}
	if withFallback {
		sts = append(sts, trustpolicy.BlobTrustPolicy{Name: "g", GlobalPolicy: true, SignatureVerification: sv("audit"), TrustStores: []string{"ca:w"}, TrustedIdentities: []string{"*"}})
	}
	sts = append(sts[rot%len(sts):], sts[:rot%len(sts)]...)
	opts := validators
	opts.BlobTrustPolicy = &trustpolicy.BlobDocument{Version: "1.0", TrustPolicies: sts}
	v, err := NewVerifierWithOptions(store, opts)
	vr.Assert(err == nil, "harness: verifier")
	if err != nil {
		return
	}
	names := []string{"", "p", "q", "g", "r", "P", "p ", " ", "pq", "*"}
	k := vr.Choice("name", len(names))
	ws, wl := "", ""
	switch k {
	case 0, 3:
		if withFallback {
			ws, wl = "ca:w", "audit"
		}
	case 1:
		ws, wl = "ca:x", "strict"
	case 2:
		ws, wl = "ca:y", "permissive"
	}
	gen := func(a digest.Algorithm) (ocispec.Descriptor, error) { return desc, nil }
	outcome, verr := v.VerifyBlob(ctx, gen, []byte{1}, notation.BlobVerifierVerifyOptions{SignatureMediaType: kitJWS, TrustPolicyName: names[k]})
	if ws == "" {
		var na notation.ErrorNoApplicableTrustPolicy
		vr.Assert(verr != nil && errors.As(verr, &na) && outcome == nil && len(store.calls) == 0, "a name no statement carries (or no name without a global statement) is refused as 'no applicable trust policy', without an outcome and without consulting a trust store")
		vr.Reach("blob refused")
		return
	}
	vr.Assert(verr == nil && outcome != nil && outcome.VerificationLevel != nil && outcome.VerificationLevel.Name == wl, "VerifyBlob applies the statement with exactly the requested name, or the global statement when no name is given")
	for _, c := range store.calls {
		vr.Assert(c == ws, "VerifyBlob consults the trust stores of that statement, and no other")
	}
	vr.Assert(len(store.calls) > 0, "harness: a trust store was consulted")
	vr.Reach("blob applied")
}

func init() { vsymHarnesses["VsymC08Route"] = VsymC08Route }
