//go:build verif

package trustpolicy

import (
	"strings"

	vr "github.com/notaryproject/notation-go/internal/zzvr"
)

func c08Scope(tag string, capacity int) string {
	// scope alphabet: lower-case letters, digit, separators that matter for near misses
	return vr.StrIn(tag, capacity, "a-c0-1/.:A-B@*_-")
}

// VsymC08OCI: statement selection for OCI references against the structural oracle.
func VsymC08OCI() {
	S := vr.Choice("statements", vr.Param("S", 2)) + 1
	capacity := vr.Param("cap", 5)
	wild := vr.Choice("wildcardStatement", S+1) - 1 // -1: none
	// a second wildcard statement: such a document must not validate (then the choice would depend on order)
	wild2 := -1
	if wild >= 0 && S >= 2 && vr.Choice("secondWildcard", 2) == 1 {
		wild2 = (wild + 1) % S
	}
	withOverride := vr.Choice("override", 2) == 1
	doc := &OCIDocument{Version: "1.0"}
	names := []string{"s0", "s1", "s2", "s3"}
	scopes := make([][]string, S)
	for i := 0; i < S; i++ {
		st := OCITrustPolicy{
			Name:                  names[i],
			SignatureVerification: SignatureVerification{VerificationLevel: "strict"},
			TrustStores:           []string{"ca:store" + names[i]},
			TrustedIdentities:     []string{"*"},
		}
		if withOverride {
			st.SignatureVerification.Override = map[ValidationType]ValidationAction{TypeExpiry: ActionLog}
		}
		if i == wild || i == wild2 {
			scopes[i] = []string{"*"}
		} else {
			n := vr.Choice("nscopes", vr.Param("scopesPer", 1)) + 1
			for j := 0; j < n; j++ {
				sc := c08Scope("scope", capacity)
				vr.Assume(sc != "*") // the wildcard statement is chosen explicitly
				scopes[i] = append(scopes[i], sc)
			}
		}
		st.RegistryScopes = append([]string(nil), scopes[i]...)
		doc.TrustPolicies = append(doc.TrustPolicies, st)
	}
	// the real validator is the validity predicate of documents
	vr.Assume(doc.Validate() == nil)
	vr.Assert(wild2 < 0, "a validated document has at most one wildcard statement (otherwise the statement applied depends on the order)")
	vr.Reach("valid document")

	repo := c08Scope("repo", capacity)
	var ref string
	withAt := vr.Choice("refShape", 2) == 0
	if withAt {
		dg := vr.StrIn("digest", 2, "a-b0-1:")
		ref = repo + "@" + dg
	} else {
		// no '@' anywhere: cannot be parsed
		vr.Assume(!strings.Contains(repo, "@"))
		ref = repo
	}

	got, err := doc.GetApplicableTrustPolicy(ref)

	// oracle: P = text before the last '@'
	if !withAt {
		vr.Assert(err != nil && got == nil, "reference without '@' is refused")
		vr.Reach("no at-sign")
		return
	}
	if validateRegistryScopeFormat(repo) != nil {
		vr.Assert(err != nil && got == nil, "invalid repository path is refused")
		vr.Reach("invalid path")
		return
	}
	exact := -1
	for i := 0; i < S; i++ {
		for _, sc := range scopes[i] {
			if i != wild && vr.Fork(sc == repo) {
				vr.Assert(exact == -1 || exact == i, "validated documents have unique scopes")
				exact = i
			}
		}
	}
	want := exact
	if want < 0 {
		want = wild
	}
	if want < 0 {
		vr.Assert(err != nil && got == nil, "no exact and no wildcard statement: refused")
		vr.Reach("no applicable")
		return
	}
	vr.Assert(err == nil && got != nil, "applicable statement exists: selected")
	if err != nil || got == nil {
		return
	}
	vr.Assert(got.Name == names[want], "the statement scoped exactly to the repository (else the wildcard statement) is applied")
	if exact >= 0 {
		vr.Reach("exact match")
		if wild >= 0 {
			vr.Reach("exact beats wildcard")
		}
	} else {
		vr.Reach("wildcard fallback")
	}

	// private copy: write through every mutable part of the result, select again, compare
	got.Name = "changed"
	got.TrustStores[0] = "ca:changed"
	got.TrustedIdentities[0] = "changed"
	got.RegistryScopes[0] = "changed/changed"
	got.SignatureVerification.VerificationLevel = "audit"
	if got.SignatureVerification.Override != nil {
		vr.FindingKey("clone-shares-override-map")
		got.SignatureVerification.Override[TypeRevocation] = ActionSkip
		got.SignatureVerification.Override[TypeExpiry] = ActionEnforce
	}
	again, err2 := doc.GetApplicableTrustPolicy(ref)
	vr.Assert(err2 == nil && again != nil, "second selection succeeds")
	if again == nil {
		return
	}
	vr.Assert(again.Name == names[want] && again.TrustStores[0] == "ca:store"+names[want] && again.TrustedIdentities[0] == "*" &&
		again.SignatureVerification.VerificationLevel == "strict", "later selection unaffected by changes to the returned statement (scalar/slice fields)")
	vr.Assert(len(again.RegistryScopes) == len(scopes[want]) && again.RegistryScopes[0] == scopes[want][0], "later selection unaffected (scopes)")
	if withOverride {
		ov := again.SignatureVerification.Override
		_, hasRev := ov[TypeRevocation]
		vr.Assert(len(ov) == 1 && ov[TypeExpiry] == ActionLog && !hasRev, "later selection unaffected by changes to the returned statement's override map")
		dov := doc.TrustPolicies[want].SignatureVerification.Override
		vr.Assert(len(dov) == 1 && dov[TypeExpiry] == ActionLog, "document's override map unchanged")
		vr.Reach("override copy checked")
	}
	vr.FindingKey("")
}

// VsymC08Blob: blob statement selection by exact name / global flag, private copies.
func VsymC08Blob() {
	S := vr.Choice("statements", vr.Param("S", 2)) + 1
	global := vr.Choice("globalStatement", S+1) - 1
	withOverride := vr.Choice("override", 2) == 1
	doc := &BlobDocument{Version: "1.0"}
	names := make([]string, S)
	for i := 0; i < S; i++ {
		names[i] = vr.StrIn("name", 2, "\x00-\x7f")
		st := BlobTrustPolicy{
			Name:                  names[i],
			SignatureVerification: SignatureVerification{VerificationLevel: "strict"},
			TrustStores:           []string{"ca:store"},
			TrustedIdentities:     []string{"*"},
			GlobalPolicy:          i == global,
		}
		if withOverride {
			st.SignatureVerification.Override = map[ValidationType]ValidationAction{TypeExpiry: ActionLog}
		}
		doc.TrustPolicies = append(doc.TrustPolicies, st)
	}
	vr.Assume(doc.Validate() == nil)
	vr.Reach("valid document")

	if vr.Choice("byName", 2) == 0 {
		got, err := doc.GetGlobalTrustPolicy()
		if global < 0 {
			vr.Assert(err != nil && got == nil, "no global statement: refused")
			vr.Reach("no global")
			return
		}
		vr.Assert(err == nil && got != nil && got.Name == names[global] && got.GlobalPolicy, "the single global statement is applied when no name is given")
		vr.Reach("global")
		if got != nil && got.SignatureVerification.Override != nil {
			vr.FindingKey("clone-shares-override-map")
			got.SignatureVerification.Override[TypeRevocation] = ActionSkip
			again, _ := doc.GetGlobalTrustPolicy()
			_, hasRev := again.SignatureVerification.Override[TypeRevocation]
			vr.Assert(!hasRev, "later selection unaffected by changes to the returned statement's override map")
			vr.FindingKey("")
		}
		return
	}
	want := vr.StrIn("wanted", 2, "\x00-\x7f")
	got, err := doc.GetApplicableTrustPolicy(want)
	blank := true
	for i := 0; i < len(want); i++ {
		c := want[i]
		if !(c == ' ' || c == '\t' || c == '\n' || c == '\v' || c == '\f' || c == '\r') {
			blank = false
		}
	}
	idx := -1
	for i := 0; i < S; i++ {
		if idx < 0 && vr.Fork(names[i] == want) {
			idx = i
		}
	}
	if blank && idx < 0 {
		vr.Assert(err != nil && got == nil, "blank name: refused")
		vr.Reach("blank name")
		return
	}
	if idx < 0 {
		vr.Assert(err != nil && got == nil, "no statement with exactly the requested name: refused")
		vr.Reach("no such name")
		return
	}
	if blank {
		// a statement whose name is whitespace only is valid per the validator but can never be selected by name
		vr.Assert(err != nil, "blank name refused even if a statement carries it")
		return
	}
	vr.Assert(err == nil && got != nil && got.Name == want, "statement with exactly the requested name is applied")
	vr.Reach("by name")
	if got != nil {
		got.TrustStores[0] = "ca:changed"
		got.TrustedIdentities[0] = "changed"
		again, _ := doc.GetApplicableTrustPolicy(want)
		vr.Assert(again != nil && again.TrustStores[0] == "ca:store" && again.TrustedIdentities[0] == "*", "later selection unaffected by changes to the returned statement")
		if got.SignatureVerification.Override != nil {
			vr.FindingKey("clone-shares-override-map")
			got.SignatureVerification.Override[TypeRevocation] = ActionSkip
			again, _ := doc.GetApplicableTrustPolicy(want)
			_, hasRev := again.SignatureVerification.Override[TypeRevocation]
			vr.Assert(!hasRev, "later selection unaffected by changes to the returned statement's override map")
			vr.FindingKey("")
		}
	}
}
