//go:build verif

package trustpolicy

import (
	"testing"

	vr "github.com/notaryproject/notation-go/internal/zzvr"
)

func TestVsymReplay(t *testing.T) {
	if err := vr.ReplayMain(map[string]func(){
		"VsymC08OCI":  VsymC08OCI,
		"VsymC08Blob": VsymC08Blob,
	}); err != nil {
		t.Fatal(err)
	}
}
