//go:build verif

package verifier

import (
	"testing"

	vr "github.com/notaryproject/notation-go/internal/zzvr"
)

func TestVsymReplay(t *testing.T) {
	if err := vr.ReplayMain(map[string]func(){
		"VsymC05Final": VsymC05Final,
	}); err != nil {
		t.Fatal(err)
	}
}
