//go:build verif

package verifier

import (
	"context"
	"crypto/x509"
	"errors"
	"time"

	revocationresult "github.com/notaryproject/notation-core-go/revocation/result"
	"github.com/notaryproject/notation-core-go/signature"
	"github.com/notaryproject/notation-go"
	vr "github.com/notaryproject/notation-go/internal/zzvr"
	"github.com/notaryproject/notation-go/log"
	"github.com/notaryproject/notation-go/verifier/trustpolicy"
	ocispec "github.com/opencontainers/image-spec/specs-go/v1"
)

// VsymC05Final: revocationFinalResult over arbitrary result vectors.
func VsymC05Final() {
	maxN := vr.Param("n", 3)
	n := vr.Choice("n", maxN) + 1
	results := make([]*revocationresult.CertRevocationResult, n)
	chain := make([]*x509.Certificate, n)
	names := []string{"c0", "c1", "c2", "c3"}
	subjects := []string{"CN=c0", "CN=c1", "CN=c2", "CN=c3"}
	// one certificate of the chain may have an empty subject (legal X.509; it renders as "")
	emptyAt := vr.Choice("emptySubjectAt", n+1) - 1
	if emptyAt >= 0 {
		subjects[emptyAt] = ""
	}
	raw := make([]int64, n)
	for i := 0; i < n; i++ {
		raw[i] = vr.Int64("result")
		m := vr.Int("method", 0, 3)
		r := &revocationresult.CertRevocationResult{Result: revocationresult.Result(raw[i]), RevocationMethod: revocationresult.RevocationMethod(m)}
		ns := vr.Choice("nserver", vr.Param("servers", 1)+1)
		for j := 0; j < ns; j++ {
			sr := &revocationresult.ServerResult{Result: revocationresult.Result(vr.Int64("sresult")), RevocationMethod: revocationresult.RevocationMethod(vr.Int("smethod", 0, 3))}
			if vr.Bool("serr") {
				sr.Error = errors.New("server error")
			}
			r.ServerResults = append(r.ServerResults, sr)
		}
		results[i] = r
		c := &x509.Certificate{}
		if i != emptyAt {
			c.Subject.CommonName = names[i]
		}
		chain[i] = c
	}
	final, subject := revocationFinalResult(results, chain, log.Discard)

	allOK := true
	anyRevoked := false
	for i := 0; i < n; i++ {
		ok := vr.Or(raw[i] == int64(revocationresult.ResultOK), raw[i] == int64(revocationresult.ResultNonRevokable))
		allOK = vr.And(allOK, ok)
		anyRevoked = vr.Or(anyRevoked, raw[i] == int64(revocationresult.ResultRevoked))
	}
	vr.Assert(vr.Iff(final == revocationresult.ResultOK, allOK), "final OK iff every certificate OK or non-revokable")
	vr.Assert(vr.Implies(anyRevoked, final == revocationresult.ResultRevoked), "any revoked => final revoked")
	// the named subject is the subject of a revoked certificate
	named := false
	for i := 0; i < n; i++ {
		named = vr.Or(named, vr.And(raw[i] == int64(revocationresult.ResultRevoked), subject == subjects[i]))
	}
	vr.Assert(vr.Implies(anyRevoked, named), "revoked: names a revoked certificate")
	vr.Assert(vr.Implies(vr.Not(allOK), final != revocationresult.ResultOK), "not all ok => not OK")
	vr.Reach("done")
}

func init() { vsymHarnesses["VsymC05Final"] = VsymC05Final }

// VsymC05Options: what the revocation validator is consulted with - the complete chain of the signature, and
// the authentic signing time only for signing-authority signatures - through both validator interfaces and
// under every action of the revocation type.
func VsymC05Options() {
	kitEnv = kitEnvState{}
	kitInstallEnvelope()
	scheme := []signature.SigningScheme{signature.SigningSchemeX509, signature.SigningSchemeX509SigningAuthority}[vr.Choice("scheme", 2)]
	n := vr.Choice("chainLength", vr.Param("chain", 3)) + 1
	var chain []*x509.Certificate
	for i := 0; i < n; i++ {
		c := &x509.Certificate{Raw: []byte{'c', byte('0' + i)}}
		c.Subject.Country, c.Subject.Province, c.Subject.Organization = []string{"US"}, []string{"WA"}, []string{"a"}
		c.NotBefore, c.NotAfter = time.Unix(946684800, 0), time.Unix(4102444800, 0)
		chain = append(chain, c)
	}
	signingTime := time.Unix(1700000000, 0)
	kitEnv.content = &signature.EnvelopeContent{
		Payload: signature.Payload{ContentType: "application/vnd.cncf.notary.payload.v1+json", Content: vr.JSONBytes(vr.JObj("targetArtifact", vr.JObj("mediaType", vr.JStr("m"), "digest", vr.JStr("d"), "size", vr.JNum(1))))},
		SignerInfo: signature.SignerInfo{SignedAttributes: signature.SignedAttributes{SigningScheme: scheme, SigningTime: signingTime}, SignatureAlgorithm: signature.AlgorithmPS256, CertificateChain: chain, Signature: []byte("sig")},
	}
	storeKey := "ca:s"
	if scheme == signature.SigningSchemeX509SigningAuthority {
		storeKey = "signingAuthority:s"
	}
	store := &kitStore{answers: map[string]kitStoreAnswer{storeKey: {certs: []*x509.Certificate{chain[n-1]}}}}
	action := []trustpolicy.ValidationAction{trustpolicy.ActionEnforce, trustpolicy.ActionLog, trustpolicy.ActionSkip}[vr.Choice("revocationAction", 3)]
	level := "strict"
	ov := map[trustpolicy.ValidationType]trustpolicy.ValidationAction{trustpolicy.TypeRevocation: action}
	opts := VerifierOptions{OCITrustPolicy: kitOCIDoc(level, ov, []string{storeKey}, []string{"*"}), RevocationTimestampingValidator: &kitValidator{}}
	val := &kitValidator{results: kitOKResults(n)}
	cli := &kitClient{kitValidator: kitValidator{results: kitOKResults(n)}}
	useClient := vr.Choice("validatorInterface", 2) == 1
	if useClient {
		opts.RevocationClient = cli
		val = &cli.kitValidator
	} else {
		opts.RevocationCodeSigningValidator = val
	}
	// the validator's verdict on one certificate, to see it arrive in the outcome
	bad := vr.Choice("reportedRevoked", n+2) - 1
	valErr := bad == n // the validator itself fails
	if valErr {
		val.err = true
	} else if bad >= 0 {
		val.results[bad].Result = revocationresult.ResultRevoked
	}
	var v notation.Verifier
	var err error
	if vr.Choice("constructor", 2) == 1 {
		// the deprecated constructor takes the document and the plugin manager as arguments
		doc := opts.OCITrustPolicy
		opts.OCITrustPolicy = nil
		v, err = NewWithOptions(doc, store, nil, opts)
	} else {
		v, err = NewVerifierWithOptions(store, opts)
	}
	vr.Assert(err == nil, "harness: verifier")
	if err != nil {
		return
	}
	outcome, verr := v.Verify(context.Background(), ocispec.Descriptor{MediaType: "m", Digest: "d", Size: 1}, []byte{1}, notation.VerifierVerifyOptions{ArtifactReference: kitRef, SignatureMediaType: kitJWS})
	if action == trustpolicy.ActionSkip {
		vr.Assert(val.calls == 0, "revocation skipped by the level: the validator is not consulted")
		vr.Assert(verr == nil, "nothing else fails")
		vr.Reach("revocation skipped")
		return
	}
	vr.Assert(val.calls == 1, "the validator the caller supplied is consulted once")
	same := len(val.chain) == n
	for i := 0; i < n && i < len(val.chain); i++ {
		same = same && val.chain[i] == chain[i]
	}
	vr.Assert(same, "the validator is consulted with the complete chain of the signature")
	if scheme == signature.SigningSchemeX509SigningAuthority {
		vr.Assert(val.time.Equal(signingTime), "signing-authority signature: the validator receives the authentic signing time")
		vr.Reach("signing authority")
	} else {
		vr.Assert(val.time.IsZero(), "notary.x509 signature: the validator receives no signing time")
		vr.Reach("notary.x509")
	}
	wantFail := bad >= 0 && action == trustpolicy.ActionEnforce
	vr.Assert((verr != nil) == wantFail, "a revoked certificate anywhere in the chain fails an enforced revocation validation, and only that")
	var rev *notation.ValidationResult
	for _, r := range outcome.VerificationResults {
		if r.Type == trustpolicy.TypeRevocation {
			rev = r
		}
	}
	vr.Assert(rev != nil && (rev.Error != nil) == (bad >= 0), "the revocation result reports the validator's verdict")
	if useClient {
		vr.Reach("deprecated client")
	} else {
		vr.Reach("context-aware validator")
	}
}

func init() { vsymHarnesses["VsymC05Options"] = VsymC05Options }
