//go:build verif

package verifier

import (
	"crypto/x509"
	"errors"

	revocationresult "github.com/notaryproject/notation-core-go/revocation/result"
	vr "github.com/notaryproject/notation-go/internal/zzvr"
	"github.com/notaryproject/notation-go/log"
)

// VsymC05Final: revocationFinalResult over arbitrary result vectors.
func VsymC05Final() {
	maxN := vr.Param("n", 3)
	n := vr.Choice("n", maxN) + 1
	results := make([]*revocationresult.CertRevocationResult, n)
	chain := make([]*x509.Certificate, n)
	names := []string{"c0", "c1", "c2", "c3"}
	subjects := []string{"CN=c0", "CN=c1", "CN=c2", "CN=c3"}
	raw := make([]int64, n)
	for i := 0; i < n; i++ {
		raw[i] = vr.Int64("result")
		m := vr.Int("method", 0, 3)
		r := &revocationresult.CertRevocationResult{Result: revocationresult.Result(raw[i]), RevocationMethod: revocationresult.RevocationMethod(m)}
		ns := vr.Choice("nserver", vr.Param("servers", 1)+1)
		for j := 0; j < ns; j++ {
			sr := &revocationresult.ServerResult{Result: revocationresult.Result(vr.Int64("sresult")), RevocationMethod: revocationresult.RevocationMethod(vr.Int("smethod", 0, 3))}
			if vr.Bool("serr") {
				sr.Error = errors.New("server error")
			}
			r.ServerResults = append(r.ServerResults, sr)
		}
		results[i] = r
		c := &x509.Certificate{}
		c.Subject.CommonName = names[i]
		chain[i] = c
	}
	final, subject := revocationFinalResult(results, chain, log.Discard)

	allOK := true
	anyRevoked := false
	for i := 0; i < n; i++ {
		ok := vr.Or(raw[i] == int64(revocationresult.ResultOK), raw[i] == int64(revocationresult.ResultNonRevokable))
		allOK = vr.And(allOK, ok)
		anyRevoked = vr.Or(anyRevoked, raw[i] == int64(revocationresult.ResultRevoked))
	}
	vr.Assert(vr.Iff(final == revocationresult.ResultOK, allOK), "final OK iff every certificate OK or non-revokable")
	vr.Assert(vr.Implies(anyRevoked, final == revocationresult.ResultRevoked), "any revoked => final revoked")
	// the named subject is the subject of a revoked certificate
	named := false
	for i := 0; i < n; i++ {
		named = vr.Or(named, vr.And(raw[i] == int64(revocationresult.ResultRevoked), subject == subjects[i]))
	}
	vr.Assert(vr.Implies(anyRevoked, named), "revoked: names a revoked certificate")
	vr.Assert(vr.Implies(vr.Not(allOK), final != revocationresult.ResultOK), "not all ok => not OK")
	vr.Reach("done")
}
