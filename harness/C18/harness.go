//go:build verif

package signer

// C18: the plugin signer never returns plugin output it has not checked against the request.

import (
	"context"
	"errors"

	"github.com/notaryproject/notation-core-go/signature"
	"github.com/notaryproject/notation-go"
	"github.com/notaryproject/notation-go/internal/zzvr/envkit"
	vr "github.com/notaryproject/notation-go/internal/zzvr"
	"github.com/notaryproject/notation-plugin-framework-go/plugin"
	"github.com/opencontainers/go-digest"
	ocispec "github.com/opencontainers/image-spec/specs-go/v1"
)

const (
	c18PayloadType = "application/vnd.cncf.notary.payload.v1+json"
	c18MT          = "application/vnd.oci.image.manifest.v1+json"
	c18DigestA     = "sha256:aaaaaaaaaaaaaaaaaaaaaaaaaaaaaaaaaaaaaaaaaaaaaaaaaaaaaaaaaaaaaaaa"
	c18DigestB     = "sha256:bbbbbbbbbbbbbbbbbbbbbbbbbbbbbbbbbbbbbbbbbbbbbbbbbbbbbbbbbbbbbbbb"
	c18KeyID       = "key-1"
)

// c18Plugin is a scripted plugin.SignPlugin.
type c18Plugin struct {
	metaErr  bool
	meta     plugin.GetMetadataResponse
	descErr  bool
	descResp plugin.DescribeKeyResponse
	sigErr   bool
	sigResp  plugin.GenerateSignatureResponse
	envErr   bool
	envResp  plugin.GenerateEnvelopeResponse

	descReqs []*plugin.DescribeKeyRequest
	sigReqs  []*plugin.GenerateSignatureRequest
	envReqs  []*plugin.GenerateEnvelopeRequest
}

func (p *c18Plugin) GetMetadata(ctx context.Context, req *plugin.GetMetadataRequest) (*plugin.GetMetadataResponse, error) {
	if p.metaErr {
		return nil, errors.New("metadata failed")
	}
	m := p.meta
	return &m, nil
}

func (p *c18Plugin) DescribeKey(ctx context.Context, req *plugin.DescribeKeyRequest) (*plugin.DescribeKeyResponse, error) {
	p.descReqs = append(p.descReqs, req)
	if p.descErr {
		return nil, errors.New("describe-key failed")
	}
	r := p.descResp
	return &r, nil
}

func (p *c18Plugin) GenerateSignature(ctx context.Context, req *plugin.GenerateSignatureRequest) (*plugin.GenerateSignatureResponse, error) {
	p.sigReqs = append(p.sigReqs, req)
	if p.sigErr {
		return nil, errors.New("generate-signature failed")
	}
	r := p.sigResp
	return &r, nil
}

func (p *c18Plugin) GenerateEnvelope(ctx context.Context, req *plugin.GenerateEnvelopeRequest) (*plugin.GenerateEnvelopeResponse, error) {
	p.envReqs = append(p.envReqs, req)
	if p.envErr {
		return nil, errors.New("generate-envelope failed")
	}
	r := p.envResp
	return &r, nil
}

func (p *c18Plugin) VerifySignature(ctx context.Context, req *plugin.VerifySignatureRequest) (*plugin.VerifySignatureResponse, error) {
	return nil, errors.New("not a verification plugin")
}

// c18Request draws the descriptor to sign: fixed media type and digest, free size, <= maxAnn annotations
// with fixed keys and symbolic values.
func c18Request(maxAnn int) ocispec.Descriptor {
	d := ocispec.Descriptor{MediaType: c18MT, Digest: digest.Digest(c18DigestA), Size: vr.Int64("req.size")}
	n := vr.Choice("req.annotations", maxAnn+2) - 1 // -1: nil map
	if n >= 0 {
		d.Annotations = map[string]string{}
		keys := []string{"k0", "k1", "k2"}
		for i := 0; i < n; i++ {
			d.Annotations[keys[i]] = vr.StrIn("req.annVal", 1, "a-b")
		}
	}
	// fields the payload must not carry
	d.URLs = []string{"https://example.com/x"}
	d.ArtifactType = "application/vnd.example"
	return d
}

// c18Doc is the signed payload a plugin put into its envelope, as deviations from the canonical rendering
// of the request.
type c18Doc struct {
	topKind  int // 0 object holding the target, 1 target null, 2 target a string, 3 array, 4 not JSON
	taKey    string
	preKey   string // a member before the target: "" none
	preKind  int    // 1 null, 2 another descriptor
	postKey  string // a member after the target: "" none
	postKind int    // 1 another descriptor, 2 a number
	mtKey    string
	mtVal    string
	mtDrop   bool
	dgKey    string
	dgVal    string
	dgDrop   bool
	szKey    string
	szSym    bool
	szDrop   bool
	anKey    string
	anKind   int // 0 as the request (object iff it has annotations), 1 null, 2 wrong kind, 3 absent, 4 empty object
	annDrop0 bool
	annSym0  bool
	annAdd   bool
	exKey    string // an extra descriptor member: "" none
	exKind   int    // 1 list of strings, 2 string, 3 number
	exKnown  bool   // the extra member is a field of the OCI descriptor type, spelled exactly
	trailing bool   // the document is followed by further bytes (e.g. a second document)
}

const c18Deviations = 47

// c18Deviate applies deviation k (0 = none).
func (d *c18Doc) deviate(k int) {
	switch k {
	case 1:
		d.taKey = "TargetArtifact"
	case 2:
		d.taKey = "targetartifact"
	case 3:
		d.taKey = "TARGETARTIFACT"
	case 4:
		d.taKey = "targetArtifactX"
	case 5:
		d.taKey = "other"
	case 6:
		d.postKey, d.postKind = vr.StrIn("topExtra", 2, "a-b"), 2
	case 7:
		d.preKey, d.preKind = "TargetArtifact", 1
	case 8:
		d.preKey, d.preKind, d.taKey = "targetArtifact", 1, "TargetArtifact"
	case 9:
		d.postKey, d.postKind = "TargetArtifact", 1
	case 10:
		d.preKey, d.preKind = "TargetArtifact", 2
	case 11:
		d.preKey, d.preKind, d.taKey = "targetArtifact", 2, "TargetArtifact"
	case 12:
		d.topKind = 1
	case 13:
		d.topKind = 2
	case 14:
		d.topKind = 3
	case 15:
		d.topKind = 4
	case 16:
		d.mtKey = "MediaType"
	case 17:
		d.mtKey = "mediatype"
	case 18:
		d.mtVal = "application/other"
	case 19:
		d.mtDrop = true
	case 20:
		d.dgKey = "Digest"
	case 21:
		d.dgKey = "DIGEST"
	case 22:
		d.dgVal = c18DigestB
	case 23:
		d.dgVal = "xyz"
	case 24:
		d.dgDrop = true
	case 25:
		d.szKey = "Size"
	case 26:
		d.szSym = true
	case 27:
		d.szDrop = true
	case 28:
		d.anKey = "Annotations"
	case 29:
		d.anKind = 1
	case 30:
		d.anKind = 2
	case 31:
		d.anKind = 3
	case 32:
		d.anKind = 4
	case 33:
		d.annDrop0 = true
	case 34:
		d.annSym0 = true
	case 35:
		d.annAdd = true
	case 36:
		d.exKey, d.exKind, d.exKnown = "urls", 1, true
	case 37:
		d.exKey, d.exKind, d.exKnown = "artifactType", 2, true
	case 38:
		d.exKey, d.exKind, d.exKnown = "data", 2, true
	case 39:
		d.exKey, d.exKind = "extra", 3
	case 40:
		d.exKey, d.exKind = "Urls", 1
	case 41:
		d.exKey, d.exKind = "ArtifactType", 2
	case 42:
		d.exKey, d.exKind = "e", 2
	case 43:
		d.exKey, d.exKind = "annotations ", 3
	case 44:
		d.exKey, d.exKind = "targetArtifact", 3
	case 45:
		d.postKey, d.postKind = "mediaType", 2
	case 46:
		d.trailing = true
	}
}

// render builds the document and the condition under which it is an acceptable rendering of req.
// dontCare: the document adds a known descriptor field (urls, artifactType, data) - the property's wording
// ("no unknown fields") leaves these open, so acceptance is not asserted either way.
func (d *c18Doc) render(req ocispec.Descriptor) (doc vr.J, ok bool, dontCare bool) {
	switch d.topKind {
	case 3:
		return vr.JArr(), false, false
	case 4:
		return vr.JBad(), false, false
	}
	other := vr.JObj("mediaType", vr.JStr(c18MT), "digest", vr.JStr(c18DigestB), "size", vr.JNum(req.Size))
	var top []any
	if d.preKey != "" {
		if d.preKind == 1 {
			top = append(top, d.preKey, vr.JNull())
		} else {
			top = append(top, d.preKey, other)
		}
	}
	ok = d.topKind == 0 && d.taKey == "targetArtifact" && d.preKey == "" && d.postKey == ""
	var target vr.J
	switch d.topKind {
	case 1:
		target = vr.JNull()
	case 2:
		target = vr.JStr("x")
	default:
		var kv []any
		if !d.mtDrop {
			kv = append(kv, d.mtKey, vr.JStr(d.mtVal))
		}
		ok = ok && !d.mtDrop && d.mtKey == "mediaType" && d.mtVal == c18MT
		if !d.dgDrop {
			kv = append(kv, d.dgKey, vr.JStr(d.dgVal))
		}
		ok = ok && !d.dgDrop && d.dgKey == "digest" && d.dgVal == c18DigestA
		if d.szDrop {
			// an absent size reads as zero
			ok = vr.And(ok, req.Size == 0)
		} else {
			sz := req.Size
			if d.szSym {
				sz = vr.Int64("signed.size")
			}
			kv = append(kv, d.szKey, vr.JNum(sz))
			ok = vr.And(ok, d.szKey == "size", sz == req.Size)
		}
		kind := d.anKind
		if kind == 0 && len(req.Annotations) == 0 && !d.annAdd {
			kind = 3
		}
		switch kind {
		case 0:
			var pairs []any
			first := true
			for _, k := range []string{"k0", "k1", "k2"} {
				orig, has := req.Annotations[k]
				if !has {
					continue
				}
				if first && d.annDrop0 {
					ok = false
				} else if first && d.annSym0 {
					v := vr.StrIn("signed.annVal", 1, "a-b")
					pairs = append(pairs, k, vr.JStr(v))
					ok = vr.And(ok, v == orig)
				} else {
					pairs = append(pairs, k, vr.JStr(orig))
				}
				first = false
			}
			if d.annAdd {
				pairs = append(pairs, "added", vr.JStr("x"))
			}
			kv = append(kv, d.anKey, vr.JObj(pairs...))
			ok = ok && d.anKey == "annotations"
		case 1:
			kv = append(kv, d.anKey, vr.JNull())
			ok = ok && d.anKey == "annotations" && len(req.Annotations) == 0
		case 2:
			kv = append(kv, d.anKey, vr.JStr("x"))
			ok = false
		case 3:
			ok = ok && len(req.Annotations) == 0
		default:
			kv = append(kv, d.anKey, vr.JObj())
			ok = ok && d.anKey == "annotations" && len(req.Annotations) == 0
		}
		if d.exKey != "" {
			switch d.exKind {
			case 1:
				kv = append(kv, d.exKey, vr.JArr(vr.JStr("https://example.com/x")))
			case 2:
				kv = append(kv, d.exKey, vr.JStr("dGVzdA=="))
			default:
				kv = append(kv, d.exKey, vr.JNum(1))
			}
			if d.exKnown {
				dontCare = true
			} else {
				ok = false
			}
		}
		target = vr.JObj(kv...)
	}
	top = append(top, d.taKey, target)
	if d.postKey != "" {
		if d.postKind == 1 {
			top = append(top, d.postKey, other)
		} else {
			top = append(top, d.postKey, vr.JNum(1))
		}
	}
	if d.trailing {
		return vr.JTrailing(vr.JObj(top...)), false, false
	}
	return vr.JObj(top...), ok, dontCare
}

// VsymC18Envelope: envelope-generator plugins.
func VsymC18Envelope() {
	envkit.Reset()
	envkit.Install()
	maxAnn := vr.Param("annotations", 1)
	pl := &c18Plugin{}
	pl.meta = plugin.GetMetadataResponse{Name: "foo", Version: "1.0.0", Capabilities: []plugin.Capability{plugin.CapabilityEnvelopeGenerator}}
	useBlob := vr.Choice("api", 2) == 1
	reqType := vr.OneOf("requestedType", envkit.JWS, envkit.COSE)
	desc := c18Request(maxAnn)
	pl.descResp = plugin.DescribeKeyResponse{KeyID: c18KeyID, KeySpec: plugin.KeySpecEC256}
	envTok := vr.Token("envelope")
	pl.envResp = plugin.GenerateEnvelopeResponse{SignatureEnvelope: envTok, SignatureEnvelopeType: vr.OneOf("echoedType", envkit.JWS, envkit.COSE, "application/other")}
	content := &signature.EnvelopeContent{}
	content.SignerInfo.SignedAttributes.SigningScheme = signature.SigningSchemeX509
	envkit.Env.Content = content

	// every later answer is drawn only if the earlier ones let the signer get that far
	stage := vr.Choice("firstFailure", 5) // 0 none, 1 metadata error, 2 generate-envelope error, 3 parse error, 4 verify error
	switch stage {
	case 1:
		pl.metaErr = true
	case 2:
		pl.envErr = true
	case 3:
		envkit.Env.ParseErr = true
	case 4:
		envkit.Env.VerifyErr = 2 + vr.Choice("verifyError", 2)
	}
	payloadOK, dontCare := true, false
	if stage == 0 {
		if vr.Choice("respAnnotations", 2) == 1 {
			pl.envResp.Annotations = map[string]string{"m": "v"}
		}
		content.Payload.ContentType = vr.OneOf("payloadType", c18PayloadType, "application/json", "", c18PayloadType+"; charset=utf-8", c18PayloadType+";version=2", "Application/Vnd.CNCF.Notary.Payload.V1+JSON", c18PayloadType+" ")
		d := &c18Doc{taKey: "targetArtifact", mtKey: "mediaType", mtVal: c18MT, dgKey: "digest", dgVal: c18DigestA, szKey: "size", anKey: "annotations"}
		dev1 := vr.Choice("deviation", c18Deviations)
		d.deviate(dev1)
		if dev1 != 0 && vr.Param("deviations", 2) >= 2 {
			d.deviate(vr.Choice("deviation2", c18Deviations))
		}
		var doc vr.J
		var ok bool
		doc, ok, dontCare = d.render(desc)
		payloadOK = vr.And(content.Payload.ContentType == c18PayloadType, ok)
		content.Payload.Content = vr.JSONBytes(doc)
		if d.taKey != "targetArtifact" || d.preKey != "" {
			vr.FindingKey("payload-target-key-misspelled-or-null")
		}
	}

	// the signer carries a plugin configuration of its own; the caller's overrides one entry of it
	signerCfg := map[string]string{"region": "r", "profile": "default"}
	callerCfg := map[string]string{"profile": "hotfix"}
	s, err := NewPluginSigner(pl, c18KeyID, signerCfg)
	if err != nil {
		panic("NewPluginSigner: " + err.Error())
	}
	opts := notation.SignerSignOptions{SignatureMediaType: reqType, PluginConfig: callerCfg}
	defer func() {
		vr.Assert(len(callerCfg) == 1 && callerCfg["profile"] == "hotfix", "signing leaves the caller's plugin configuration map as it was")
		vr.Assert(len(signerCfg) == 2 && signerCfg["region"] == "r" && signerCfg["profile"] == "default", "signing leaves the signer's own plugin configuration as it was")
	}()
	var sig []byte
	var info *signature.SignerInfo
	var genAlg digest.Algorithm
	if useBlob {
		sig, info, err = s.SignBlob(context.Background(), func(a digest.Algorithm) (ocispec.Descriptor, error) {
			genAlg = a
			return desc, nil
		}, opts)
	} else {
		sig, info, err = s.Sign(context.Background(), desc, opts)
	}
	vr.FindingKey("")
	vr.Note("err=" + c18Bool(err != nil))
	if err != nil {
		vr.Assert(sig == nil && info == nil, "an error comes without signature and signer info")
		vr.Reach("rejected")
	}
	want := vr.And(stage == 0, pl.envResp.SignatureEnvelopeType == reqType, payloadOK)
	if dontCare {
		vr.Assert(vr.Implies(err == nil, vr.And(stage == 0, pl.envResp.SignatureEnvelopeType == reqType, content.Payload.ContentType == c18PayloadType)), "a signature is returned only if the envelope is of the requested format, verifies and carries the Notary payload type")
	} else {
		vr.Assert(vr.Implies(err == nil, want), "a signature is returned only if the envelope is of the requested format, verifies, carries the Notary payload type and its target equals the request with every original annotation intact and no unknown or misspelled field")
		vr.Assert(vr.Implies(want, err == nil), "a well-formed plugin answer is accepted")
	}
	if err != nil {
		return
	}
	vr.Reach("accepted")
	vr.Assert(len(pl.envReqs) == 1 && len(pl.sigReqs) == 0, "one generate-envelope call")
	vr.Assert(string(sig) == string(envTok), "the returned signature is the plugin's envelope")
	vr.Assert(envkit.Env.ParseCalls == 1 && string(envkit.Env.ParsedBytes[0]) == string(envTok) && envkit.Env.ParsedMedia[0] == reqType, "the plugin's envelope was parsed as the requested format")
	vr.Assert(len(envkit.Env.VerifiedOK) == 1 && envkit.Env.VerifyCalls == 1, "the plugin's envelope was verified")
	vr.Assert(info == &content.SignerInfo, "signer info is the verified envelope's")
	r := pl.envReqs[0]
	vr.Assert(len(r.PluginConfig) == 2 && r.PluginConfig["region"] == "r" && r.PluginConfig["profile"] == "hotfix", "the plugin receives the signer's configuration with the caller's entries on top")
	vr.Assert(r.KeyID == c18KeyID && r.SignatureEnvelopeType == reqType && r.PayloadType == c18PayloadType && r.ContractVersion == plugin.ContractVersion, "generate-envelope request carries key id, format and payload type")
	vr.Assert(vr.JSONEqual(r.Payload, c18WantPayload(desc)), "the payload handed to the plugin is the request reduced to media type, digest, size and annotations")
	vr.Assert(len(s.PluginAnnotations()) == len(pl.envResp.Annotations), "plugin annotations are the plugin's")
	if useBlob {
		vr.Assert(genAlg == digest.SHA256, "blob digest algorithm follows the key spec")
	}
}

func c18Bool(b bool) string {
	if b {
		return "true"
	}
	return "false"
}

func c18WantPayload(desc ocispec.Descriptor) vr.J {
	kv := []any{"mediaType", vr.JStr(desc.MediaType), "digest", vr.JStr(string(desc.Digest)), "size", vr.JNum(desc.Size)}
	if len(desc.Annotations) > 0 {
		var pairs []any
		for _, k := range []string{"k0", "k1", "k2"} {
			if v, ok := desc.Annotations[k]; ok {
				pairs = append(pairs, k, vr.JStr(v))
			}
		}
		kv = append(kv, "annotations", vr.JObj(pairs...))
	}
	return vr.JObj("targetArtifact", vr.JObj(kv...))
}

var c18KeySpecs = []string{"RSA-2048", "RSA-3072", "RSA-4096", "EC-256", "EC-384", "EC-521", "RSA-1024", "EC-255", "", "rsa-2048"}
var c18Hashes = []string{"SHA-256", "SHA-384", "SHA-512", "SHA-256", "SHA-384", "SHA-512"}

// VsymC18Raw: signature-generator (raw signature) plugins.
func VsymC18Raw() {
	envkit.Reset()
	envkit.Install()
	pl := &c18Plugin{}
	caps := []plugin.Capability{plugin.CapabilitySignatureGenerator}
	if vr.Choice("alsoEnvelopeCapability", 2) == 1 {
		caps = append(caps, plugin.CapabilityEnvelopeGenerator)
	}
	pl.meta = plugin.GetMetadataResponse{Name: "foo", Version: "1.0.0", Capabilities: caps}
	reqType := vr.OneOf("requestedType", envkit.JWS, envkit.COSE)
	desc := c18Request(vr.Param("annotations", 1))
	ksIdx := vr.Choice("keySpec", len(c18KeySpecs))
	pl.descResp = plugin.DescribeKeyResponse{KeyID: vr.OneOf("describedKeyID", c18KeyID, "key-2", ""), KeySpec: plugin.KeySpec(c18KeySpecs[ksIdx])}
	pl.sigResp = plugin.GenerateSignatureResponse{KeyID: vr.OneOf("signedKeyID", c18KeyID, "key-2", "")}
	stage := vr.Choice("firstFailure", 6) // 0 none, 1 metadata, 2 describe-key, 3 generate-signature, 4 envelope rejects the signer's answer, 5 self-verification fails
	switch stage {
	case 1:
		pl.metaErr = true
	case 2:
		pl.descErr = true
	case 3:
		pl.sigErr = true
	case 4:
		envkit.Env.SignInconsistent = true
	case 5:
		envkit.Env.VerifyAfterSign = 2 + vr.Choice("verifyError", 2)
	}
	chainOK := true
	nChain := 1
	if stage == 0 || stage >= 4 {
		nChain = vr.Choice("chainLength", 3)
		var prev [][]byte
		for i := 0; i < nChain; i++ {
			parses := vr.Choice("certParses", 2) == 1
			b := envkit.CertBlob("cert", parses)
			for _, p := range prev {
				vr.Assume(string(p) != string(b))
			}
			prev = append(prev, b)
			pl.sigResp.CertificateChain = append(pl.sigResp.CertificateChain, b)
			chainOK = chainOK && parses
		}
		chainOK = chainOK && nChain > 0
		if vr.Choice("signaturePresent", 2) == 1 {
			pl.sigResp.Signature = vr.Token("rawSignature")
		}
	}
	signerCfg := map[string]string{"region": "r", "profile": "default"}
	callerCfg := map[string]string{"profile": "hotfix"}
	s, err := NewPluginSigner(pl, c18KeyID, signerCfg)
	if err != nil {
		panic("NewPluginSigner: " + err.Error())
	}
	defer func() {
		vr.Assert(len(callerCfg) == 1 && callerCfg["profile"] == "hotfix", "signing leaves the caller's plugin configuration map as it was")
		vr.Assert(len(signerCfg) == 2 && signerCfg["region"] == "r" && signerCfg["profile"] == "default", "signing leaves the signer's own plugin configuration as it was")
	}()
	sig, info, err := s.Sign(context.Background(), desc, notation.SignerSignOptions{SignatureMediaType: reqType, PluginConfig: callerCfg})
	vr.Note("err=" + c18Bool(err != nil))
	if err != nil {
		vr.Assert(sig == nil && info == nil, "an error comes without signature and signer info")
		vr.Reach("rejected")
	}
	want := vr.And(stage == 0, pl.descResp.KeyID == c18KeyID, ksIdx < 6, pl.sigResp.KeyID == c18KeyID, chainOK, len(pl.sigResp.Signature) > 0)
	vr.Assert(vr.Implies(err == nil, want), "a signature is returned only if the plugin answered for the requested key id with a decodable key spec, a parseable non-empty chain and a signature the envelope accepted and that verified")
	vr.Assert(vr.Implies(want, err == nil), "a well-formed plugin answer is accepted")
	if err != nil {
		return
	}
	vr.Reach("accepted")
	vr.Assert(len(pl.envReqs) == 0 && len(pl.sigReqs) == 1 && len(pl.descReqs) == 1, "one describe-key and one generate-signature call, no generate-envelope call")
	vr.Assert(pl.descReqs[0].KeyID == c18KeyID, "describe-key asked for the requested key")
	r := pl.sigReqs[0]
	vr.Assert(len(r.PluginConfig) == 2 && r.PluginConfig["region"] == "r" && r.PluginConfig["profile"] == "hotfix" && len(pl.descReqs[0].PluginConfig) == 2 && pl.descReqs[0].PluginConfig["profile"] == "hotfix", "the plugin receives the signer's configuration with the caller's entries on top")
	vr.Assert(r.KeyID == c18KeyID && string(r.KeySpec) == c18KeySpecs[ksIdx] && string(r.Hash) == c18Hashes[ksIdx] && r.ContractVersion == plugin.ContractVersion, "generate-signature request carries the key id, the described key spec and the hash bound to it")
	vr.Assert(string(r.Payload) == string(envkit.Env.ToBeSigned), "the plugin signs what the envelope asked to be signed")
	vr.Assert(envkit.Env.NewCalls == 1 && envkit.Env.NewMedia[0] == reqType, "the envelope is of the requested format")
	vr.Assert(string(sig) == string(envkit.Env.SignedRaw)+"0", "the returned signature is the envelope that was built")
	vr.Assert(len(envkit.Env.VerifiedOK) == 1 && envkit.Env.VerifiedOK[0].Signed, "the built envelope was verified before it was returned")
	q := envkit.Env.Req
	vr.Assert(q != nil && q.Payload.ContentType == c18PayloadType && vr.JSONEqual(q.Payload.Content, c18WantPayload(desc)), "the signed payload is the Notary payload of the request")
	vr.Assert(q.SigningScheme == signature.SigningSchemeX509 && q.Expiry.IsZero(), "scheme and expiry of the sign request")
	vr.Assert(len(envkit.Env.SignerChain) == nChain && string(envkit.Env.SignerSig) == string(pl.sigResp.Signature), "the envelope received the plugin's signature and chain")
}

// VsymC18Sequence: one PluginSigner used for several signings. What the plugin answers to describe-key is drawn
// anew for every signing (the key behind a key id may be rotated, a plugin may answer for another key): every
// signing is judged on the answers given to it - a refusal is not forgotten on the retry, and the key spec and
// hash sent to generate-signature are those of the key as described now.
func VsymC18Sequence() {
	envkit.Reset()
	envkit.Install()
	pl := &c18Plugin{}
	pl.meta = plugin.GetMetadataResponse{Name: "foo", Version: "1.0.0", Capabilities: []plugin.Capability{plugin.CapabilitySignatureGenerator}}
	reqType := vr.OneOf("requestedType", envkit.JWS, envkit.COSE)
	desc := ocispec.Descriptor{MediaType: c18MT, Digest: c18DigestA, Size: 7}
	pl.sigResp = plugin.GenerateSignatureResponse{KeyID: c18KeyID, Signature: vr.Token("rawSignature"), CertificateChain: [][]byte{envkit.CertBlob("cert", true)}}
	s, err := NewPluginSigner(pl, c18KeyID, nil)
	if err != nil {
		panic("NewPluginSigner: " + err.Error())
	}
	specs := []int{0, 4, 8} // RSA-2048, EC-384, an undecodable key spec
	n := vr.Param("signings", 2)
	for i := 0; i < n; i++ {
		ksIdx := specs[vr.Choice("keySpecNow", len(specs))]
		keyID := []string{c18KeyID, "key-2", ""}[vr.Choice("describedKeyIDNow", 3)]
		pl.descResp = plugin.DescribeKeyResponse{KeyID: keyID, KeySpec: plugin.KeySpec(c18KeySpecs[ksIdx])}
		before := len(pl.sigReqs)
		sig, info, err := s.Sign(context.Background(), desc, notation.SignerSignOptions{SignatureMediaType: reqType})
		want := keyID == c18KeyID && ksIdx < 6
		vr.Assert((err == nil) == want, "every signing through the same signer succeeds iff the plugin answers describe-key for the requested key id with a decodable key spec - whatever it answered to earlier signings")
		if err != nil {
			vr.Assert(sig == nil && info == nil, "an error comes without signature and signer info")
			vr.Reach("refused in a sequence")
			continue
		}
		if !want {
			return
		}
		vr.Assert(len(pl.sigReqs) == before+1, "one generate-signature call per signing")
		r := pl.sigReqs[len(pl.sigReqs)-1]
		vr.Assert(r.KeyID == c18KeyID && string(r.KeySpec) == c18KeySpecs[ksIdx] && string(r.Hash) == c18Hashes[ksIdx], "generate-signature is asked with the key spec and hash of the key as the plugin describes it for this signing")
		if i > 0 {
			vr.Reach("signed again through the same signer")
		}
	}
}

func init() {
	vsymHarnesses["VsymC18Sequence"] = VsymC18Sequence
	vsymHarnesses["VsymC18Envelope"] = VsymC18Envelope
	vsymHarnesses["VsymC18Raw"] = VsymC18Raw
}
