//go:build verif

package verifier

// C16 through the verifier: the plugin name is taken from the verificationPlugin attribute of the signature
// being verified - before authenticity is evaluated - and handed to a real CLIManager.

import (
	"context"
	"crypto/x509"
	"strings"
	"time"

	"github.com/notaryproject/notation-core-go/signature"
	"github.com/notaryproject/notation-go"
	"github.com/notaryproject/notation-go/dir"
	vr "github.com/notaryproject/notation-go/internal/zzvr"
	"github.com/notaryproject/notation-go/plugin"
	ocispec "github.com/opencontainers/image-spec/specs-go/v1"
)

// VsymC16Verify: Verify with a signature-supplied plugin name over all bytes.
func VsymC16Verify() {
	if !vr.Symbolic() {
		vr.SkipNative()
	}
	kitEnv = kitEnvState{}
	kitInstallEnvelope()
	root := []string{"/r", "/r/p"}[vr.Choice("rootDepth", 2)]
	name := vr.StrIn("name", vr.Param("cap", 4), "\x00-\x7f") // every ASCII byte (TrimSpace on other bytes needs Unicode tables)
	restore := plugin.C16Begin(vr.Choice("exists", 2) == 1, false, name)
	defer restore()
	leaf := kitCert([]byte("leaf"), "leaf")
	leaf.NotBefore, leaf.NotAfter = time.Unix(946684800, 0), time.Unix(4102444800, 0)
	kitEnv.content = &signature.EnvelopeContent{
		Payload: signature.Payload{ContentType: "application/vnd.cncf.notary.payload.v1+json", Content: vr.JSONBytes(vr.JObj("targetArtifact", vr.JObj("mediaType", vr.JStr("m"), "digest", vr.JStr("d"), "size", vr.JNum(1))))},
		SignerInfo: signature.SignerInfo{SignedAttributes: signature.SignedAttributes{SigningScheme: signature.SigningSchemeX509, SigningTime: time.Unix(1700000000, 0),
			ExtendedAttributes: []signature.Attribute{{Key: HeaderVerificationPlugin, Critical: true, Value: name}}},
			SignatureAlgorithm: signature.AlgorithmPS256, CertificateChain: []*x509.Certificate{leaf}, Signature: []byte("sig")},
	}
	// the signer is NOT trusted: whatever the name does must not depend on authenticity
	store := &kitStore{answers: map[string]kitStoreAnswer{"ca:s": {certs: []*x509.Certificate{kitCert([]byte("other"), "other")}}}}
	mgr := plugin.NewCLIManager(dir.NewSysFS(root))
	v, err := NewVerifierWithOptions(store, VerifierOptions{OCITrustPolicy: kitOCIDoc("strict", nil, []string{"ca:s"}, []string{"*"}), PluginManager: mgr,
		RevocationCodeSigningValidator: &kitValidator{results: kitOKResults(1)}, RevocationTimestampingValidator: &kitValidator{}})
	vr.Assert(err == nil, "harness: verifier")
	if err != nil {
		return
	}
	_, verr := v.Verify(context.Background(), ocispec.Descriptor{MediaType: "m", Digest: "d", Size: 1}, []byte{1}, notation.VerifierVerifyOptions{ArtifactReference: kitRef, SignatureMediaType: kitJWS})
	vr.Assert(verr != nil, "a signature by an untrusted signer does not verify, whatever plugin it names")
	single := vr.And(name != "", name != ".", name != "..", !strings.Contains(name, "/"))
	home := root + "/" + name
	for i := 0; i < plugin.C16OpCount(); i++ {
		kind, p := plugin.C16OpAt(i)
		if vr.Fork(single) {
			vr.Assert(vr.Or(p == home, vr.And(len(p) > len(home), strings.HasPrefix(p, home+"/"))), "every path used is <plugin root>/<name> or below it")
		} else {
			vr.Assert(kind == "lookup", "a signature-supplied name that is not a single path element causes no execution, write or deletion")
			vr.Assert(vr.And(len(p) > len(root), strings.HasPrefix(p, root+"/")), "a signature-supplied name that is not a single path element causes no lookup outside the plugin root")
		}
	}
	if vr.Fork(single) {
		vr.Reach("single element name")
	} else {
		vr.Reach("rejected name")
	}
}

func init() { vsymHarnesses["VsymC16Verify"] = VsymC16Verify }
