//go:build verif

package plugin

// C16: a plugin name can never reach outside the plugin directory.
// The name's bytes are symbolic; the real path.Join / filepath.Join / Clean run on them. The operating
// system is an answer oracle: it says whatever is worst for containment and logs every path it is given.

import (
	"context"
	"errors"
	"io/fs"
	"os"
	"path/filepath"
	"strings"
	"syscall"
	"time"

	"github.com/notaryproject/notation-go/dir"
	"github.com/notaryproject/notation-go/internal/zzvr/fskit"
	vr "github.com/notaryproject/notation-go/internal/zzvr"
	"github.com/notaryproject/notation-plugin-framework-go/plugin"
)

type c16Op struct {
	kind string // lookup, execute, write, delete
	path string
}

type c16World struct {
	log     []c16Op
	exists  bool // what stat answers for paths that are not the installation source
	asDir   bool
	srcPath string
}

var c16W *c16World

type c16Info struct {
	name string
	dir  bool
}

func (i c16Info) Name() string { return i.name }
func (i c16Info) Size() int64  { return 1 }
func (i c16Info) Mode() fs.FileMode {
	if i.dir {
		return fs.ModeDir | 0o755
	}
	return 0o755
}
func (i c16Info) ModTime() time.Time { return time.Time{} }
func (i c16Info) IsDir() bool         { return i.dir }
func (i c16Info) Sys() any            { return nil }

func c16Stat(name string) (fs.FileInfo, error) {
	w := c16W
	w.log = append(w.log, c16Op{"lookup", name})
	if w.srcPath != "" && name == w.srcPath {
		return c16Info{name: "src"}, nil
	}
	if !w.exists {
		return nil, &fs.PathError{Op: "stat", Path: name, Err: syscall.ENOENT}
	}
	return c16Info{name: "x", dir: w.asDir}, nil
}

func c16RemoveAll(path string) error {
	c16W.log = append(c16W.log, c16Op{"delete", path})
	return nil
}

func c16MkdirAll(path string, perm fs.FileMode) error {
	c16W.log = append(c16W.log, c16Op{"write", path})
	return nil
}

func c16Create(name string) (*os.File, error) {
	c16W.log = append(c16W.log, c16Op{"write", name})
	return nil, &fs.PathError{Op: "open", Path: name, Err: syscall.EROFS}
}

func c16Open(name string) (*os.File, error) {
	c16W.log = append(c16W.log, c16Op{"lookup", name})
	return &os.File{}, nil
}

func c16Close(f *os.File) error { return nil }

func c16Chmod(name string, mode fs.FileMode) error {
	c16W.log = append(c16W.log, c16Op{"write", name})
	return nil
}

// c16Exec: the process oracle. Every executable "works" and reports whatever name makes the caller go on.
type c16Exec struct{ name string }

func (c *c16Exec) Output(ctx context.Context, path string, command plugin.Command, req []byte) ([]byte, []byte, error) {
	c16W.log = append(c16W.log, c16Op{"execute", path})
	return vr.JSONBytes(vr.JObj("name", vr.JStr(c.name), "description", vr.JStr("d"), "version", vr.JStr("1.0.0"), "url", vr.JStr("u"),
		"supportedContractVersions", vr.JArr(vr.JStr("1.0")), "capabilities", vr.JArr(vr.JStr("SIGNATURE_VERIFIER.TRUSTED_IDENTITY")))), nil, nil
}

// ---- exported handles for the harness in package verifier (the name comes from a signature) -------------

// C16Begin installs the operating-system oracle and the process oracle; the returned function restores.
func C16Begin(exists, asDir bool, execName string) func() {
	c16W = &c16World{exists: exists, asDir: asDir}
	saved := executor
	executor = &c16Exec{name: execName}
	return func() { executor = saved }
}

// C16OpCount / C16OpAt expose the log of paths handed to the operating system.
func C16OpCount() int { return len(c16W.log) }
func C16OpAt(i int) (kind, path string) { return c16W.log[i].kind, c16W.log[i].path }

var c16Roots = []string{"/r", "/r/p", "/r/p/q"}

func c16SingleElement(name string) bool {
	if name == "" || name == "." || name == ".." {
		return false
	}
	for i := 0; i < len(name); i++ {
		if name[i] == '/' {
			return false
		}
	}
	return true
}

// c16CheckLog: every path handed to the operating system is the source given by the caller or lies in
// <root>/<name>, and names that are not a single element cause no execution, write or deletion.
func c16CheckLog(w *c16World, root, name string, single bool) {
	home := root + "/" + name
	for _, op := range w.log {
		if w.srcPath != "" && op.path == w.srcPath && op.kind != "write" && op.kind != "delete" {
			continue
		}
		if single {
			vr.Assert(vr.Or(op.path == home, vr.And(len(op.path) > len(home), strings.HasPrefix(op.path, home+"/"))), "every path used ("+op.kind+") is <plugin root>/<name> or below it")
		} else {
			vr.Assert(op.kind == "lookup", "a name that is not a single path element causes no execution, write or deletion")
			vr.Assert(vr.And(len(op.path) > len(root), strings.HasPrefix(op.path, root+"/")), "a name that is not a single path element causes no lookup outside the plugin root")
		}
	}
}

// VsymC16Name: Get / Uninstall / Install-from-file with an arbitrary name.
func VsymC16Name() {
	capacity := vr.Param("cap", 3)
	root := c16Roots[vr.Choice("rootDepth", len(c16Roots))]
	name := vr.Str("name", capacity)
	w := &c16World{}
	c16W = w
	w.exists = vr.Choice("exists", 2) == 1
	if w.exists {
		w.asDir = vr.Choice("existsAsDir", 2) == 1
	}
	ex := &c16Exec{name: name}
	saved := executor
	executor = ex
	defer func() { executor = saved }()
	mgr := NewCLIManager(dir.NewSysFS(root))
	ctx := context.Background()
	single := c16SingleElement(name)
	op := vr.Choice("operation", 3)
	var err error
	switch op {
	case 0:
		var p plugin.Plugin
		p, err = mgr.Get(ctx, name)
		if err == nil && p != nil {
			// what the verifier does next with a plugin named by the signature
			_, merr := p.GetMetadata(ctx, &plugin.GetMetadataRequest{})
			_ = merr
		}
	case 1:
		err = mgr.Uninstall(ctx, name)
	default:
		// the source file is /s/notation-<name>: the manager derives the plugin name from the file name
		if !vr.Symbolic() {
			vr.SkipNative()
		}
		vr.Assume(!strings.Contains(name, "/"))
		w.srcPath = "/s/notation-" + name
		_, _, err = mgr.Install(ctx, CLIInstallOptions{PluginPath: w.srcPath, Overwrite: vr.Choice("overwrite", 2) == 1})
	}
	if vr.Symbolic() {
		if !single {
			vr.FindingKey("name-not-single-element")
			vr.Assert(err != nil, "a name that is not a single path element is rejected with an error")
			vr.Reach("rejected name")
		} else {
			vr.Reach("single element name")
		}
		c16CheckLog(w, root, name, single)
		vr.FindingKey("")
		return
	}
	c16Native(root, name, op, single)
}

// c16Native: end-to-end against a real directory tree with sentinels outside the plugin root.
func c16Native(rootKind, name string, op int, single bool) {
	if strings.ContainsRune(name, 0) {
		vr.SkipNative()
	}
	if strings.Contains(vr.Label(), "no lookup outside") {
		// a stat of a path outside the root leaves no trace in a real tree: that counterexample stands on the
		// solver's verdict
		vr.SkipNative()
	}
	base := fskit.Root()
	defer fskit.Cleanup()
	root := base + "/top" + rootKind
	c16Must(os.MkdirAll(root, 0o755))
	// sentinels: a directory and an executable at every level above the root that short traversal names can reach
	marker := base + "/marker"
	script := "#!/bin/sh\necho run >> " + marker + "\necho '{}'\n"
	for _, d := range []string{base + "/top", base + "/top/r", base + "/top/r/p"} {
		if _, err := os.Stat(d); err == nil {
			c16Must(os.MkdirAll(d+"/x", 0o755))
			c16Must(os.WriteFile(d+"/x/notation-x", []byte(script), 0o755))
			c16Must(os.WriteFile(d+"/keep.txt", []byte("keep"), 0o644))
		}
	}
	c16Must(os.MkdirAll(root+"/good", 0o755))
	c16Must(os.WriteFile(root+"/good/notation-good", []byte(script), 0o755))
	// materialise the oracle's answer for the path the manager will ask about, where the real tree allows it
	target := filepath.Join(root, name)
	if op == 0 {
		target = filepath.Join(root, name, "notation-"+name)
	}
	_, serr := os.Stat(target)
	if c16W.exists && serr != nil {
		if !strings.HasPrefix(target, base+"/top/") {
			vr.SkipNative()
		}
		if c16W.asDir {
			if os.MkdirAll(target, 0o755) != nil {
				vr.SkipNative()
			}
		} else {
			if os.MkdirAll(filepath.Dir(target), 0o755) != nil || os.WriteFile(target, []byte(script), 0o755) != nil {
				vr.SkipNative()
			}
		}
	} else if !c16W.exists && serr == nil {
		vr.SkipNative()
	}
	before := fskit.Tree(base + "/top")
	saved := executor
	executor = &execCommander{}
	defer func() { executor = saved }()
	mgr := NewCLIManager(dir.NewSysFS(root))
	ctx := context.Background()
	var err error
	switch op {
	case 0:
		var p plugin.Plugin
		p, err = mgr.Get(ctx, name)
		if err == nil && p != nil {
			p.GetMetadata(ctx, &plugin.GetMetadataRequest{})
		}
	case 1:
		err = mgr.Uninstall(ctx, name)
	}
	if !single {
		vr.Assert(err != nil, "a name that is not a single path element is rejected with an error")
		_, merr := os.Stat(marker)
		vr.Assert(merr != nil, "a name that is not a single path element causes no execution, write or deletion")
		vr.Assert(fskit.SameTree(before, fskit.Tree(base+"/top")), "a name that is not a single path element causes no execution, write or deletion")
		vr.Reach("rejected name")
	} else {
		vr.Reach("single element name")
	}
}

// VsymC16List: listing reports exactly the real sub-directories of the plugin root.
func VsymC16List() {
	base := fskit.Root()
	defer fskit.Cleanup()
	root := base + "/plugins"
	c16Must(os.MkdirAll(root, 0o755))
	c16Must(os.MkdirAll(base+"/elsewhere", 0o755))
	// the directory a symbolic link in the plugin root points to looks like an installed plugin of each name
	for _, nm := range []string{"alpha", "beta", "gamma", "zeta"} {
		c16Must(os.WriteFile(base+"/elsewhere/notation-"+nm, []byte("outside"), 0o755))
	}
	names := []string{"alpha", "beta", "gamma", "zeta"}
	n := vr.Param("entries", 3)
	var want []string
	for i := 0; i < n; i++ {
		switch vr.Choice("entryKind", 4) {
		case 1:
			c16Must(os.MkdirAll(root+"/"+names[i], 0o755))
			c16Must(os.WriteFile(root+"/"+names[i]+"/notation-"+names[i], []byte("x"), 0o755))
			want = append(want, names[i])
		case 2:
			c16Must(os.WriteFile(root+"/"+names[i], []byte("f"), 0o644))
		case 3:
			c16Must(os.Symlink(base+"/elsewhere", root+"/"+names[i]))
		}
	}
	mgr := NewCLIManager(dir.NewSysFS(root))
	got, err := mgr.List(context.Background())
	vr.Assert(err == nil, "listing succeeds")
	ok := len(got) == len(want)
	for i := range want {
		ok = ok && i < len(got) && got[i] == want[i]
	}
	vr.Assert(ok, "listing reports exactly the real (non-symlink) sub-directories of the plugin root")
	if len(want) > 0 {
		vr.Reach("plugins listed")
	}
	// uninstalling one of the names removes <root>/<name> at most: whatever <root>/<name> is (a plugin directory,
	// a file, a symbolic link to a directory elsewhere), nothing outside the plugin root is touched and no other
	// entry of the root either
	if n > 0 {
		k := vr.Choice("uninstall", n)
		outside := fskit.Tree(base + "/elsewhere")
		var others [][]string
		for i := 0; i < n; i++ {
			if i != k {
				others = append(others, fskit.Tree(root+"/"+names[i]))
			}
		}
		_ = mgr.Uninstall(context.Background(), names[k])
		vr.Assert(fskit.SameTree(outside, fskit.Tree(base+"/elsewhere")), "uninstalling a plugin touches nothing outside the plugin root, even when <root>/<name> is a symbolic link to a directory elsewhere")
		j := 0
		for i := 0; i < n; i++ {
			if i != k {
				vr.Assert(fskit.SameTree(others[j], fskit.Tree(root+"/"+names[i])), "uninstalling a plugin leaves the other entries of the plugin root as they were")
				j++
			}
		}
		vr.Reach("uninstalled one entry")
	}
	// a missing root lists nothing
	mgr2 := NewCLIManager(dir.NewSysFS(base + "/missing"))
	got2, err2 := mgr2.List(context.Background())
	vr.Assert(err2 == nil && len(got2) == 0, "a missing plugin root lists nothing")
	if errors.Is(err2, os.ErrNotExist) {
		vr.Reach("never")
	}
}

// c16FileExec: running an executable file prints the metadata its content holds (both modes).
type c16FileExec struct{ runs []string }

func (c *c16FileExec) Output(ctx context.Context, path string, command plugin.Command, req []byte) ([]byte, []byte, error) {
	fskit.Quiet()
	defer fskit.Loud()
	c.runs = append(c.runs, path)
	fi, err := os.Stat(path)
	if err != nil {
		return nil, nil, err
	}
	if !fi.Mode().IsRegular() || fi.Mode().Perm()&0o100 == 0 {
		return nil, nil, errors.New("permission denied")
	}
	b, err := os.ReadFile(path)
	return b, nil, err
}

// VsymC16Install: installation sources whose file name yields a plugin name that is not a single path
// element - as the executable itself or as the only candidate of a directory, executable or not.
func VsymC16Install() {
	base := fskit.Root()
	defer fskit.Cleanup()
	depth := vr.Choice("rootDepth", 2)
	root := base + "/top/plugins"
	if depth == 1 {
		root = base + "/top/a/plugins"
	}
	c16Must(os.MkdirAll(root+"/good", 0o755))
	c16Must(os.WriteFile(root+"/good/notation-good", []byte("g"), 0o755))
	c16Must(os.WriteFile(base+"/top/keep.txt", []byte("keep"), 0o644))
	c16Must(os.WriteFile(base+"/top/LICENSE", []byte("outside"), 0o644))
	cand := []string{"notation-..", "notation-.", "notation-", "notation-ok"}[vr.Choice("candidate", 4)]
	name := strings.TrimPrefix(cand, "notation-")
	src := base + "/src"
	c16Must(os.MkdirAll(src, 0o755))
	mode := os.FileMode(0o644)
	if vr.Choice("candidateExecutable", 2) == 1 {
		mode = 0o755
	}
	meta := `{"name":"` + name + `","description":"d","version":"1.0.0","url":"u","supportedContractVersions":["1.0"],"capabilities":["SIGNATURE_GENERATOR.RAW"]}`
	c16Must(os.WriteFile(src+"/"+cand, []byte(meta), mode))
	c16Must(os.WriteFile(src+"/LICENSE", []byte("L"), 0o644))
	ex := &c16FileExec{}
	saved := executor
	executor = ex
	defer func() { executor = saved }()
	mgr := NewCLIManager(dir.NewSysFS(root))
	before := fskit.Tree(base + "/top")
	path := src
	if vr.Choice("sourceIsFile", 2) == 1 {
		path = src + "/" + cand
	}
	_, _, err := mgr.Install(context.Background(), CLIInstallOptions{PluginPath: path, Overwrite: vr.Choice("overwrite", 2) == 1})
	if !c16SingleElement(name) {
		vr.Assert(err != nil, "a source whose file name yields a name that is not a single path element is refused")
		vr.Assert(len(ex.runs) == 0, "... before anything is executed: the source executable is not run to ask for its metadata")
		vr.Assert(fskit.SameTree(before, fskit.Tree(base+"/top")), "... and nothing at or around the plugin root changes")
		vr.Reach("install refused by name")
		return
	}
	if err == nil {
		_, serr := os.Stat(root + "/" + name + "/" + cand)
		vr.Assert(serr == nil, "a well-named plugin is installed into <plugin root>/<name>")
		vr.Reach("installed")
	}
}

func init() {
	vsymHarnesses["VsymC16Install"] = VsymC16Install
	vsymHarnesses["VsymC16Name"] = VsymC16Name
	vsymHarnesses["VsymC16List"] = VsymC16List
}

func c16Must(err error) {
	if err != nil {
		panic("harness set-up: " + err.Error())
	}
}
