//go:build verif

package plugin

// C17 (a) reply validation of the five protocol commands, (b2)/(c) execCommander.Output against the
// os/exec contract (output cap on both streams, bounded return after the deadline).

import (
	"context"
	"errors"
	"os"
	"os/exec"
	"path/filepath"
	"strings"
	"time"

	nio "github.com/notaryproject/notation-go/internal/io"
	vr "github.com/notaryproject/notation-go/internal/zzvr"
	"github.com/notaryproject/notation-go/plugin/proto"
	"github.com/notaryproject/notation-plugin-framework-go/plugin"
)

// c17Cmd is a scripted implementation of the repo's own commander interface. It follows the
// interface's documented contract: stdout if err is nil, stderr if err is not nil.
type c17Cmd struct {
	stdout, stderr []byte
	fail           bool
	calls          int
	path           string
	command        plugin.Command
	req            []byte
}

func (c *c17Cmd) Output(ctx context.Context, path string, command plugin.Command, req []byte) ([]byte, []byte, error) {
	c.calls++
	c.path, c.command, c.req = path, command, req
	if c.fail {
		return nil, c.stderr, errors.New("exit status 1")
	}
	return c.stdout, nil, nil
}

var c17Codes = []string{"VALIDATION_ERROR", "UNSUPPORTED_CONTRACT_VERSION", "ACCESS_DENIED", "TIMEOUT", "THROTTLED", "ERROR", "", "x"}

// c17Field: a string member in one of the states a reply can leave it in.
// returns the members to add and whether the reply still decodes (no kind mismatch)
func c17StrField(tag, key string, alphabet string, capacity int) (kv []any, val string, kindOK bool) {
	switch vr.Choice(tag, 4) {
	case 0: // present with a (possibly empty) string
		val = vr.StrIn(tag+".v", capacity, alphabet)
		return []any{key, vr.JStr(val)}, val, true
	case 1: // absent
		return nil, "", true
	case 2: // null: leaves the field untouched
		return []any{key, vr.JNull()}, "", true
	}
	// wrong kind
	return []any{key, vr.JNum(7)}, "", false
}

func c17StrList(tag, key, alphabet string, capacity int) (kv []any, vals []string, kindOK bool) {
	switch vr.Choice(tag, 5) {
	case 0:
		return nil, nil, true
	case 1:
		return []any{key, vr.JArr()}, nil, true
	case 2:
		a := vr.StrIn(tag+".0", capacity, alphabet)
		return []any{key, vr.JArr(vr.JStr(a))}, []string{a}, true
	case 3:
		a := vr.StrIn(tag+".0", capacity, alphabet)
		b := vr.StrIn(tag+".1", capacity, alphabet)
		return []any{key, vr.JArr(vr.JStr(a), vr.JStr(b))}, []string{a, b}, true
	}
	return []any{key, vr.JStr("1.0")}, nil, false
}

// c17Stderr draws the error stream of a failing plugin. kind: 0 empty, 1 structured, 2 malformed.
func c17Stderr() (data []byte, kind int, code, msg string, meta map[string]string) {
	switch vr.Choice("stderr", 7) {
	case 0:
		return nil, 0, "", "", nil
	case 1:
		return []byte{}, 0, "", "", nil
	case 2:
		return vr.JSONBytes(vr.JBad()), 2, "", "", nil
	case 3:
		return vr.JSONBytes(vr.JNull()), 2, "", "", nil
	case 4:
		return vr.JSONBytes(vr.JArr(vr.JStr("ERROR"))), 2, "", "", nil
	case 5:
		// wrong kind of a member
		return vr.JSONBytes(vr.JObj("errorCode", vr.JNum(3), "errorMessage", vr.JStr("m"))), 2, "", "", nil
	}
	var kv []any
	code = vr.OneOf("code", c17Codes...)
	if vr.Choice("codePresent", 2) == 1 {
		kv = append(kv, "errorCode", vr.JStr(code))
	} else {
		code = ""
	}
	if vr.Choice("msgPresent", 2) == 1 {
		msg = vr.StrIn("msg", 2, "a-b")
		kv = append(kv, "errorMessage", vr.JStr(msg))
	}
	switch vr.Choice("meta", 3) {
	case 1:
		kv = append(kv, "errorMetadata", vr.JObj())
		meta = map[string]string{}
	case 2:
		v := vr.StrIn("metaVal", 1, "a-b")
		kv = append(kv, "errorMetadata", vr.JObj("k", vr.JStr(v)))
		meta = map[string]string{"k": v}
	}
	data = vr.JSONBytes(vr.JObj(kv...))
	if vr.Fork(code == "") && vr.Fork(msg == "") && meta == nil {
		return data, 2, "", "", nil // "incomplete json"
	}
	return data, 1, code, msg, meta
}

func c17ErrKind(err error) string {
	switch err.(type) {
	case nil:
		return "nil"
	case *PluginExecutableFileError:
		return "executable-file-error"
	case *PluginMalformedError:
		return "malformed-error"
	case proto.RequestError:
		return "request-error"
	}
	return "other"
}

func c17CheckFailure(err error, kind int, code, msg string, meta map[string]string) {
	switch kind {
	case 0:
		_, ok := err.(*PluginExecutableFileError)
		vr.Assert(ok, "failing process with empty stderr: *PluginExecutableFileError")
		vr.Reach("executable file error")
	case 1:
		re, ok := err.(proto.RequestError)
		vr.Assert(ok, "failing process with a structured error: the plugin's own proto.RequestError")
		if !ok {
			return
		}
		vr.Assert(string(re.Code) == code, "structured error carries the plugin's code")
		if vr.Fork(msg == "") {
			vr.Assert(re.Err == nil, "structured error without message has no inner error")
		} else {
			vr.Assert(re.Err != nil && re.Err.Error() == msg, "structured error carries the plugin's message")
		}
		vr.Assert(len(re.Metadata) == len(meta) && (meta == nil) == (re.Metadata == nil), "structured error carries the plugin's metadata")
		if len(meta) == 1 && len(re.Metadata) == 1 {
			vr.Assert(re.Metadata["k"] == meta["k"], "structured error metadata value")
		}
		vr.Reach("structured error")
	default:
		_, ok := err.(*PluginMalformedError)
		vr.Assert(ok, "failing process with unstructured stderr: *PluginMalformedError")
		vr.Reach("malformed stderr")
	}
}

// VsymC17Metadata: get-plugin-metadata over all reply shapes.
func VsymC17Metadata() {
	cmd := &c17Cmd{}
	saved := executor
	executor = cmd
	defer func() { executor = saved }()
	p := &CLIPlugin{name: "foo", path: "/plugins/foo/notation-foo"}
	req := &plugin.GetMetadataRequest{}

	cmd.fail = vr.Choice("exit", 2) == 1
	if cmd.fail {
		var kind int
		var code, msg string
		var meta map[string]string
		cmd.stderr, kind, code, msg, meta = c17Stderr()
		cmd.stdout = []byte(`{"name":"foo","description":"d","version":"1.0.0","url":"u","supportedContractVersions":["1.0"],"capabilities":["c"]}`)
		resp, err := p.GetMetadata(context.Background(), req)
		vr.Assert(err != nil && resp == nil, "failing process: no metadata, an error")
		vr.Note("err=" + c17ErrKind(err))
		c17CheckFailure(err, kind, code, msg, meta)
		return
	}
	// stdout of a process that exited successfully
	shape := vr.Choice("stdout", 6)
	var wantOK bool
	var name, desc, version, url string
	var versions, caps []string
	switch shape {
	case 0:
		cmd.stdout = []byte{}
	case 1:
		cmd.stdout = vr.JSONBytes(vr.JBad())
	case 2:
		cmd.stdout = vr.JSONBytes(vr.JNull())
	case 3:
		cmd.stdout = vr.JSONBytes(vr.JArr())
	case 5:
		// complete, valid metadata followed by something else
		cmd.stdout = vr.JSONBytes(vr.JTrailing(vr.JObj("name", vr.JStr("foo"), "description", vr.JStr("d"), "version", vr.JStr("1.0.0"), "url", vr.JStr("u"),
			"supportedContractVersions", vr.JArr(vr.JStr("1.0")), "capabilities", vr.JArr(vr.JStr("c")))))
	default:
		var kv []any
		ok := true
		add := func(m []any, k bool) {
			kv = append(kv, m...)
			ok = ok && k
		}
		var m []any
		var k bool
		m, name, k = c17StrField("name", "name", "fo", 3)
		add(m, k)
		m, desc, k = c17StrField("description", "description", "d", 1)
		add(m, k)
		m, version, k = c17StrField("version", "version", "1", 1)
		add(m, k)
		m, url, k = c17StrField("url", "url", "u", 1)
		add(m, k)
		m, versions, k = c17StrList("versions", "supportedContractVersions", "0-1.", 3)
		add(m, k)
		m, caps, k = c17StrList("capabilities", "capabilities", "c", 1)
		add(m, k)
		cmd.stdout = vr.JSONBytes(vr.JObj(kv...))
		has10 := false
		for _, v := range versions {
			if vr.Fork(v == plugin.ContractVersion) {
				has10 = true
			}
		}
		wantOK = ok && vr.Fork(name == "foo") && vr.Fork(desc != "") && vr.Fork(version != "") && vr.Fork(url != "") &&
			len(caps) > 0 && has10
	}
	cmd.stderr = []byte("ignored")
	resp, err := p.GetMetadata(context.Background(), req)
	vr.Note("err=" + c17ErrKind(err))
	vr.Assert(cmd.calls == 1 && cmd.path == p.path && cmd.command == plugin.CommandGetMetadata, "the plugin executable is run once with the command of the request")
	vr.Assert((err == nil) == wantOK, "metadata is accepted iff the process succeeded with a well-formed reply, all six mandatory fields non-empty, contract version 1.0 supported and the name equal to the plugin's name")
	vr.Assert((err == nil) == (resp != nil), "metadata returned iff no error")
	if err != nil {
		if shape != 4 {
			_, ok := err.(*PluginMalformedError)
			vr.Assert(ok, "undecodable reply: *PluginMalformedError")
		}
		vr.Reach("metadata rejected")
		return
	}
	vr.Assert(resp.Name == name && resp.Description == desc && resp.Version == version && resp.URL == url, "accepted metadata is the reply's")
	vr.Assert(len(resp.SupportedContractVersions) == len(versions) && len(resp.Capabilities) == len(caps), "accepted metadata lists are the reply's")
	vr.Reach("metadata accepted")
}

// VsymC17Commands: the four other commands.
func VsymC17Commands() {
	cmd := &c17Cmd{}
	saved := executor
	executor = cmd
	defer func() { executor = saved }()
	p := &CLIPlugin{name: "foo", path: "/plugins/foo/notation-foo"}
	ctx := context.Background()
	which := vr.Choice("command", 4)
	cmd.fail = vr.Choice("exit", 2) == 1
	var kind int
	var code, msg string
	var meta map[string]string
	// reply
	shape := 0
	keyID := ""
	var blob []byte
	if cmd.fail {
		cmd.stderr, kind, code, msg, meta = c17Stderr()
		cmd.stdout = []byte(`{"keyId":"k"}`)
	} else {
		shape = vr.Choice("stdout", 9)
		if shape == 8 {
			// a well-formed reply followed by something else (a crash banner, a second reply)
			shape = 1
			cmd.stdout = vr.JSONBytes(vr.JTrailing(vr.JObj("keyId", vr.JStr("k"))))
		}
		switch shape {
		case 0:
			cmd.stdout = []byte{}
		case 1:
			if cmd.stdout == nil {
				cmd.stdout = vr.JSONBytes(vr.JBad())
			}
		case 2:
			cmd.stdout = vr.JSONBytes(vr.JArr())
		case 3:
			cmd.stdout = vr.JSONBytes(vr.JStr("ok"))
		case 4: // a member of the wrong kind
			switch which {
			case 0, 1:
				cmd.stdout = vr.JSONBytes(vr.JObj("keyId", vr.JNum(1)))
			case 2:
				cmd.stdout = vr.JSONBytes(vr.JObj("signatureEnvelopeType", vr.JArr()))
			default:
				cmd.stdout = vr.JSONBytes(vr.JObj("verificationResults", vr.JStr("x")))
			}
		case 5:
			cmd.stdout = vr.JSONBytes(vr.JNull())
		case 6:
			cmd.stdout = vr.JSONBytes(vr.JObj())
		default:
			keyID = vr.StrIn("keyId", 2, "a-b")
			blob = vr.Token("blob")
			switch which {
			case 0:
				cmd.stdout = vr.JSONBytes(vr.JObj("keyId", vr.JStr(keyID), "keySpec", vr.JStr("RSA-2048"), "unknown", vr.JNum(1)))
			case 1:
				cmd.stdout = vr.JSONBytes(vr.JObj("keyId", vr.JStr(keyID), "signature", vr.JBytesVal(blob), "signingAlgorithm", vr.JStr("RSASSA-PSS-SHA-256"),
					"certificateChain", vr.JArr(vr.JBytesVal(blob))))
			case 2:
				cmd.stdout = vr.JSONBytes(vr.JObj("signatureEnvelope", vr.JBytesVal(blob), "signatureEnvelopeType", vr.JStr(keyID), "annotations", vr.JObj("a", vr.JStr(keyID))))
			default:
				cmd.stdout = vr.JSONBytes(vr.JObj("verificationResults", vr.JObj("SIGNATURE_VERIFIER.TRUSTED_IDENTITY", vr.JObj("success", vr.JBool(true), "reason", vr.JStr(keyID))),
					"processedAttributes", vr.JArr(vr.JStr(keyID))))
			}
		}
		cmd.stderr = []byte(`{"errorCode":"ERROR","errorMessage":"ignored"}`)
	}
	wantOK := !cmd.fail && shape >= 5
	var err error
	var wantCmd plugin.Command
	fieldsOK := true
	respNil := false
	switch which {
	case 0:
		var r *plugin.DescribeKeyResponse
		r, err = p.DescribeKey(ctx, &plugin.DescribeKeyRequest{KeyID: "k"})
		respNil = r == nil
		wantCmd = plugin.CommandDescribeKey
		if err == nil && shape == 7 {
			fieldsOK = r != nil && r.KeyID == keyID && r.KeySpec == "RSA-2048"
		}
	case 1:
		var r *plugin.GenerateSignatureResponse
		r, err = p.GenerateSignature(ctx, &plugin.GenerateSignatureRequest{KeyID: "k", Payload: []byte("p")})
		respNil = r == nil
		wantCmd = plugin.CommandGenerateSignature
		if err == nil && shape == 7 {
			fieldsOK = r != nil && r.KeyID == keyID && string(r.Signature) == string(blob) && len(r.CertificateChain) == 1 && string(r.CertificateChain[0]) == string(blob)
		}
	case 2:
		var r *plugin.GenerateEnvelopeResponse
		r, err = p.GenerateEnvelope(ctx, &plugin.GenerateEnvelopeRequest{KeyID: "k", Payload: []byte("p")})
		respNil = r == nil
		wantCmd = plugin.CommandGenerateEnvelope
		if err == nil && shape == 7 {
			fieldsOK = r != nil && string(r.SignatureEnvelope) == string(blob) && r.SignatureEnvelopeType == keyID && len(r.Annotations) == 1 && r.Annotations["a"] == keyID
		}
	default:
		var r *plugin.VerifySignatureResponse
		r, err = p.VerifySignature(ctx, &plugin.VerifySignatureRequest{})
		respNil = r == nil
		wantCmd = plugin.CommandVerifySignature
		if err == nil && shape == 7 && r != nil {
			res := r.VerificationResults[plugin.CapabilityTrustedIdentityVerifier]
			fieldsOK = r != nil && len(r.VerificationResults) == 1 && res != nil && res.Success && res.Reason == keyID && len(r.ProcessedAttributes) == 1
		}
	}
	vr.Note("err=" + c17ErrKind(err))
	vr.Assert(cmd.calls == 1 && cmd.path == p.path && cmd.command == wantCmd, "the plugin executable is run once with the command of the request")
	if shape != 5 || cmd.fail {
		// whether the JSON value null counts as a reply "of the expected shape" is left open by the property
		vr.Assert((err == nil) == wantOK, "a call succeeds iff the process exited successfully with a JSON reply of the expected shape")
	}
	vr.Assert(fieldsOK, "the returned response carries the reply's values")
	vr.Assert(vr.Implies(err == nil, !respNil), "success comes with a response (callers use it without a nil check): whatever the reply - the JSON value null included")
	if cmd.fail {
		c17CheckFailure(err, kind, code, msg, meta)
		return
	}
	if err != nil {
		_, ok := err.(*PluginMalformedError)
		vr.Assert(ok, "undecodable reply: *PluginMalformedError")
		vr.Reach("reply rejected")
	} else {
		vr.Reach("reply accepted")
	}
}

// ---- execCommander.Output against the os/exec contract -------------------------------------

// c17Env is the behaviour of the process tree, drawn by the harness entry and consumed by the stub of
// (*exec.Cmd).Run. Times are nanoseconds since the start of the call.
type c17ProcEnv struct {
	ctx         *c17Ctx
	hasDeadline bool
	cancelOnly  bool  // the context ends by cancellation (it has no deadline of its own)
	deadline    int64 // instant at which the context expires or is cancelled
	exits       bool  // the plugin process exits by itself ...
	exitAt      int64 // ... at this instant
	exitOK      bool  // ... with status 0
	pipesHeld   int64 // a descendant keeps stdout/stderr open until this instant
	outLen      []byte
	errLen      []byte
	// observations
	runCalls    int
	returnedAt  int64
	killed      bool
	stdoutLW    *nio.LimitedWriter
	stderrLW    *nio.LimitedWriter
	capOK       bool
	cmdOK       bool
	waitDelay   time.Duration
}

var c17Env *c17ProcEnv

func (e *c17ProcEnv) doneErr() error {
	if e.cancelOnly {
		return context.Canceled
	}
	return context.DeadlineExceeded
}

type c17Ctx struct {
	context.Context
	err         error
	hasDeadline bool
	parent      context.Context // set for contexts derived by the code under test (WithTimeout, WithCancel, ...)
}

func (c *c17Ctx) Err() error {
	if c.err != nil || c.parent == nil {
		return c.err
	}
	return c.parent.Err()
}

// a context derived by the code under test: done when its parent is done (its own timer is not part of the
// model - a bound the host adds on top of the caller's context can only end the call earlier)
//
//vsym:stub context.WithTimeout = c17WithTimeout
//vsym:stub context.WithDeadline = c17WithDeadline
//vsym:stub context.WithCancel = c17WithCancel

func c17Derive(parent context.Context, deadline bool) (context.Context, context.CancelFunc) {
	if _, has := parent.Deadline(); has {
		deadline = true
	}
	return &c17Ctx{Context: parent, parent: parent, hasDeadline: deadline}, func() {}
}

func c17WithTimeout(parent context.Context, d time.Duration) (context.Context, context.CancelFunc) {
	return c17Derive(parent, true)
}

func c17WithDeadline(parent context.Context, d time.Time) (context.Context, context.CancelFunc) {
	return c17Derive(parent, true)
}

func c17WithCancel(parent context.Context) (context.Context, context.CancelFunc) {
	return c17Derive(parent, false)
}

// c17FromCaller: ctx is the caller's context or derived from it
func c17FromCaller(ctx context.Context) bool {
	for i := 0; i < 8 && ctx != nil; i++ {
		cc, ok := ctx.(*c17Ctx)
		if !ok {
			return false
		}
		if cc == c17Env.ctx {
			return true
		}
		ctx = cc.parent
	}
	return false
}

// Deadline: only a deadline context reports one; a context ended by cancellation does not
func (c *c17Ctx) Deadline() (time.Time, bool) {
	if c.hasDeadline {
		return time.Unix(2000000000, 0), true
	}
	return time.Time{}, false
}

//vsym:stub os/exec.CommandContext = c17CommandContext
//vsym:stub (*os/exec.Cmd).Run = c17CmdRun

func c17CommandContext(ctx context.Context, name string, arg ...string) *exec.Cmd {
	c := &exec.Cmd{Path: name, Args: append([]string{name}, arg...)}
	if c17FromCaller(ctx) {
		c17Env.cmdOK = true
	}
	return c
}

func c17Max(a, b int64) int64 {
	if a > b {
		return a
	}
	return b
}

func c17Min(a, b int64) int64 {
	if a < b {
		return a
	}
	return b
}

// c17CmdRun: (*exec.Cmd).Run as documented by os/exec (Cmd.Wait, Cmd.WaitDelay, CommandContext):
//   - when the context is done before the process exits, the process is killed (Cancel defaults to Kill);
//   - if Stdout/Stderr are not *os.File, Wait also waits for the goroutines copying from the pipes, which
//     end only when every holder of the pipes' write ends (descendants included) has closed them;
//   - with WaitDelay > 0 that wait is cut WaitDelay after the context is done or the process was seen to
//     exit, whichever is first; with WaitDelay == 0 it is unbounded.
func c17CmdRun(c *exec.Cmd) error {
	e := c17Env
	e.runCalls++
	e.waitDelay = c.WaitDelay
	// process end
	var procEnd int64
	exitedByItself := e.exits && (!e.hasDeadline || e.exitAt <= e.deadline)
	if exitedByItself {
		procEnd = e.exitAt
	} else {
		// runs until killed by the context (the harness only calls with a deadline in that case)
		procEnd = e.deadline
		e.killed = true
		e.ctx.err = e.doneErr()
	}
	if e.hasDeadline && e.deadline <= procEnd {
		e.ctx.err = e.doneErr()
	}
	// output: the process writes to both streams through whatever writers the host installed
	so, okO := c.Stdout.(*nio.LimitedWriter)
	se, okE := c.Stderr.(*nio.LimitedWriter)
	e.stdoutLW, e.stderrLW = so, se
	e.capOK = okO && okE && so != nil && se != nil && so != se && so.W != se.W && so.N > 0 && so.N <= maxPluginOutputSize && se.N > 0 && se.N <= maxPluginOutputSize
	if c.Stdout != nil {
		c.Stdout.Write([]byte("out"))
	}
	if c.Stderr != nil {
		c.Stderr.Write([]byte("err"))
	}
	copying := false
	if c.Stdout != nil {
		if _, isFile := c.Stdout.(*os.File); !isFile {
			copying = true
		}
	}
	if c.Stderr != nil {
		if _, isFile := c.Stderr.(*os.File); !isFile {
			copying = true
		}
	}
	ret := procEnd
	waitDelayHit := false
	if copying {
		ioDone := c17Max(procEnd, e.pipesHeld)
		if c.WaitDelay > 0 {
			timerStart := procEnd
			if e.hasDeadline {
				timerStart = c17Min(procEnd, e.deadline)
			}
			limit := timerStart + int64(c.WaitDelay)
			if ioDone > limit {
				ioDone = limit
				waitDelayHit = true
			}
		}
		ret = c17Max(procEnd, ioDone)
	}
	e.returnedAt = ret
	if e.killed {
		return errors.New("signal: killed")
	}
	if !e.exitOK {
		return errors.New("exit status 1")
	}
	if waitDelayHit {
		return exec.ErrWaitDelay
	}
	return nil
}

const c17Horizon = int64(1) << 40 // about 18 minutes in nanoseconds

// VsymC17Exec: execCommander.Output over every behaviour of the process tree allowed by the contract.
func VsymC17Exec() {
	e := &c17ProcEnv{}
	e.hasDeadline = vr.Bool("hasDeadline")
	e.cancelOnly = vr.Bool("endsByCancellation")
	e.deadline = vr.Int64("deadline")
	e.exits = vr.Bool("exits")
	e.exitAt = vr.Int64("exitAt")
	e.exitOK = vr.Bool("exitOK")
	e.pipesHeld = vr.Int64("pipesHeldUntil")
	vr.Assume(e.deadline >= 0 && e.deadline <= c17Horizon && e.exitAt >= 0 && e.exitAt <= c17Horizon && e.pipesHeld >= 0 && e.pipesHeld <= 4*c17Horizon)
	// a call without deadline to a plugin that never exits never returns: outside the clause
	vr.Assume(e.hasDeadline || e.exits)
	if !vr.Symbolic() {
		c17ExecNative(e)
		return
	}
	e.ctx = &c17Ctx{Context: context.Background(), hasDeadline: e.hasDeadline && !e.cancelOnly}
	c17Env = e
	command := []plugin.Command{plugin.CommandGetMetadata, plugin.CommandDescribeKey, plugin.CommandGenerateSignature, plugin.CommandGenerateEnvelope, plugin.CommandVerifySignature}[vr.Choice("command", 5)]
	stdout, stderr, err := execCommander{}.Output(e.ctx, "/plugins/foo/notation-foo", command, []byte("{}"))
	vr.Assert(e.runCalls == 1 && e.cmdOK, "the command is created with the caller's context (or one derived from it: the caller's cancellation reaches the process) and run once")
	vr.Assert(e.capOK, "both output streams of the process go through distinct LimitedWriters of at most the fixed cap")
	ok := !e.killed && e.exitOK && e.returnedAt >= 0
	if err == nil {
		vr.Assert(string(stdout) == "out" && stderr == nil, "success returns the captured stdout")
		vr.Reach("process succeeded")
	} else {
		vr.Assert(stdout == nil && string(stderr) == "err", "failure returns the captured stderr")
		vr.Reach("process failed")
	}
	vr.Assert(ok || err != nil, "a killed or failing process is an error")
	if e.hasDeadline {
		// bounded return: at most one minute after the later of deadline ... whatever the descendants do
		vr.FindingKey("no-wait-delay-descendant-holds-pipes")
		vr.Assert(e.returnedAt <= c17Max(e.deadline, 0)+int64(time.Minute), "the call returns within a bounded delay after its context is cancelled or expires, whatever the plugin or its descendants do")
		vr.FindingKey("")
		if e.killed {
			vr.Reach("killed at the deadline")
		}
		if e.pipesHeld > e.deadline {
			vr.Reach("descendant holds the pipes past the deadline")
		}
	}
}

// c17ExecNative realises the drawn behaviour class with a generated shell plugin and measures the wall clock.
func c17ExecNative(e *c17ProcEnv) {
	if !e.hasDeadline {
		vr.SkipNative()
	}
	if e.exits && e.exitAt == e.deadline {
		vr.SkipNative() // a process that exits at the very instant of the deadline cannot be staged
	}
	exitsFirst := e.exits && e.exitAt <= e.deadline
	procEnd := e.deadline
	if exitsFirst {
		procEnd = e.exitAt
	}
	holds := e.pipesHeld > e.deadline+int64(time.Minute)
	if !holds && e.pipesHeld > procEnd {
		// a descendant that releases the pipes shortly after the process ended: whether the wait is cut
		// depends on the configured delay, which a native run cannot observe
		vr.SkipNative()
	}
	dir, err := os.MkdirTemp("", "c17-")
	if err != nil {
		panic(err)
	}
	defer os.RemoveAll(dir)
	script := "#!/bin/sh\n"
	if holds {
		script += "sleep 20 &\n"
	}
	if !exitsFirst {
		script += "echo out\necho err >&2\nexec sleep 20\n"
	} else if e.exitOK {
		script += "echo out\necho err >&2\nexit 0\n"
	} else {
		script += "echo out\necho err >&2\nexit 1\n"
	}
	path := filepath.Join(dir, "notation-foo")
	if err := os.WriteFile(path, []byte(script), 0o755); err != nil {
		panic(err)
	}
	var ctx context.Context
	var cancel context.CancelFunc
	if e.cancelOnly {
		ctx, cancel = context.WithCancel(context.Background())
		timer := time.AfterFunc(300*time.Millisecond, cancel)
		defer timer.Stop()
	} else {
		ctx, cancel = context.WithTimeout(context.Background(), 300*time.Millisecond)
	}
	defer cancel()
	t0 := time.Now()
	_, serrB, rerr := execCommander{}.Output(ctx, path, plugin.CommandGetMetadata, []byte("{}"))
	el := time.Since(t0)
	// every script writes "out" and "err" to its two streams before anything else (as the process of the model does)
	vr.Assert(rerr == nil || strings.TrimSpace(string(serrB)) == "err", "failure returns the captured stderr")
	if rerr == nil {
		vr.Reach("process succeeded")
	} else {
		vr.Reach("process failed")
	}
	vr.Assert(el < 300*time.Millisecond+10*time.Second, "the call returns within a bounded delay after its context is cancelled or expires, whatever the plugin or its descendants do")
	// a process that would run on for 20 s ended with the context: the caller's cancellation reached it
	vr.Assert(exitsFirst || el < 300*time.Millisecond+10*time.Second, "the command is created with the caller's context (or one derived from it: the caller's cancellation reaches the process) and run once")
	if !exitsFirst {
		vr.Reach("killed at the deadline")
	}
	if e.pipesHeld > e.deadline {
		vr.Reach("descendant holds the pipes past the deadline")
	}
}

func init() {
	vsymHarnesses["VsymC17Metadata"] = VsymC17Metadata
	vsymHarnesses["VsymC17Commands"] = VsymC17Commands
	vsymHarnesses["VsymC17Exec"] = VsymC17Exec
}
