//go:build verif

package io

import (
	"testing"

	vr "github.com/notaryproject/notation-go/internal/zzvr"
)

func TestVsymReplay(t *testing.T) {
	if err := vr.ReplayMain(map[string]func(){
		"VsymC17LimitedWriter": VsymC17LimitedWriter,
	}); err != nil {
		t.Fatal(err)
	}
}
