//go:build verif

package io

// C17 (b): one inductive step of (*LimitedWriter).Write from an arbitrary state.

import (
	"errors"

	vr "github.com/notaryproject/notation-go/internal/zzvr"
)

// c17Under is an arbitrary well-behaved io.Writer: it accepts 0 <= n <= len(p) bytes.
type c17Under struct {
	calls int
	given int64 // len of the slice handed down
	n     int64
	fail  bool
	total int64 // bytes accepted (buffered) so far
}

func (u *c17Under) Write(p []byte) (int, error) {
	u.calls++
	u.given = int64(len(p))
	n := vr.Int64("accepted")
	vr.Assume(n >= 0 && n <= int64(len(p)))
	u.n = n
	u.total += n
	if u.fail {
		return int(n), errors.New("underlying writer failed")
	}
	return int(n), nil
}

// VsymC17LimitedWriter: for every remaining budget N (any int64), every write size and every answer of
// the underlying writer: never more than max(N,0) bytes are handed down, the budget decreases by exactly
// what was accepted and never becomes negative from a non-negative state. By induction over the writes of
// a process, the bytes buffered never exceed the initial cap.
func VsymC17LimitedWriter() {
	N := vr.Int64("N")
	p := vr.OpaqueBytes("p")
	u := &c17Under{fail: vr.Bool("underFails")}
	l := &LimitedWriter{W: u, N: N}
	n, err := l.Write(p)
	lenP := int64(len(p))
	if vr.Fork(N <= 0) {
		vr.Assert(u.calls == 0 && n == 0 && err == ErrLimitExceeded && l.N == N, "exhausted budget: nothing handed down, ErrLimitExceeded, budget unchanged")
		vr.Reach("budget exhausted")
		return
	}
	vr.Assert(u.calls == 1, "one write to the underlying writer")
	want := lenP
	if vr.Fork(lenP > N) {
		want = N
		vr.Reach("write truncated to the budget")
	} else {
		vr.Reach("write within the budget")
	}
	vr.Assert(u.given == want, "the underlying writer is handed min(len(p), N) bytes")
	vr.Assert(u.given <= N, "never more than the remaining budget is handed down")
	vr.Assert(int64(n) == u.n && l.N == N-u.n, "the budget decreases by exactly the bytes accepted")
	vr.Assert(l.N >= 0, "the budget never becomes negative")
	vr.Assert(u.total <= N, "bytes buffered by this write do not exceed the remaining budget")
	vr.Assert((err != nil) == u.fail, "the underlying writer's error is passed on")
}
