//go:build verif

// Package fskit is the file-system contract stub (DESIGN.md 4.7): an in-memory tree with POSIX semantics
// for the operations notation-go performs (names -> inodes, rename replaces atomically and rebinds the
// name, open binds the inode, ReadDir is sorted, Stat follows symlinks and Lstat does not). Under the
// engine the functions below replace the os / filepath entry points; natively the harnesses run on a real
// temporary directory and none of this code is used except Root and the small helpers.
//
// Paths must be concrete (the harnesses that quantify over path bytes use answer-oracles instead).
package fskit

import (
	"errors"
	"io"
	"io/fs"
	"os"
	"path/filepath"
	"strings"
	"syscall"
	"time"

	vr "github.com/notaryproject/notation-go/internal/zzvr"
)

//vsym:stub os.Stat = Stat
//vsym:stub os.Lstat = Lstat
//vsym:stub os.ReadDir = ReadDir
//vsym:stub os.ReadFile = ReadFile
//vsym:stub os.WriteFile = WriteFile
//vsym:stub os.Open = Open
//vsym:stub os.Create = Create
//vsym:stub os.OpenFile = OpenFile
//vsym:stub os.CreateTemp = CreateTemp
//vsym:stub os.MkdirTemp = MkdirTemp
//vsym:stub os.MkdirAll = MkdirAll
//vsym:stub os.Mkdir = Mkdir
//vsym:stub os.Remove = Remove
//vsym:stub os.RemoveAll = RemoveAll
//vsym:stub os.Rename = Rename
//vsym:stub os.Chmod = Chmod
//vsym:stub os.Symlink = Symlink
//vsym:stub os.DirFS = DirFS
//vsym:stub (*os.File).Write = FileWrite
//vsym:stub (*os.File).Close = FileClose
//vsym:stub (*os.File).Chmod = FileChmod
//vsym:stub (*os.File).Name = FileName
//vsym:stub (*os.File).WriteTo = FileWriteTo
//vsym:stub (*os.File).Read = FileRead
//vsym:stub (*os.File).Stat = FileStat
//vsym:stub (*os.File).ReadDir = FileReadDir
//vsym:stub path/filepath.readDir = walkReadDir

const (
	KindDir = iota + 1
	KindFile
	KindSymlink
)

type Node struct {
	Kind    int
	Perm    fs.FileMode // permission bits only
	Data    []byte
	Target  string
	Names   []string // directory entries, kept sorted
	Kids    map[string]*Node
	Serial  int
	Partial bool // content still being written (between create and close)
}

type Op struct {
	Kind  string // stat lstat readdir read open create openfile createtemp write close mkdir remove removeall rename chmod symlink fileread
	Path  string
	To    string
	Ret   string // createtemp: the name created
	Flags int    // openfile
	Data  []byte // write / writefile: the bytes written
}

type handle struct {
	node   *Node
	name   string
	closed bool
	write  bool
	off    int
	overwrite bool // opened without O_TRUNC: writes replace the content from the start
}

type State struct {
	Root    *Node
	Log     []Op
	handles map[*os.File]*handle
	serial  int
	TempSeq int
	// fault injection: fail the n-th operation of a kind (1-based), 0 = never
	FailKind string
	FailAt   int
	count    map[string]int
	quiet    int
}

// Quiet suspends logging and fault injection while a harness oracle inspects the tree; Loud resumes.
func Quiet() { FS.quiet++ }
func Loud()  { FS.quiet-- }

var FS State

// Reset starts from an empty tree holding only "/".
func Reset() {
	FS = State{Root: &Node{Kind: KindDir, Perm: 0o755, Kids: map[string]*Node{}}, handles: map[*os.File]*handle{}, count: map[string]int{}}
}

var nativeRoot string

// Root returns the directory under which a harness builds its tree: "/vfs" in the model, a fresh temporary
// directory natively.
func Root() string {
	if vr.Symbolic() {
		if FS.Root == nil {
			Reset()
		}
		Quiet()
		MkdirAll("/vfs", 0o755)
		Loud()
		return "/vfs"
	}
	d, err := os.MkdirTemp("", "vsymfs-")
	if err != nil {
		panic(err)
	}
	nativeRoot = d
	return d
}

// Cleanup removes the native temporary directory.
func Cleanup() {
	if !vr.Symbolic() && nativeRoot != "" {
		filepath.WalkDir(nativeRoot, func(p string, d fs.DirEntry, err error) error {
			if err == nil && d.IsDir() {
				os.Chmod(p, 0o755)
			}
			return nil
		})
		os.RemoveAll(nativeRoot)
		nativeRoot = ""
	}
}

func (s *State) log(kind, path, to string) error {
	if s.Root == nil {
		// a harness that keeps no tree of its own (its oracle stubs the calls it expects) met another call of
		// package os: that call sees an empty file system
		q := s.quiet
		Reset()
		s.quiet = q
	}
	if s.quiet > 0 {
		return nil
	}
	s.Log = append(s.Log, Op{Kind: kind, Path: path, To: to})
	s.count[kind]++
	if s.FailKind == kind && s.FailAt == s.count[kind] {
		return &fs.PathError{Op: kind, Path: path, Err: syscall.EIO}
	}
	return nil
}

func perr(op, path string, e syscall.Errno) error { return &fs.PathError{Op: op, Path: path, Err: e} }

func split(path string) []string {
	p := filepath.Clean(path)
	if p == "/" || p == "." || p == "" {
		return nil
	}
	return strings.Split(strings.TrimPrefix(p, "/"), "/")
}

// walk resolves path. followLast: resolve a symlink in the last component.
// Returns the node (nil if the last component does not exist), its parent directory and base name.
func (s *State) walk(op, path string, followLast bool, depth int) (n, parent *Node, base string, err error) {
	if depth > 8 {
		return nil, nil, "", perr(op, path, syscall.ELOOP)
	}
	if path == "" {
		return nil, nil, "", perr(op, path, syscall.ENOENT)
	}
	if !strings.HasPrefix(path, "/") {
		panic("fskit: relative path " + path)
	}
	comps := split(path)
	cur := s.Root
	if len(comps) == 0 {
		return cur, nil, "", nil
	}
	for i, c := range comps {
		last := i == len(comps)-1
		if cur.Kind != KindDir {
			return nil, nil, "", perr(op, path, syscall.ENOTDIR)
		}
		child := cur.Kids[c]
		if child == nil {
			if last {
				return nil, cur, c, nil
			}
			return nil, nil, "", perr(op, path, syscall.ENOENT)
		}
		if child.Kind == KindSymlink && (!last || followLast) {
			target := child.Target
			if !strings.HasPrefix(target, "/") {
				target = "/" + strings.Join(append(append([]string{}, comps[:i]...), target), "/")
			}
			rest := strings.Join(comps[i+1:], "/")
			if rest != "" {
				target = target + "/" + rest
			}
			return s.walk(op, target, followLast, depth+1)
		}
		if last {
			return child, cur, c, nil
		}
		cur = child
	}
	return nil, nil, "", perr(op, path, syscall.ENOENT)
}

func (d *Node) link(name string, n *Node) {
	if _, ok := d.Kids[name]; !ok {
		// sorted insert
		i := 0
		for i < len(d.Names) && d.Names[i] < name {
			i++
		}
		d.Names = append(d.Names, "")
		copy(d.Names[i+1:], d.Names[i:])
		d.Names[i] = name
	}
	d.Kids[name] = n
}

func (d *Node) unlink(name string) {
	if _, ok := d.Kids[name]; !ok {
		return
	}
	delete(d.Kids, name)
	for i, x := range d.Names {
		if x == name {
			d.Names = append(d.Names[:i], d.Names[i+1:]...)
			break
		}
	}
}

// ---- FileInfo / DirEntry -----------------------------------------------------------------

type Info struct {
	name string
	node *Node
}

func (i Info) Name() string { return i.name }
func (i Info) Size() int64  { return int64(len(i.node.Data)) }
func (i Info) Mode() fs.FileMode {
	switch i.node.Kind {
	case KindDir:
		return fs.ModeDir | i.node.Perm
	case KindSymlink:
		return fs.ModeSymlink | 0o777
	}
	return i.node.Perm
}
func (i Info) ModTime() time.Time         { return time.Time{} }
func (i Info) IsDir() bool                { return i.node.Kind == KindDir }
func (i Info) Sys() any                   { return nil }
func (i Info) Type() fs.FileMode          { return i.Mode().Type() }
func (i Info) Info() (fs.FileInfo, error) { return i, nil }

// ---- os entry points -----------------------------------------------------------------------

func Stat(name string) (fs.FileInfo, error) {
	if err := FS.log("stat", name, ""); err != nil {
		return nil, err
	}
	n, _, _, err := FS.walk("stat", name, true, 0)
	if err != nil {
		return nil, err
	}
	if n == nil {
		return nil, perr("stat", name, syscall.ENOENT)
	}
	return Info{filepath.Base(name), n}, nil
}

func Lstat(name string) (fs.FileInfo, error) {
	if err := FS.log("lstat", name, ""); err != nil {
		return nil, err
	}
	n, _, _, err := FS.walk("lstat", name, false, 0)
	if err != nil {
		return nil, err
	}
	if n == nil {
		return nil, perr("lstat", name, syscall.ENOENT)
	}
	return Info{filepath.Base(name), n}, nil
}

func readDirNode(op, name string) ([]fs.DirEntry, error) {
	n, _, _, err := FS.walk(op, name, true, 0)
	if err != nil {
		return nil, err
	}
	if n == nil {
		return nil, perr(op, name, syscall.ENOENT)
	}
	if n.Kind != KindDir {
		return nil, perr(op, name, syscall.ENOTDIR)
	}
	if n.Perm&0o400 == 0 {
		return nil, perr(op, name, syscall.EACCES)
	}
	var out []fs.DirEntry
	for _, c := range n.Names {
		out = append(out, Info{c, n.Kids[c]})
	}
	return out, nil
}

func ReadDir(name string) ([]fs.DirEntry, error) {
	if err := FS.log("readdir", name, ""); err != nil {
		return nil, err
	}
	return readDirNode("open", name)
}

// walkReadDir replaces the unexported helper of filepath.WalkDir (open, ReadDir(-1), sort by name).
func walkReadDir(dirname string) ([]fs.DirEntry, error) {
	if err := FS.log("readdir", dirname, ""); err != nil {
		return nil, err
	}
	return readDirNode("open", dirname)
}

func ReadFile(name string) ([]byte, error) {
	if err := FS.log("read", name, ""); err != nil {
		return nil, err
	}
	n, _, _, err := FS.walk("open", name, true, 0)
	if err != nil {
		return nil, err
	}
	if n == nil {
		return nil, perr("open", name, syscall.ENOENT)
	}
	if n.Kind == KindDir {
		return nil, perr("read", name, syscall.EISDIR)
	}
	if n.Perm&0o400 == 0 {
		return nil, perr("open", name, syscall.EACCES)
	}
	// contents are never modified in place: the stored slice itself is returned (it may carry an abstract document)
	return n.Data, nil
}

func (s *State) newFile(perm fs.FileMode) *Node {
	s.serial++
	return &Node{Kind: KindFile, Perm: perm, Serial: s.serial}
}

func (s *State) newHandle(n *Node, name string, write bool) *os.File {
	f := &os.File{}
	s.handles[f] = &handle{node: n, name: name, write: write}
	return f
}

func Open(name string) (*os.File, error) {
	if err := FS.log("open", name, ""); err != nil {
		return nil, err
	}
	n, _, _, err := FS.walk("open", name, true, 0)
	if err != nil {
		return nil, err
	}
	if n == nil {
		return nil, perr("open", name, syscall.ENOENT)
	}
	if n.Kind == KindFile && n.Perm&0o400 == 0 {
		return nil, perr("open", name, syscall.EACCES)
	}
	return FS.newHandle(n, name, false), nil
}

func createAt(op, name string, perm fs.FileMode, excl bool) (*os.File, error) {
	n, parent, base, err := FS.walk(op, name, true, 0)
	if err != nil {
		return nil, err
	}
	if n != nil {
		if excl {
			return nil, perr(op, name, syscall.EEXIST)
		}
		if n.Kind == KindDir {
			return nil, perr(op, name, syscall.EISDIR)
		}
		if n.Perm&0o200 == 0 {
			return nil, perr(op, name, syscall.EACCES)
		}
		n.Data = nil // truncate the same inode
		return FS.newHandle(n, name, true), nil
	}
	if parent == nil {
		return nil, perr(op, name, syscall.ENOENT)
	}
	if parent.Perm&0o200 == 0 {
		return nil, perr(op, name, syscall.EACCES)
	}
	f := FS.newFile(perm)
	parent.link(base, f)
	return FS.newHandle(f, name, true), nil
}

// OpenFile: the flag combinations the cache code could use. Without O_TRUNC an existing file keeps its
// content and is overwritten from the start.
func OpenFile(name string, flag int, perm fs.FileMode) (*os.File, error) {
	if err := FS.log("openfile", name, ""); err != nil {
		return nil, err
	}
	if FS.quiet == 0 {
		FS.Log[len(FS.Log)-1].Flags = flag
	}
	if flag&(os.O_WRONLY|os.O_RDWR) == 0 {
		n, _, _, err := FS.walk("open", name, true, 0)
		if err != nil {
			return nil, err
		}
		if n == nil {
			return nil, perr("open", name, syscall.ENOENT)
		}
		return FS.newHandle(n, name, false), nil
	}
	n, _, _, err := FS.walk("open", name, true, 0)
	if err != nil {
		return nil, err
	}
	if n != nil && flag&os.O_TRUNC == 0 && flag&os.O_EXCL == 0 {
		h := FS.newHandle(n, name, true)
		FS.handles[h].overwrite = true
		return h, nil
	}
	if n == nil && flag&os.O_CREATE == 0 {
		return nil, perr("open", name, syscall.ENOENT)
	}
	return createAt("open", name, perm&0o755, flag&os.O_EXCL != 0)
}

func Create(name string) (*os.File, error) {
	if err := FS.log("create", name, ""); err != nil {
		return nil, err
	}
	return createAt("open", name, 0o644, false)
}

func itoa(i int) string {
	if i == 0 {
		return "0"
	}
	var b []byte
	for i > 0 {
		b = append([]byte{byte('0' + i%10)}, b...)
		i /= 10
	}
	return string(b)
}

// CreateTemp: the name is the pattern with its last "*" (or its end) replaced by a decimal number, as
// os.CreateTemp documents; the file is new (O_EXCL) with mode 0600.
func CreateTemp(dir, pattern string) (*os.File, error) {
	if err := FS.log("createtemp", dir, pattern); err != nil {
		return nil, err
	}
	if dir == "" {
		dir = "/tmp"
	}
	if strings.Contains(pattern, "/") {
		return nil, &fs.PathError{Op: "createtemp", Path: pattern, Err: errors.New("pattern contains path separator")}
	}
	prefix, suffix := pattern, ""
	if i := strings.LastIndex(pattern, "*"); i >= 0 {
		prefix, suffix = pattern[:i], pattern[i+1:]
	}
	FS.TempSeq++
	name := filepath.Join(dir, prefix+itoa(1000000+FS.TempSeq)+suffix)
	if FS.quiet == 0 && len(FS.Log) > 0 {
		FS.Log[len(FS.Log)-1].Ret = name
	}
	return createAt("open", name, 0o600, true)
}

func MkdirTemp(dir, pattern string) (string, error) {
	if dir == "" {
		dir = "/tmp"
	}
	FS.TempSeq++
	name := filepath.Join(dir, strings.TrimSuffix(pattern, "*")+itoa(1000000+FS.TempSeq))
	return name, MkdirAll(name, 0o700)
}

func WriteFile(name string, data []byte, perm fs.FileMode) error {
	if err := FS.log("writefile", name, ""); err != nil {
		return err
	}
	f, err := createAt("open", name, perm&0o755, false)
	if err != nil {
		return err
	}
	h := FS.handles[f]
	h.node.Data = data
	h.closed = true
	if FS.quiet == 0 {
		for i := len(FS.Log) - 1; i >= 0; i-- {
			if FS.Log[i].Kind == "writefile" {
				FS.Log[i].Data = data
				break
			}
		}
	}
	return nil
}

func Mkdir(path string, perm fs.FileMode) error {
	if err := FS.log("mkdir", path, ""); err != nil {
		return err
	}
	n, parent, base, err := FS.walk("mkdir", path, true, 0)
	if err != nil {
		return err
	}
	if n != nil {
		return perr("mkdir", path, syscall.EEXIST)
	}
	if parent.Perm&0o200 == 0 {
		return perr("mkdir", path, syscall.EACCES)
	}
	parent.link(base, &Node{Kind: KindDir, Perm: perm & 0o755, Kids: map[string]*Node{}})
	return nil
}

func MkdirAll(path string, perm fs.FileMode) error {
	if err := FS.log("mkdirall", path, ""); err != nil {
		return err
	}
	comps := split(path)
	cur := "/"
	for _, c := range comps {
		cur = filepath.Join(cur, c)
		n, parent, base, err := FS.walk("mkdir", cur, true, 0)
		if err != nil {
			return err
		}
		if n != nil {
			if n.Kind != KindDir {
				return perr("mkdir", cur, syscall.ENOTDIR)
			}
			continue
		}
		if parent.Perm&0o200 == 0 {
			return perr("mkdir", cur, syscall.EACCES)
		}
		parent.link(base, &Node{Kind: KindDir, Perm: perm & 0o755, Kids: map[string]*Node{}})
	}
	return nil
}

func Remove(name string) error {
	if err := FS.log("remove", name, ""); err != nil {
		return err
	}
	n, parent, base, err := FS.walk("remove", name, false, 0)
	if err != nil {
		return err
	}
	if n == nil || parent == nil {
		return perr("remove", name, syscall.ENOENT)
	}
	if n.Kind == KindDir && len(n.Names) > 0 {
		return perr("remove", name, syscall.ENOTEMPTY)
	}
	if parent.Perm&0o200 == 0 {
		return perr("remove", name, syscall.EACCES)
	}
	parent.unlink(base)
	return nil
}

func RemoveAll(path string) error {
	if err := FS.log("removeall", path, ""); err != nil {
		return err
	}
	n, parent, base, err := FS.walk("removeall", path, false, 0)
	if err != nil {
		var pe *fs.PathError
		if errors.As(err, &pe) && (pe.Err == syscall.ENOENT || pe.Err == syscall.ENOTDIR) {
			return nil
		}
		return err
	}
	if n == nil {
		return nil
	}
	if parent == nil {
		return perr("removeall", path, syscall.EINVAL)
	}
	parent.unlink(base)
	return nil
}

func Rename(oldpath, newpath string) error {
	// os.Rename first looks at the new name (to refuse replacing a directory); whatever that look yields, it
	// goes on to the rename itself - the look is logged (it is a system call of its own) but cannot fail the call
	if FS.quiet == 0 {
		FS.Log = append(FS.Log, Op{Kind: "lstat", Path: newpath})
	}
	if err := FS.log("rename", oldpath, newpath); err != nil {
		return err
	}
	n, op, ob, err := FS.walk("rename", oldpath, false, 0)
	if err != nil {
		return err
	}
	if n == nil || op == nil {
		return &os.LinkError{Op: "rename", Old: oldpath, New: newpath, Err: syscall.ENOENT}
	}
	t, np, nb, err := FS.walk("rename", newpath, false, 0)
	if err != nil {
		return err
	}
	if np == nil {
		return &os.LinkError{Op: "rename", Old: oldpath, New: newpath, Err: syscall.ENOENT}
	}
	if t != nil {
		if t.Kind == KindDir && n.Kind != KindDir {
			return &os.LinkError{Op: "rename", Old: oldpath, New: newpath, Err: syscall.EISDIR}
		}
		if t.Kind != KindDir && n.Kind == KindDir {
			return &os.LinkError{Op: "rename", Old: oldpath, New: newpath, Err: syscall.ENOTDIR}
		}
		if t.Kind == KindDir && len(t.Names) > 0 {
			return &os.LinkError{Op: "rename", Old: oldpath, New: newpath, Err: syscall.ENOTEMPTY}
		}
	}
	// atomic: the new name is bound to the old inode in one step
	op.unlink(ob)
	np.link(nb, n)
	return nil
}

func Chmod(name string, mode fs.FileMode) error {
	if err := FS.log("chmod", name, ""); err != nil {
		return err
	}
	n, _, _, err := FS.walk("chmod", name, true, 0)
	if err != nil {
		return err
	}
	if n == nil {
		return perr("chmod", name, syscall.ENOENT)
	}
	n.Perm = mode.Perm()
	return nil
}

func Symlink(oldname, newname string) error {
	if err := FS.log("symlink", newname, oldname); err != nil {
		return err
	}
	n, parent, base, err := FS.walk("symlink", newname, false, 0)
	if err != nil {
		return err
	}
	if n != nil {
		return &os.LinkError{Op: "symlink", Old: oldname, New: newname, Err: syscall.EEXIST}
	}
	parent.link(base, &Node{Kind: KindSymlink, Perm: 0o777, Target: oldname})
	return nil
}

// ---- *os.File ---------------------------------------------------------------------------------

func fileHandle(f *os.File, op string) (*handle, error) {
	if f == nil {
		return nil, os.ErrInvalid
	}
	h := FS.handles[f]
	if h == nil {
		return nil, os.ErrInvalid
	}
	if h.closed {
		return nil, &fs.PathError{Op: op, Path: h.name, Err: os.ErrClosed}
	}
	return h, nil
}

func FileWrite(f *os.File, b []byte) (int, error) {
	h, err := fileHandle(f, "write")
	if err != nil {
		return 0, err
	}
	if err := FS.log("write", h.name, ""); err != nil {
		return 0, err
	}
	if !h.write {
		return 0, perr("write", h.name, syscall.EBADF)
	}
	if FS.quiet == 0 {
		FS.Log[len(FS.Log)-1].Data = b
	}
	if h.node.Data == nil || h.overwrite {
		h.overwrite = false
		h.node.Data = b // keeps an abstract document attached to b
	} else {
		h.node.Data = append(h.node.Data, b...)
	}
	return len(b), nil
}

func FileRead(f *os.File, b []byte) (int, error) {
	h, err := fileHandle(f, "read")
	if err != nil {
		return 0, err
	}
	if h.node.Kind == KindDir {
		return 0, perr("read", h.name, syscall.EISDIR)
	}
	if err := FS.log("fileread", h.name, ""); err != nil {
		return 0, err
	}
	if h.off >= len(h.node.Data) {
		return 0, io.EOF
	}
	n := copy(b, h.node.Data[h.off:])
	h.off += n
	return n, nil
}

func FileWriteTo(f *os.File, w io.Writer) (int64, error) {
	h, err := fileHandle(f, "read")
	if err != nil {
		return 0, err
	}
	if h.node.Kind == KindDir {
		return 0, perr("read", h.name, syscall.EISDIR)
	}
	if err := FS.log("copy", h.name, ""); err != nil {
		return 0, err
	}
	data := append([]byte{}, h.node.Data[h.off:]...)
	h.off = len(h.node.Data)
	if len(data) == 0 {
		return 0, nil
	}
	n, err := w.Write(data)
	return int64(n), err
}

// FileStat describes the inode the handle is bound to (not whatever the name is bound to now). Modification
// times are not modelled finer than "all the same" (the coarsest time stamp granularity a file system may have).
func FileStat(f *os.File) (fs.FileInfo, error) {
	h, err := fileHandle(f, "stat")
	if err != nil {
		return nil, err
	}
	if err := FS.log("fstat", h.name, ""); err != nil {
		return nil, err
	}
	return Info{filepath.Base(h.name), h.node}, nil
}

func FileReadDir(f *os.File, n int) ([]fs.DirEntry, error) {
	h, err := fileHandle(f, "readdir")
	if err != nil {
		return nil, err
	}
	if err := FS.log("readdir", h.name, ""); err != nil {
		return nil, err
	}
	if h.node.Kind != KindDir {
		return nil, perr("readdir", h.name, syscall.ENOTDIR)
	}
	var out []fs.DirEntry
	for _, c := range h.node.Names {
		out = append(out, Info{c, h.node.Kids[c]})
	}
	return out, nil
}

// FileBytes hands the whole content of an open file to the engine's model of a streaming decoder (one read).
func FileBytes(f *os.File) []byte {
	h, err := fileHandle(f, "read")
	if err != nil || h.node.Kind == KindDir {
		return nil
	}
	FS.log("fileread", h.name, "")
	return h.node.Data
}

func FileClose(f *os.File) error {
	h, err := fileHandle(f, "close")
	if err != nil {
		return err
	}
	if err := FS.log("close", h.name, ""); err != nil {
		h.closed = true
		return err
	}
	h.closed = true
	return nil
}

func FileChmod(f *os.File, mode fs.FileMode) error {
	h, err := fileHandle(f, "chmod")
	if err != nil {
		return err
	}
	if err := FS.log("fchmod", h.name, ""); err != nil {
		return err
	}
	h.node.Perm = mode.Perm()
	return nil
}

func FileName(f *os.File) string {
	if f == nil {
		panic("nil *os.File")
	}
	if h := FS.handles[f]; h != nil {
		return h.name
	}
	return ""
}

// ---- os.DirFS ------------------------------------------------------------------------------------

type dirFS string

func DirFS(dir string) fs.FS { return dirFS(dir) }

func (d dirFS) join(op, name string) (string, error) {
	if !fs.ValidPath(name) {
		return "", &fs.PathError{Op: op, Path: name, Err: fs.ErrInvalid}
	}
	if name == "." {
		return string(d), nil
	}
	return string(d) + "/" + name, nil
}

type dirFile struct {
	info Info
	path string
}

// ReadDir makes directories opened through DirFS listable (fs.ReadDir / fs.WalkDir use it, as they do
// with the *os.File the real os.DirFS returns).
func (f dirFile) ReadDir(n int) ([]fs.DirEntry, error) {
	if err := FS.log("readdir", f.path, ""); err != nil {
		return nil, err
	}
	return readDirNode("readdir", f.path)
}

func (f dirFile) Stat() (fs.FileInfo, error) { return f.info, nil }
func (f dirFile) Read([]byte) (int, error)   { return 0, io.EOF }
func (f dirFile) Close() error               { return nil }

func (d dirFS) Open(name string) (fs.File, error) {
	p, err := d.join("open", name)
	if err != nil {
		return nil, err
	}
	fi, err := Stat(p)
	if err != nil {
		return nil, err
	}
	return dirFile{fi.(Info), p}, nil
}

func (d dirFS) Stat(name string) (fs.FileInfo, error) {
	p, err := d.join("stat", name)
	if err != nil {
		return nil, err
	}
	return Stat(p)
}

func (d dirFS) ReadDir(name string) ([]fs.DirEntry, error) {
	p, err := d.join("readdir", name)
	if err != nil {
		return nil, err
	}
	return ReadDir(p)
}

// ---- helpers for harness oracles (both modes, through the os package) -----------------------------

// Tree renders the subtree at path as sorted lines "relpath kind perm content" for before/after comparison.
func Tree(path string) []string {
	Quiet()
	defer Loud()
	var out []string
	var rec func(p, rel string)
	rec = func(p, rel string) {
		fi, err := os.Lstat(p)
		if err != nil {
			return
		}
		switch {
		case fi.Mode()&fs.ModeSymlink != 0:
			out = append(out, rel+" symlink")
		case fi.IsDir():
			out = append(out, rel+" dir")
			ents, _ := os.ReadDir(p)
			for _, e := range ents {
				rec(p+"/"+e.Name(), rel+"/"+e.Name())
			}
		default:
			b, _ := os.ReadFile(p)
			x := " -"
			if fi.Mode().Perm()&0o100 != 0 {
				x = " x"
			}
			out = append(out, rel+" file"+x+" "+string(b))
		}
	}
	rec(path, ".")
	return out
}

func SameTree(a, b []string) bool {
	if len(a) != len(b) {
		return false
	}
	for i := range a {
		if a[i] != b[i] {
			return false
		}
	}
	return true
}
