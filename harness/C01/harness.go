//go:build verif

package verifier

import (
	"context"
	"crypto/x509"
	"errors"
	"time"

	"github.com/notaryproject/notation-core-go/signature"
	"github.com/notaryproject/notation-go"
	vr "github.com/notaryproject/notation-go/internal/zzvr"
	"github.com/notaryproject/notation-go/verifier/trustpolicy"
	"github.com/opencontainers/go-digest"
	ocispec "github.com/opencontainers/image-spec/specs-go/v1"
)


const c01PayloadType = "application/vnd.cncf.notary.payload.v1+json"

type c01Payload struct {
	shape     int // 0 proper object, 1 syntax error, 2 null, 3 array, 4 no targetArtifact, 5 targetArtifact of wrong kind
	mediaType string
	digest    string
	size      int64
	annKeys   []string
	annVals   []string
	annNull   bool
}

func c01DrawPayload(maxAnn int) (c01Payload, []byte) {
	p := c01Payload{shape: vr.Choice("payloadShape", 6)}
	switch p.shape {
	case 1:
		return p, vr.JSONBytes(vr.JBad())
	case 2:
		return p, vr.JSONBytes(vr.JNull())
	case 3:
		return p, vr.JSONBytes(vr.JArr(vr.JStr("x")))
	case 4:
		return p, vr.JSONBytes(vr.JObj("other", vr.JNum(1)))
	case 5:
		return p, vr.JSONBytes(vr.JObj("targetArtifact", vr.JStr("x")))
	}
	p.mediaType = vr.Str("signed.mediaType", 3)
	p.digest = vr.Str("signed.digest", 3)
	p.size = vr.Int64("signed.size")
	n := vr.Choice("signed.annotations", maxAnn+2) - 1 // -1: no annotations member
	var ann []any
	for i := 0; i < n; i++ {
		k := vr.Str("signed.annKey", 2)
		v := vr.Str("signed.annVal", 2)
		for _, prev := range p.annKeys {
			vr.Assume(prev != k) // a JSON object a signer produced has distinct keys
		}
		p.annKeys = append(p.annKeys, k)
		p.annVals = append(p.annVals, v)
		ann = append(ann, k, vr.JStr(v))
	}
	members := []any{"mediaType", vr.JStr(p.mediaType), "digest", vr.JStr(p.digest), "size", vr.JNum(p.size)}
	if n >= 0 {
		members = append(members, "annotations", vr.JObj(ann...))
	}
	return p, vr.JSONBytes(vr.JObj("targetArtifact", vr.JObj(members...)))
}

// c01ContentType: the payload content type of the envelope. Quick tier: the exact Notary type or one of its
// near misses (parameters, letter case, padding, truncation, other types) as one merged symbolic choice;
// thorough tier additionally every string of the same length.
func c01ContentType() string {
	if vr.Tier() > 0 && vr.Choice("payload.contentType.free", 2) == 1 {
		return vr.Str("payload.contentType", len(c01PayloadType))
	}
	return vr.OneOf("payload.contentType", c01PayloadType, c01PayloadType+";version=2", c01PayloadType+"; charset=utf-8", "Application/Vnd.Cncf.Notary.Payload.V1+json",
		"APPLICATION/VND.CNCF.NOTARY.PAYLOAD.V1+JSON", c01PayloadType+" ", " "+c01PayloadType, c01PayloadType[:len(c01PayloadType)-1], "application/vnd.cncf.notary.payload.v2+json", "application/json", "")
}

type c01World struct {
	store     *kitStore
	validator *kitValidator
	tsVal     *kitValidator
	leaf      *x509.Certificate
	collabOK  bool
}

// c01Collaborators: arbitrary answers of everything after integrity (kept small: each is one fork)
func c01Collaborators(scheme signature.SigningScheme) c01World {
	leaf := kitCert([]byte("leaf"), "leaf")
	leaf.NotBefore = time.Unix(946684800, 0)   // 2000
	leaf.NotAfter = time.Unix(4102444800, 0)   // 2100
	w := c01World{leaf: leaf, collabOK: true}
	storeKey := "ca:s"
	if scheme == signature.SigningSchemeX509SigningAuthority {
		storeKey = "signingAuthority:s"
	}
	w.store = &kitStore{answers: map[string]kitStoreAnswer{}}
	switch vr.Choice("trust", 3) {
	case 0:
		w.store.answers[storeKey] = kitStoreAnswer{certs: []*x509.Certificate{leaf}}
	case 1:
		w.store.answers[storeKey] = kitStoreAnswer{certs: []*x509.Certificate{kitCert([]byte("other"), "other")}}
		w.collabOK = false
	case 2:
		w.store.answers[storeKey] = kitStoreAnswer{err: true}
		w.collabOK = false
	}
	w.validator = &kitValidator{results: kitOKResults(1)}
	if vr.Choice("revoked", 2) == 1 {
		w.validator.results[0].Result = 3 // revoked
		w.collabOK = false
	}
	w.tsVal = &kitValidator{}
	return w
}

func c01Metadata(max int) map[string]string {
	n := vr.Choice("required.n", max+1)
	var m map[string]string
	if n > 0 || vr.Choice("required.emptyNotNil", 2) == 1 {
		m = map[string]string{}
	}
	for i := 0; i < n; i++ {
		m[vr.Str("required.key", 2)] = vr.Str("required.val", 2)
	}
	return m
}

func c01MetadataSatisfied(required map[string]string, p c01Payload) bool {
	ok := true
	for k, v := range required {
		found := false
		for i := range p.annKeys {
			found = vr.Or(found, vr.And(p.annKeys[i] == k, p.annVals[i] == v))
		}
		ok = vr.And(ok, found)
	}
	return ok
}

// VsymC01OCI: Verify succeeds only on an intact envelope bound to the descriptor with the required metadata.
func VsymC01OCI() {
	kitEnv = kitEnvState{}
	kitInstallEnvelope()
	level, ov := kitLevel("lv", vr.Param("overrides", 1))
	media := []string{kitJWS, kitCOSE, "application/other"}[vr.Choice("media", 3)]
	kitEnv.parseErr = vr.Choice("parse", 2)
	if kitEnv.parseErr == 0 {
		kitEnv.verifyErr = vr.Choice("verify", 5)
	}
	scheme := []signature.SigningScheme{signature.SigningSchemeX509, signature.SigningSchemeX509SigningAuthority}[vr.Choice("scheme", 2)]
	ctype := c01ContentType()
	pl, payloadBytes := c01DrawPayload(vr.Param("annotations", 1))
	w := c01Collaborators(scheme)
	kitEnv.content = &signature.EnvelopeContent{
		Payload: signature.Payload{ContentType: ctype, Content: payloadBytes},
		SignerInfo: signature.SignerInfo{
			SignedAttributes:   signature.SignedAttributes{SigningScheme: scheme, SigningTime: time.Unix(1700000000, 0)},
			SignatureAlgorithm: signature.AlgorithmPS256,
			CertificateChain:   []*x509.Certificate{w.leaf},
			Signature:          []byte("sig"),
		},
	}
	desc := ocispec.Descriptor{MediaType: vr.Str("desc.mediaType", 3), Digest: digest.Digest(vr.Str("desc.digest", 3)), Size: vr.Int64("desc.size")}
	vr.Assume(len(desc.Digest) > 0) // descriptors of real artifacts carry a digest
	required := c01Metadata(vr.Param("metadata", 1))
	stores := []string{"ca:s", "signingAuthority:s"}
	v, err := NewVerifierWithOptions(w.store, VerifierOptions{OCITrustPolicy: kitOCIDoc(level, ov, stores, []string{"*"}),
		RevocationCodeSigningValidator: w.validator, RevocationTimestampingValidator: w.tsVal})
	if err != nil {
		vr.Assert(false, "verifier construction with a valid policy fails")
		return
	}
	sig := []byte{1, 2, 3}
	outcome, verr := v.Verify(context.Background(), desc, sig, notation.VerifierVerifyOptions{ArtifactReference: kitRef, SignatureMediaType: media, UserMetadata: required})

	vr.Assert(outcome != nil, "outcome returned once a statement is selected")
	if outcome == nil {
		return
	}
	vr.Assert((outcome.Error == nil) == (verr == nil), "outcome.Error is set exactly when an error is returned")
	intact := media != "application/other" && kitEnv.parseErr == 0 && kitEnv.verifyErr == 0
	bound := pl.shape == 0 && vr.And(pl.digest == string(desc.Digest), pl.size == desc.Size, pl.mediaType == desc.MediaType)
	metaOK := c01MetadataSatisfied(required, pl)
	if verr == nil {
		vr.Reach("accepted")
		vr.Assert(intact, "accepted only if the envelope parsed and its signature verified")
		vr.Assert(kitEnv.parseCalls == 1 && kitEnv.verifyCalls == 1 && kitEnv.parsedMedia == media && len(kitEnv.parsedBytes) == 3 && kitEnv.parsedBytes[0] == 1 && kitEnv.parsedBytes[2] == 3,
			"the envelope verified is the one parsed from the given bytes and media type")
		vr.Assert(outcome.EnvelopeContent == kitEnv.returned && kitEnv.returned != nil, "outcome carries the verified content")
		vr.Assert(ctype == c01PayloadType, "accepted only with the Notary payload content type")
		vr.Assert(bound, "accepted only if the signed target equals the descriptor under verification (digest, size, media type)")
		vr.Assert(metaOK, "accepted only if every required metadata pair is in the signed payload")
		if len(required) > 0 {
			vr.Reach("accepted with metadata")
		}
	} else {
		vr.Reach("rejected")
		// completeness: nothing wrong => accepted (keeps the check from passing on 'always fail')
		allGood := vr.And(intact, ctype == c01PayloadType, bound, metaOK, w.collabOK)
		vr.Assert(vr.Not(allGood), "an intact, bound signature with satisfied metadata and trusting collaborators is accepted")
	}
}

type c01Reader struct{}

func (c01Reader) Read(p []byte) (int, error) { return 0, errors.New("not read in this harness") }

// VsymC01Blob: VerifyBlob binds digest and size always, media type when the caller states one.
func VsymC01Blob() {
	kitEnv = kitEnvState{}
	kitInstallEnvelope()
	level, ov := kitLevel("lv", vr.Param("overrides", 1))
	kitEnv.verifyErr = vr.Choice("verify", 2) * 3
	scheme := signature.SigningSchemeX509
	ctype := c01ContentType()
	pl, payloadBytes := c01DrawPayload(vr.Param("annotations", 1))
	w := c01Collaborators(scheme)
	algs := []signature.Algorithm{signature.AlgorithmPS256, signature.AlgorithmPS384, signature.AlgorithmPS512, signature.AlgorithmES256, signature.AlgorithmES384, signature.AlgorithmES512, 0, 99}
	alg := algs[vr.Choice("sigalg", len(algs))]
	kitEnv.content = &signature.EnvelopeContent{
		Payload: signature.Payload{ContentType: ctype, Content: payloadBytes},
		SignerInfo: signature.SignerInfo{
			SignedAttributes:   signature.SignedAttributes{SigningScheme: scheme, SigningTime: time.Unix(1700000000, 0)},
			SignatureAlgorithm: alg,
			CertificateChain:   []*x509.Certificate{w.leaf},
			Signature:          []byte("sig"),
		},
	}
	// the blob as seen by the caller's descriptor generator: digest depends on the algorithm asked for
	blobMedia := vr.Str("blob.mediaType", 3)
	blobSize := vr.Int64("blob.size")
	blobDigest := map[digest.Algorithm]string{digest.SHA256: vr.Str("blob.sha256", 3), digest.SHA384: vr.Str("blob.sha384", 3), digest.SHA512: vr.Str("blob.sha512", 3)}
	for _, d := range blobDigest {
		vr.Assume(len(d) > 0) // a computed digest is never empty
	}
	genErr := vr.Choice("genErr", 2) == 1
	var askedAlgo []digest.Algorithm
	gen := func(a digest.Algorithm) (ocispec.Descriptor, error) {
		askedAlgo = append(askedAlgo, a)
		if genErr {
			return ocispec.Descriptor{}, errors.New("cannot read blob")
		}
		return ocispec.Descriptor{MediaType: blobMedia, Digest: digest.Digest(blobDigest[a]), Size: blobSize}, nil
	}
	required := c01Metadata(vr.Param("metadata", 1))
	v, err := NewVerifierWithOptions(w.store, VerifierOptions{BlobTrustPolicy: kitBlobDoc(level, ov, []string{"ca:s"}, []string{"*"}, true),
		RevocationCodeSigningValidator: w.validator, RevocationTimestampingValidator: w.tsVal})
	if err != nil {
		vr.Assert(false, "verifier construction with a valid policy fails")
		return
	}
	byName := vr.Choice("byName", 2) == 1
	opts := notation.BlobVerifierVerifyOptions{SignatureMediaType: kitJWS, UserMetadata: required}
	if byName {
		opts.TrustPolicyName = "p"
	}
	outcome, verr := v.VerifyBlob(context.Background(), gen, []byte{1, 2, 3}, opts)
	vr.Assert(outcome != nil, "outcome returned once a statement is selected")
	if outcome == nil {
		return
	}
	vr.Assert((outcome.Error == nil) == (verr == nil), "outcome.Error is set exactly when an error is returned")
	wantAlgo := map[signature.Algorithm]digest.Algorithm{signature.AlgorithmPS256: digest.SHA256, signature.AlgorithmES256: digest.SHA256,
		signature.AlgorithmPS384: digest.SHA384, signature.AlgorithmES384: digest.SHA384, signature.AlgorithmPS512: digest.SHA512, signature.AlgorithmES512: digest.SHA512}[alg]
	intact := kitEnv.verifyErr == 0
	metaOK := c01MetadataSatisfied(required, pl)
	if verr == nil {
		vr.Reach("accepted")
		vr.Assert(intact && ctype == c01PayloadType, "accepted only if intact with the Notary payload type")
		vr.Assert(wantAlgo != "" && len(askedAlgo) == 1 && askedAlgo[0] == wantAlgo, "blob digest computed with the hash bound to the signature algorithm")
		if wantAlgo != "" {
			bound := pl.shape == 0 && vr.And(pl.digest == blobDigest[wantAlgo], pl.size == blobSize, vr.Or(blobMedia == "", pl.mediaType == blobMedia))
			vr.Assert(bound, "accepted only if signed digest and size equal the blob's, and the media type when the caller states one")
		}
		vr.Assert(metaOK, "accepted only if every required metadata pair is in the signed payload")
	} else {
		vr.Reach("rejected")
		if wantAlgo != "" && !genErr {
			bound := pl.shape == 0 && vr.And(pl.digest == blobDigest[wantAlgo], pl.size == blobSize, vr.Or(blobMedia == "", pl.mediaType == blobMedia))
			vr.Assert(vr.Not(vr.And(intact, ctype == c01PayloadType, bound, metaOK, w.collabOK)), "an intact, bound blob signature with satisfied metadata is accepted")
		}
	}
	_ = trustpolicy.LevelStrict
}

func init() {
	vsymHarnesses["VsymC01OCI"] = VsymC01OCI
	vsymHarnesses["VsymC01Blob"] = VsymC01Blob
}
