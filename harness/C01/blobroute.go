//go:build verif

package verifier

import (
	"context"
	"crypto/x509"
	"time"

	"github.com/notaryproject/notation-core-go/signature"
	"github.com/notaryproject/notation-go"
	vr "github.com/notaryproject/notation-go/internal/zzvr"
	"github.com/notaryproject/notation-go/internal/zzvr/blobkit"
	"github.com/opencontainers/go-digest"
	ocispec "github.com/opencontainers/image-spec/specs-go/v1"
)

// VsymC01BlobRoute: notation.VerifyBlob. The blob is what the caller's reader delivers - in one piece or in
// several, the last one together with io.EOF or not - and a signature is accepted only if it was made for
// exactly those bytes (digest under the hash bound to the signature algorithm, and size), for the media type
// the caller states, with the metadata the caller requires.
func VsymC01BlobRoute() {
	kitEnv = kitEnvState{}
	kitInstallEnvelope()
	blobkit.Reset()
	blobs := []string{"", "b", "blob content", "blob content and a tail"}
	signed := blobs[vr.Choice("signedBlob", len(blobs))]
	presented := blobs[vr.Choice("presentedBlob", len(blobs))]
	k := vr.Choice("sigalg", 3)
	alg := []signature.Algorithm{signature.AlgorithmPS256, signature.AlgorithmES384, signature.AlgorithmPS512}[k]
	hash := []digest.Algorithm{digest.SHA256, digest.SHA384, digest.SHA512}[k]
	signedMT := []string{"text/plain", "application/octet-stream"}[vr.Choice("signedMediaType", 2)]
	// the caller's media type is compared as stated: parameters and letter case are part of it
	callerMT := []string{"", "text/plain", "application/octet-stream", "text/plain; charset=utf-8", "Text/Plain"}[vr.Choice("callerMediaType", 5)]
	sizeOff := int64(vr.Choice("signedSizeOffBy", 2))
	signedMeta := vr.Choice("signedMetadata", 2) == 1
	var required map[string]string
	if vr.Choice("requiredMetadata", 2) == 1 {
		required = map[string]string{"k": "v"}
	}
	target := []any{"mediaType", vr.JStr(signedMT), "digest", vr.JStr(blobkit.DigestOf(hash, signed)), "size", vr.JNum(int64(len(signed)) + sizeOff)}
	if signedMeta {
		target = append(target, "annotations", vr.JObj("k", vr.JStr("v")))
	}
	leaf := &x509.Certificate{Raw: []byte{'c', '0'}}
	leaf.Subject.Country, leaf.Subject.Province, leaf.Subject.Organization = []string{"US"}, []string{"WA"}, []string{"a"}
	leaf.NotBefore, leaf.NotAfter = time.Unix(946684800, 0), time.Unix(4102444800, 0)
	kitEnv.content = &signature.EnvelopeContent{
		Payload: signature.Payload{ContentType: c01PayloadType, Content: vr.JSONBytes(vr.JObj("targetArtifact", vr.JObj(target...)))},
		SignerInfo: signature.SignerInfo{SignedAttributes: signature.SignedAttributes{SigningScheme: signature.SigningSchemeX509, SigningTime: time.Unix(1700000000, 0)},
			SignatureAlgorithm: alg, CertificateChain: []*x509.Certificate{leaf}, Signature: []byte("sig")},
	}
	store := &kitStore{answers: map[string]kitStoreAnswer{"ca:s": {certs: []*x509.Certificate{leaf}}}}
	v, err := NewVerifierWithOptions(store, VerifierOptions{BlobTrustPolicy: kitBlobDoc("strict", nil, []string{"ca:s"}, []string{"*"}, true),
		RevocationCodeSigningValidator: &kitValidator{results: kitOKResults(1)}, RevocationTimestampingValidator: &kitValidator{}})
	vr.Assert(err == nil, "harness: verifier")
	if err != nil {
		return
	}
	opts := notation.VerifyBlobOptions{ContentMediaType: callerMT}
	opts.SignatureMediaType = kitJWS
	opts.UserMetadata = required
	rd := blobkit.NewReader(presented)
	desc, outcome, verr := notation.VerifyBlob(context.Background(), v, rd, []byte{1, 2, 3}, opts)
	bound := signed == presented && sizeOff == 0 && (callerMT == "" || callerMT == signedMT)
	metaOK := required == nil || signedMeta
	vr.Assert((verr == nil) == (bound && metaOK), "a blob signature is accepted iff it was made for exactly the bytes the reader delivers (digest and size), for the media type the caller states, with the required metadata")
	if verr != nil {
		vr.Reach("rejected")
		return
	}
	vr.Assert(outcome != nil && outcome.Error == nil, "success comes with an outcome without error")
	if vr.Symbolic() {
		vr.Assert(len(blobkit.Algs) == 1 && blobkit.Algs[0] == hash, "the blob is digested once, with the hash bound to the signature algorithm")
	}
	vr.Assert(string(desc.Digest) == blobkit.DigestOf(hash, presented) && desc.Size == int64(len(presented)) && desc.MediaType == signedMT, "the descriptor returned is that of the blob that was read")
	vr.Reach("accepted")
}

func init() { vsymHarnesses["VsymC01BlobRoute"] = VsymC01BlobRoute }

// VsymC01MetadataSequence: several verifications that share one required-metadata map (as notation.Verify does for
// the signatures of an artifact, and as a caller re-using its options does). Each is decided by the pairs its own
// signature carries, whatever was verified before, and the caller's map is left as it was.
func VsymC01MetadataSequence() {
	kitEnv = kitEnvState{}
	kitInstallEnvelope()
	leaf := &x509.Certificate{Raw: []byte{'c', '0'}}
	leaf.Subject.Country, leaf.Subject.Province, leaf.Subject.Organization = []string{"US"}, []string{"WA"}, []string{"a"}
	leaf.NotBefore, leaf.NotAfter = time.Unix(946684800, 0), time.Unix(4102444800, 0)
	store := &kitStore{answers: map[string]kitStoreAnswer{"ca:s": {certs: []*x509.Certificate{leaf}}}}
	level := []string{"strict", "permissive", "audit"}[vr.Choice("level", 3)]
	v, err := NewVerifierWithOptions(store, VerifierOptions{OCITrustPolicy: kitOCIDoc(level, nil, []string{"ca:s"}, []string{"*"}),
		RevocationCodeSigningValidator: &kitValidator{results: kitOKResults(1)}, RevocationTimestampingValidator: &kitValidator{}})
	vr.Assert(err == nil, "harness: verifier")
	if err != nil {
		return
	}
	required := map[string]string{"k": "v", "k2": "v2"}
	opts := notation.VerifierVerifyOptions{ArtifactReference: kitRef, SignatureMediaType: kitJWS, UserMetadata: required}
	desc := ocispec.Descriptor{MediaType: "m", Digest: "d", Size: 1}
	n := vr.Param("verifications", 2)
	for i := 0; i < n; i++ {
		// what this signature carries: both pairs, one of them, one with another value, none; made for this artifact or another
		carries := vr.Choice("signatureCarries", 5)
		var ann []any
		switch carries {
		case 0:
			ann = []any{"k", vr.JStr("v"), "k2", vr.JStr("v2")}
		case 1:
			ann = []any{"k", vr.JStr("v")}
		case 2:
			ann = []any{"k", vr.JStr("v"), "k2", vr.JStr("other")}
		case 3:
			ann = nil
		case 4:
			ann = []any{"k", vr.JStr("v"), "k2", vr.JStr("v2"), "k3", vr.JStr("v3")}
		}
		otherArtifact := vr.Choice("signedForAnotherArtifact", 2) == 1
		dg := "d"
		if otherArtifact {
			dg = "e"
		}
		target := []any{"mediaType", vr.JStr("m"), "digest", vr.JStr(dg), "size", vr.JNum(1)}
		if ann != nil {
			target = append(target, "annotations", vr.JObj(ann...))
		}
		kitEnv.content = &signature.EnvelopeContent{
			Payload: signature.Payload{ContentType: c01PayloadType, Content: vr.JSONBytes(vr.JObj("targetArtifact", vr.JObj(target...)))},
			SignerInfo: signature.SignerInfo{SignedAttributes: signature.SignedAttributes{SigningScheme: signature.SigningSchemeX509, SigningTime: time.Unix(1700000000, 0)},
				SignatureAlgorithm: signature.AlgorithmPS256, CertificateChain: []*x509.Certificate{leaf}, Signature: []byte("sig")},
		}
		_, verr := v.Verify(context.Background(), desc, []byte{1}, opts)
		want := (carries == 0 || carries == 4) && !otherArtifact
		vr.Assert((verr == nil) == want, "a signature is accepted iff it is bound to the artifact and carries every required pair - whatever the same options were used for before")
		vr.Assert(len(required) == 2 && required["k"] == "v" && required["k2"] == "v2", "verification leaves the caller's required-metadata map as it was")
		if i > 0 {
			vr.Reach("verified again with the same options")
		}
	}
}

func init() { vsymHarnesses["VsymC01MetadataSequence"] = VsymC01MetadataSequence }
