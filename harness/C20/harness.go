//go:build verif

package plugin

// C20: plugin installation follows the version rules and never half-replaces a plugin.
// Histories of install / uninstall operations over the file-system model, against a reference model.

import (
	"context"
	"errors"
	"os"
	"strings"

	"github.com/notaryproject/notation-go/dir"
	"github.com/notaryproject/notation-go/internal/zzvr/fskit"
	vr "github.com/notaryproject/notation-go/internal/zzvr"
	"github.com/notaryproject/notation-plugin-framework-go/plugin"
)

// c20Exec is the process model: running an executable file prints the metadata its content encodes.
// It is used in both modes (the repo's own tests replace the commander the same way).
type c20Exec struct{ runs []string }

func (c *c20Exec) Output(ctx context.Context, path string, command plugin.Command, req []byte) ([]byte, []byte, error) {
	fskit.Quiet()
	defer fskit.Loud()
	c.runs = append(c.runs, path)
	fi, err := os.Stat(path)
	if err != nil {
		return nil, nil, err
	}
	if !fi.Mode().IsRegular() || fi.Mode().Perm()&0o100 == 0 {
		return nil, nil, errors.New("permission denied")
	}
	b, err := os.ReadFile(path)
	if err != nil {
		return nil, nil, err
	}
	if command != plugin.CommandGetMetadata {
		return nil, []byte(`{"errorCode":"ERROR","errorMessage":"unsupported"}`), errors.New("exit status 1")
	}
	return b, nil, nil
}

// versions in semver precedence order; rank[i] gives the precedence class (equal rank = equal precedence)
var c20Versions = []string{"0.9.0", "1.0.0-alpha", "1.0.0", "1.0.0+b", "1.1.0", "1.x", "", "1.1", "2", "v1.2.0"}
var c20Rank = []int{0, 1, 2, 2, 3, -1, -2, -1, -1, -1} // -1 invalid semver, -2 empty (metadata invalid)

func c20Meta(name string, version int) string {
	return `{"name":"` + name + `","description":"d","version":"` + c20Versions[version] + `","url":"u","supportedContractVersions":["1.0"],"capabilities":["SIGNATURE_GENERATOR.RAW"]}`
}

// c20Source describes one installation source directory.
type c20Source struct {
	dir       string
	candidate string // file name of the candidate ("notation-foo"), "" if absent
	candExec  bool
	metaName  string // name reported by the candidate's metadata
	version   int
	second    bool // a second well-named file "notation-bar"
	secExec   bool
	before    bool // "a.txt" (sorts before the candidate)
	after     bool // "zzz.txt" (sorts after the candidate)
	license   bool // "LICENSE"
	sub       bool // a sub-directory "sub" holding "lib.so"
	subNamed  bool // a sub-directory "notation-sub" (well-named, but not a regular file)
	link      int  // 1: a symbolic link "link.so" to a regular file outside the source, 2: a dangling link "link.so", 3: a link "notation-lnk" to the candidate
}

func (s *c20Source) build() {
	must(os.MkdirAll(s.dir, 0o755))
	mode := func(x bool) os.FileMode {
		if x {
			return 0o755
		}
		return 0o644
	}
	if s.candidate != "" {
		must(os.WriteFile(s.dir+"/"+s.candidate, []byte(c20Meta(s.metaName, s.version)), mode(s.candExec)))
	}
	if s.second {
		must(os.WriteFile(s.dir+"/notation-bar", []byte(c20Meta("bar", 2)), mode(s.secExec)))
	}
	if s.before {
		must(os.WriteFile(s.dir+"/a.txt", []byte("A"), 0o644))
	}
	if s.after {
		must(os.WriteFile(s.dir+"/zzz.txt", []byte("Z"), 0o644))
	}
	if s.license {
		must(os.WriteFile(s.dir+"/LICENSE", []byte("L"), 0o600))
	}
	if s.sub {
		must(os.MkdirAll(s.dir+"/sub", 0o755))
		must(os.WriteFile(s.dir+"/sub/lib.so", []byte("S"), 0o644))
	}
	if s.subNamed {
		must(os.MkdirAll(s.dir+"/notation-sub", 0o755))
	}
	switch s.link {
	case 1:
		must(os.WriteFile(s.dir+"-outside.so", []byte("O"), 0o644))
		must(os.Symlink(s.dir+"-outside.so", s.dir+"/link.so"))
	case 2:
		must(os.Symlink(s.dir+"/missing.so", s.dir+"/link.so"))
	case 3:
		must(os.Symlink(s.dir+"/"+s.candidate, s.dir+"/notation-lnk"))
	}
}

func must(err error) {
	if err != nil {
		panic("harness set-up: " + err.Error())
	}
}

// c20Installed is the reference model of one installed plugin.
type c20Installed struct {
	version int
	files   []string // "name content exec" lines, sorted
}

func c20Line(name, content string, exec bool) string {
	x := " -"
	if exec {
		x = " x"
	}
	return "./" + name + " file" + x + " " + content
}

func c20Sort(a []string) {
	for i := 1; i < len(a); i++ {
		for j := i; j > 0 && a[j] < a[j-1]; j-- {
			a[j], a[j-1] = a[j-1], a[j]
		}
	}
}

// VsymC20 explores histories of install / uninstall operations.
func VsymC20() {
	root := fskit.Root()
	defer fskit.Cleanup()
	exec := &c20Exec{}
	saved := executor
	executor = exec
	defer func() { executor = saved }()
	plugins := root + "/plugins"
	must(os.MkdirAll(plugins, 0o755))
	mgr := NewCLIManager(dir.NewSysFS(plugins))
	ctx := context.Background()
	installed := map[string]*c20Installed{}
	nOps := vr.Param("ops", 2)

	// optionally start from an installed plugin of arbitrary version (a history prefix compressed into a state)
	if vr.Choice("preinstalled", 2) == 1 {
		v := vr.Choice("preVersion", 5)
		must(os.MkdirAll(plugins+"/foo", 0o755))
		must(os.WriteFile(plugins+"/foo/notation-foo", []byte(c20Meta("foo", v)), 0o755))
		must(os.WriteFile(plugins+"/foo/old.txt", []byte("O"), 0o644))
		f := []string{c20Line("notation-foo", c20Meta("foo", v), true), c20Line("old.txt", "O", false)}
		c20Sort(f)
		installed["foo"] = &c20Installed{version: v, files: f}
	}

	for op := 0; op < nOps; op++ {
		kind := vr.Choice("op", 3) // 0 install from file, 1 install from directory, 2 uninstall
		if kind == 2 {
			before := fskit.Tree(plugins)
			name := "foo"
			if vr.Choice("uninstallWhich", 2) == 1 {
				name = "bar"
			}
			err := mgr.Uninstall(ctx, name)
			if _, ok := installed[name]; ok {
				vr.Assert(err == nil, "an installed plugin can be uninstalled by its name")
				delete(installed, name)
				_, serr := os.Stat(plugins + "/" + name)
				vr.Assert(serr != nil, "uninstall removes the plugin directory")
				vr.Reach("uninstalled")
			} else {
				vr.Assert(err != nil && errors.Is(err, os.ErrNotExist), "uninstalling a plugin that is not installed: os.ErrNotExist")
				vr.Assert(fskit.SameTree(before, fskit.Tree(plugins)), "a refused uninstall changes nothing")
			}
			c20CheckListing(mgr, installed)
			continue
		}
		src := &c20Source{dir: root + "/src" + string(rune('0'+op)), candidate: "notation-foo", metaName: "foo"}
		// only the last operation of a history is drawn from the full space; the earlier ones establish
		// installed states (plain sources, valid versions)
		full := op == nOps-1
		shape := 0
		if full {
			shape = vr.Choice("sourceShape", 9)
		}
		switch shape {
		case 1:
			src.metaName = "bar" // metadata names another plugin than the file
		case 2:
			src.candidate = "" // no candidate at all
		case 3:
			src.candidate = "foo" // not named notation-*
		case 4:
			src.second = true
			src.secExec = vr.Choice("secondExec", 2) == 1
		case 5:
			src.candidate = "notation-" // empty plugin name
		case 6:
			src.subNamed = true
		case 7:
			src.candidate = "notation-Foo" // the metadata names the plugin in another letter case
		case 8:
			src.candidate = "linux-notation-foo" // "notation-" somewhere in the file name, not in front of it
		}
		if full {
			src.candExec = vr.Choice("candidateExec", 2) == 1
			src.version = vr.Choice("version", len(c20Versions))
		} else {
			src.candExec = true
			src.version = vr.Choice("version", 5)
		}
		if kind == 1 {
			if full {
				src.before = vr.Choice("fileBefore", 2) == 1
				src.after = vr.Choice("fileAfter", 2) == 1
			} else {
				src.before, src.after = true, true
			}
			if full && shape == 0 {
				// symbolic links in the source directory are not regular files: never candidates, never installed
				src.link = vr.Choice("symlinkInSource", 4)
			}
			if full && vr.Tier() > 0 {
				src.license = vr.Choice("license", 2) == 1
				src.sub = vr.Choice("subdir", 2) == 1
			} else {
				src.license, src.sub = src.after, src.before
			}
		}
		overwrite := vr.Choice("overwrite", 2) == 1
		src.build()

		// ---- reference decision ----------------------------------------------------
		// 1. the candidate
		candName, candOK := "", false
		makeExec := false
		if kind == 0 {
			// the executable itself
			candOK = src.candidate != "" && strings.HasPrefix(src.candidate, "notation-") && src.candidate != "notation-" && src.candExec
			candName = src.candidate
		} else {
			var named, execs []string
			if src.candidate != "" && strings.HasPrefix(src.candidate, "notation-") && src.candidate != "notation-" {
				named = append(named, src.candidate)
				if src.candExec {
					execs = append(execs, src.candidate)
				}
			}
			if src.second {
				named = append(named, "notation-bar")
				if src.secExec {
					execs = append(execs, "notation-bar")
				}
			}
			switch {
			case len(execs) == 1:
				candOK, candName = true, execs[0]
			case len(execs) == 0 && len(named) == 1:
				candOK, candName, makeExec = true, named[0], true
			}
		}
		pluginName := strings.TrimPrefix(candName, "notation-")
		newVersion, newMetaName := src.version, src.metaName
		if candName == "notation-bar" {
			newVersion, newMetaName = 2, "bar"
		}
		// 2. its metadata
		metaOK := candOK && c20Rank[newVersion] != -2 && newMetaName == pluginName
		// 3. version rule against the installed plugin
		allowed := metaOK
		old, exists := installed[pluginName]
		if metaOK && exists && !overwrite {
			allowed = c20Rank[newVersion] >= 0 && c20Rank[old.version] >= 0 && c20Rank[newVersion] > c20Rank[old.version]
		}

		before := fskit.Tree(plugins)
		path := src.dir
		if kind == 0 {
			path = src.dir + "/" + src.candidate
		}
		oldMeta, newMeta, err := mgr.Install(ctx, CLIInstallOptions{PluginPath: path, Overwrite: overwrite})

		if kind == 1 && !src.candExec && src.after {
			vr.FindingKey("dir-source-nonexecutable-candidate-followed-by-other-file")
		}
		vr.Assert((err == nil) == allowed, "installation succeeds iff the source yields exactly one candidate with valid, matching metadata and - unless overwrite is requested - a strictly higher version than the installed plugin")
		vr.FindingKey("")
		if err != nil {
			vr.Assert(oldMeta == nil && newMeta == nil, "a refused installation returns no metadata")
			vr.Assert(fskit.SameTree(before, fskit.Tree(plugins)), "a refused installation leaves the installed plugins' files exactly as they were")
			vr.Reach("install refused")
			if exists && metaOK && !overwrite {
				vr.Reach("refused by the version rule")
			}
			c20CheckListing(mgr, installed)
			continue
		}
		if !allowed {
			return
		}
		// success: the plugin directory holds exactly the regular top-level files of the source
		var want []string
		if kind == 0 {
			want = []string{c20Line(candName, c20Meta(newMetaName, newVersion), true)}
		} else {
			if src.candidate != "" {
				want = append(want, c20Line(src.candidate, c20Meta(src.metaName, src.version), src.candExec || (makeExec && candName == src.candidate)))
			}
			if src.second {
				want = append(want, c20Line("notation-bar", c20Meta("bar", 2), src.secExec || (makeExec && candName == "notation-bar")))
			}
			if src.before {
				want = append(want, c20Line("a.txt", "A", false))
			}
			if src.after {
				want = append(want, c20Line("zzz.txt", "Z", false))
			}
			if src.license {
				want = append(want, c20Line("LICENSE", "L", false))
			}
		}
		c20Sort(want)
		got := fskit.Tree(plugins + "/" + pluginName)
		vr.Assert(len(got) > 0 && got[0] == ". dir" && fskit.SameTree(got[1:], want), "after a successful installation the plugin directory holds exactly the regular top-level files of the source")
		vr.Assert(newMeta != nil && newMeta.Name == pluginName && newMeta.Version == c20Versions[newVersion], "the new metadata is returned")
		if exists {
			vr.Assert(oldMeta != nil && oldMeta.Version == c20Versions[old.version], "the metadata of the replaced plugin is returned")
			vr.Reach("replaced")
		} else {
			vr.Assert(oldMeta == nil, "no existing metadata for a fresh installation")
		}
		installed[pluginName] = &c20Installed{version: newVersion, files: want}
		// the installed plugin answers with the new metadata
		p, gerr := mgr.Get(ctx, pluginName)
		vr.Assert(gerr == nil && p != nil, "the installed plugin can be fetched by its name")
		if gerr == nil && p != nil {
			m, merr := p.GetMetadata(ctx, &plugin.GetMetadataRequest{})
			vr.Assert(merr == nil && m != nil && m.Version == c20Versions[newVersion] && m.Name == pluginName, "the installed plugin answers with the new metadata")
		}
		vr.Reach("installed")
		if kind == 1 && makeExec {
			vr.Reach("installed a non-executable candidate")
		}
		c20CheckListing(mgr, installed)
	}
}

func c20CheckListing(mgr *CLIManager, installed map[string]*c20Installed) {
	names, err := mgr.List(context.Background())
	vr.Assert(err == nil && len(names) == len(installed), "listing reports exactly the installed plugins")
	for _, n := range names {
		_, ok := installed[n]
		vr.Assert(ok, "every listed plugin is installed")
	}
}

func init() { vsymHarnesses["VsymC20"] = VsymC20 }
