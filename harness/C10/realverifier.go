//go:build verif

package verifier

import (
	"context"
	"crypto/x509"
	"errors"
	"time"

	"github.com/notaryproject/notation-core-go/signature"
	"github.com/notaryproject/notation-go"
	vr "github.com/notaryproject/notation-go/internal/zzvr"
	"github.com/notaryproject/notation-go/verifier/trustpolicy"
	"github.com/opencontainers/go-digest"
	ocispec "github.com/opencontainers/image-spec/specs-go/v1"
)

// c10rRepo: a repository holding one artifact with one signature; every call is counted.
type c10rRepo struct {
	resolved                 ocispec.Descriptor
	resolves, lists, fetches int
}

func (r *c10rRepo) Resolve(ctx context.Context, reference string) (ocispec.Descriptor, error) {
	r.resolves++
	return r.resolved, nil
}

func (r *c10rRepo) ListSignatures(ctx context.Context, desc ocispec.Descriptor, fn func(signatureManifests []ocispec.Descriptor) error) error {
	r.lists++
	return fn([]ocispec.Descriptor{{MediaType: "application/vnd.oci.image.manifest.v1+json", Digest: "sha256:cccccccccccccccccccccccccccccccccccccccccccccccccccccccccccccccc", Size: 3}})
}

func (r *c10rRepo) FetchSignatureBlob(ctx context.Context, desc ocispec.Descriptor) ([]byte, ocispec.Descriptor, error) {
	r.fetches++
	return []byte{1, 2, 3}, ocispec.Descriptor{MediaType: kitJWS, Size: 3}, nil
}

func (r *c10rRepo) PushSignature(ctx context.Context, mediaType string, blob []byte, subject ocispec.Descriptor, annotations map[string]string) (blobDesc, manifestDesc ocispec.Descriptor, err error) {
	return ocispec.Descriptor{}, ocispec.Descriptor{}, errors.New("not a push harness")
}

// VsymC10Real: notation.Verify with the library's own verifier (either constructor) and a repository that counts
// its calls. Under a statement whose level is skip nothing is resolved, listed or fetched; under any other level
// the one signature is fetched, verified and its outcome returned with the resolved descriptor.
// (This file uses the public API only.)
func VsymC10Real() {
	kitEnv = kitEnvState{}
	kitInstallEnvelope()
	leaf := &x509.Certificate{Raw: []byte{'c', '0'}}
	leaf.Subject.Country, leaf.Subject.Province, leaf.Subject.Organization = []string{"US"}, []string{"WA"}, []string{"a"}
	leaf.NotBefore, leaf.NotAfter = time.Unix(946684800, 0), time.Unix(4102444800, 0)
	const dg = "sha256:aaaaaaaaaaaaaaaaaaaaaaaaaaaaaaaaaaaaaaaaaaaaaaaaaaaaaaaaaaaaaaaa"
	resolved := ocispec.Descriptor{MediaType: "application/vnd.oci.image.manifest.v1+json", Digest: digest.Digest(dg), Size: 528}
	// the caller's options (required metadata, plugin configuration) do not change what a skip level means
	var userMetadata, pluginConfig map[string]string
	o := vr.Choice("callerOptions", 4)
	if o&1 != 0 {
		userMetadata = map[string]string{"k": "v"}
	}
	if o&2 != 0 {
		pluginConfig = map[string]string{"c": "d"}
	}
	kitEnv.content = &signature.EnvelopeContent{
		Payload: signature.Payload{ContentType: "application/vnd.cncf.notary.payload.v1+json", Content: vr.JSONBytes(vr.JObj("targetArtifact", vr.JObj("mediaType", vr.JStr(resolved.MediaType), "digest", vr.JStr(dg), "size", vr.JNum(528), "annotations", vr.JObj("k", vr.JStr("v")))))},
		SignerInfo: signature.SignerInfo{SignedAttributes: signature.SignedAttributes{SigningScheme: signature.SigningSchemeX509, SigningTime: time.Unix(1700000000, 0)},
			SignatureAlgorithm: signature.AlgorithmPS256, CertificateChain: []*x509.Certificate{leaf}, Signature: []byte("sig")},
	}
	store := &kitStore{answers: map[string]kitStoreAnswer{"ca:s": {certs: []*x509.Certificate{leaf}}}}
	level := []string{"skip", "strict", "audit"}[vr.Choice("level", 3)]
	st := trustpolicy.OCITrustPolicy{Name: "p", RegistryScopes: []string{"reg.io/repo"}, SignatureVerification: trustpolicy.SignatureVerification{VerificationLevel: level}}
	if level != "skip" {
		st.TrustStores, st.TrustedIdentities = []string{"ca:s"}, []string{"*"}
	}
	doc := &trustpolicy.OCIDocument{Version: "1.0", TrustPolicies: []trustpolicy.OCITrustPolicy{st}}
	opts := VerifierOptions{RevocationCodeSigningValidator: &kitValidator{results: kitOKResults(1)}, RevocationTimestampingValidator: &kitValidator{}}
	var v notation.Verifier
	var err error
	if vr.Choice("constructor", 2) == 1 {
		v, err = NewWithOptions(doc, store, nil, opts)
	} else {
		opts.OCITrustPolicy = doc
		v, err = NewVerifierWithOptions(store, opts)
	}
	vr.Assert(err == nil, "harness: verifier")
	if err != nil {
		return
	}
	repo := &c10rRepo{resolved: resolved}
	ref := "reg.io/repo@" + dg // the library's verifier selects the statement by registry/repository@digest references
	desc, outcomes, verr := notation.Verify(context.Background(), v, repo, notation.VerifyOptions{ArtifactReference: ref, MaxSignatureAttempts: 3, UserMetadata: userMetadata, PluginConfig: pluginConfig})
	if level == "skip" {
		vr.Assert(verr == nil && len(outcomes) == 1 && outcomes[0].VerificationLevel != nil && outcomes[0].VerificationLevel.Name == "skip", "under a skip-level statement verification succeeds with the single skip outcome")
		vr.Assert(repo.resolves == 0 && repo.lists == 0 && repo.fetches == 0, "... and nothing is resolved, listed or fetched at all")
		vr.Reach("skip touches nothing")
		return
	}
	vr.Assert(verr == nil && len(outcomes) == 1 && outcomes[0].Error == nil, "the one good signature verifies")
	vr.Assert(repo.resolves == 1 && repo.lists == 1 && repo.fetches == 1, "the artifact is resolved once, its signatures listed once, the one signature fetched once")
	vr.Assert(desc.Digest == resolved.Digest && desc.Size == resolved.Size && desc.MediaType == resolved.MediaType, "the resolved descriptor is returned")
	vr.Reach("verified through the registry")
}

func init() { vsymHarnesses["VsymC10Real"] = VsymC10Real }
