//go:build verif

package notation

import (
	"context"
	"errors"
	"fmt"

	"github.com/notaryproject/notation-core-go/signature"
	vr "github.com/notaryproject/notation-go/internal/zzvr"
	"github.com/notaryproject/notation-go/verifier/trustpolicy"
	"github.com/opencontainers/go-digest"
	ocispec "github.com/opencontainers/image-spec/specs-go/v1"
	"oras.land/oras-go/v2/errdef"
)

const (
	c10DigestA = "sha256:aaaaaaaaaaaaaaaaaaaaaaaaaaaaaaaaaaaaaaaaaaaaaaaaaaaaaaaaaaaaaaaa"
	c10DigestB = "sha256:bbbbbbbbbbbbbbbbbbbbbbbbbbbbbbbbbbbbbbbbbbbbbbbbbbbbbbbbbbbbbbbb"
)

// statuses of a listed signature
const (
	c10Verifies = iota
	c10FailsWithOutcome
	c10FailsNilOutcome
	c10Unfetchable
)

type c10Repo struct {
	resolveErr bool
	listErr    bool
	resolved   ocispec.Descriptor
	status     []int
	cutAfter   []bool // page boundary after signature i
	emptyFirst bool   // an empty first page
	resolveLog []string
	listLog    int
	fetchLog   []int
	descOK     bool
	notFound   bool // an unfetchable signature fails as "not found" (else with an unspecific error)
}

func (r *c10Repo) Resolve(ctx context.Context, reference string) (ocispec.Descriptor, error) {
	r.resolveLog = append(r.resolveLog, reference)
	if r.resolveErr {
		return ocispec.Descriptor{}, errors.New("resolve failed")
	}
	return r.resolved, nil
}

func (r *c10Repo) ListSignatures(ctx context.Context, desc ocispec.Descriptor, fn func(signatureManifests []ocispec.Descriptor) error) error {
	r.listLog++
	r.descOK = desc.Digest == r.resolved.Digest && desc.Size == r.resolved.Size && desc.MediaType == r.resolved.MediaType
	if r.listErr {
		return errors.New("listing failed")
	}
	if r.emptyFirst {
		if err := fn(nil); err != nil {
			return err
		}
	}
	var page []ocispec.Descriptor
	for i := range r.status {
		page = append(page, ocispec.Descriptor{MediaType: "application/vnd.oci.image.manifest.v1+json", Digest: digest.Digest(c10DigestB), Size: int64(i)})
		if i == len(r.status)-1 || r.cutAfter[i] {
			if err := fn(page); err != nil {
				return err
			}
			page = nil
		}
	}
	return nil
}

func (r *c10Repo) FetchSignatureBlob(ctx context.Context, desc ocispec.Descriptor) ([]byte, ocispec.Descriptor, error) {
	i := int(desc.Size)
	r.fetchLog = append(r.fetchLog, i)
	if r.status[i] == c10Unfetchable {
		if r.notFound {
			// what oras' registry client and OCI layout store answer for content that is not there
			return nil, ocispec.Descriptor{}, fmt.Errorf("%s: %w", desc.Digest, errdef.ErrNotFound)
		}
		return nil, ocispec.Descriptor{}, errors.New("cannot fetch")
	}
	return []byte{byte(i)}, ocispec.Descriptor{MediaType: "application/jose+json", Size: 1}, nil
}

func (r *c10Repo) PushSignature(ctx context.Context, mediaType string, blob []byte, subject ocispec.Descriptor, annotations map[string]string) (blobDesc, manifestDesc ocispec.Descriptor, err error) {
	panic("PushSignature must not be called by Verify")
}

type c10Verifier struct {
	repo      *c10Repo
	verifyLog []int
	outcomes  []*VerificationOutcome
	argsOK    bool
	optsOK    bool
	ref       string
}

func (v *c10Verifier) Verify(ctx context.Context, desc ocispec.Descriptor, signature []byte, opts VerifierVerifyOptions) (*VerificationOutcome, error) {
	i := int(signature[0])
	v.verifyLog = append(v.verifyLog, i)
	if !(desc.Digest == v.repo.resolved.Digest && desc.Size == v.repo.resolved.Size && opts.SignatureMediaType == "application/jose+json") {
		v.argsOK = false
	}
	// what the caller asked for reaches the verification of every signature: the reference the policy is selected
	// by, the metadata the signature must carry, the plugin configuration
	// (the reference may be handed on as given or in a resolved form: it must name the caller's repository)
	if !(len(opts.ArtifactReference) >= 11 && opts.ArtifactReference[:11] == "reg.io/repo" && len(opts.UserMetadata) == 1 && opts.UserMetadata["um"] == "1" && len(opts.PluginConfig) == 1 && opts.PluginConfig["pc"] == "1") {
		v.optsOK = false
	}
	switch v.repo.status[i] {
	case c10Verifies:
		return v.outcomes[i], nil
	case c10FailsWithOutcome:
		return v.outcomes[i], errors.New("verification failed")
	}
	return nil, errors.New("verification failed without outcome")
}

type c10SkipVerifier struct {
	c10Verifier
	mode    int // 1: not skip, 2: skip, 3: error
	skipLog int
}

func (v *c10SkipVerifier) SkipVerify(ctx context.Context, opts VerifierVerifyOptions) (bool, *trustpolicy.VerificationLevel, error) {
	v.skipLog++
	if !(opts.ArtifactReference == v.ref && len(opts.UserMetadata) == 1 && opts.UserMetadata["um"] == "1" && len(opts.PluginConfig) == 1 && opts.PluginConfig["pc"] == "1") {
		v.optsOK = false
	}
	switch v.mode {
	case 2:
		return true, trustpolicy.LevelSkip, nil
	case 3:
		return false, nil, errors.New("no applicable policy")
	}
	return false, trustpolicy.LevelStrict, nil
}

// VsymC10 explores notation.Verify over listings, pagings, limits, references and skip modes.
func VsymC10() {
	maxL := vr.Param("L", 3)
	N := vr.Int64("N")
	skipMode := vr.Choice("skipper", 4) // 0: verifier is not a verifySkipper
	refKind := vr.Choice("ref", 5)
	// situations that are refused before the listing is looked at are explored with a short listing only
	early := vr.Fork(N <= 0) || skipMode >= 2 || refKind >= 2
	if early {
		maxL = 1
	}
	L := vr.Choice("L", maxL+1)
	repo := &c10Repo{}
	repo.status = make([]int, L)
	repo.cutAfter = make([]bool, L)
	for i := 0; i < L; i++ {
		repo.status[i] = vr.Choice("status", 4)
		if i < L-1 {
			repo.cutAfter[i] = vr.Choice("cut", 2) == 1
		}
	}
	repo.emptyFirst = vr.Choice("emptyFirstPage", 2) == 1
	for i := 0; i < L; i++ {
		if repo.status[i] == c10Unfetchable && !repo.notFound {
			repo.notFound = vr.Choice("unfetchableAsNotFound", 2) == 1
			break
		}
	}
	refs := []string{"reg.io/repo:v1", "reg.io/repo@" + c10DigestA, "reg.io/repo", "reg.io/repo@sha256:xyz", "noslash"}
	resolvedDigest := c10DigestA
	// environment failures and digest mismatch only matter for well-formed references
	if refKind <= 1 {
		if vr.Choice("resolved", 2) == 1 {
			resolvedDigest = c10DigestB
		}
		switch vr.Choice("env", 3) {
		case 1:
			repo.resolveErr = true
		case 2:
			repo.listErr = true
		}
	}
	repo.resolved = ocispec.Descriptor{MediaType: "application/vnd.oci.image.manifest.v1+json", Digest: digest.Digest(resolvedDigest), Size: 528,
		Annotations: map[string]string{"resolved": "by the repository"}}
	base := c10Verifier{repo: repo, argsOK: true, optsOK: true, ref: refs[refKind]}
	for i := 0; i < L; i++ {
		// an outcome as the library's verifier returns it: with the verified envelope content, whose signed target
		// agrees with the artifact in media type, digest and size and carries annotations of its own
		o := &VerificationOutcome{RawSignature: []byte{byte(i)}}
		o.EnvelopeContent = &signature.EnvelopeContent{Payload: signature.Payload{ContentType: "application/vnd.cncf.notary.payload.v1+json",
			Content: vr.JSONBytes(vr.JObj("targetArtifact", vr.JObj("mediaType", vr.JStr("application/vnd.oci.image.manifest.v1+json"), "digest", vr.JStr(resolvedDigest), "size", vr.JNum(528), "annotations", vr.JObj("signed", vr.JStr("metadata")))))}}
		base.outcomes = append(base.outcomes, o)
	}
	var verifier Verifier
	var bv *c10Verifier
	var sv *c10SkipVerifier
	if skipMode == 0 {
		b := base
		bv = &b
		verifier = bv
	} else {
		sv = &c10SkipVerifier{c10Verifier: base, mode: skipMode}
		bv = &sv.c10Verifier
		verifier = sv
	}

	desc, outcomes, err := Verify(context.Background(), verifier, repo, VerifyOptions{ArtifactReference: refs[refKind], MaxSignatureAttempts: int(N),
		UserMetadata: map[string]string{"um": "1"}, PluginConfig: map[string]string{"pc": "1"}})
	vr.Assert(bv.optsOK, "the policy check and the verification of every signature receive the caller's reference, required metadata and plugin configuration")

	repoTouched := len(repo.resolveLog) > 0 || repo.listLog > 0 || len(repo.fetchLog) > 0
	// the limit check comes first
	if vr.Fork(N <= 0) {
		vr.Assert(err != nil, "N<=0 is an error")
		vr.Assert(!repoTouched && len(bv.verifyLog) == 0, "N<=0: nothing resolved, listed, fetched or verified")
		vr.Assert(sv == nil || sv.skipLog == 0, "N<=0: policy not consulted")
		vr.Reach("non-positive limit")
		return
	}
	if skipMode == 2 {
		vr.Assert(err == nil, "skip level: success")
		vr.Assert(!repoTouched && len(bv.verifyLog) == 0, "skip level: nothing resolved, listed or fetched")
		vr.Assert(len(outcomes) == 1 && outcomes[0].VerificationLevel == trustpolicy.LevelSkip, "skip level: single skip outcome")
		vr.Reach("skip")
		return
	}
	if skipMode == 3 {
		vr.Assert(err != nil && !repoTouched, "skip check error: refused before any repository access")
		return
	}
	if refKind >= 2 {
		vr.Assert(err != nil, "reference without tag or digest / malformed: error")
		vr.Assert(!repoTouched && len(bv.verifyLog) == 0, "bad reference: no repository access")
		vr.Reach("bad reference")
		return
	}
	if repo.resolveErr {
		vr.Assert(err != nil && repo.listLog == 0 && len(repo.fetchLog) == 0, "resolve error: error, nothing listed")
		return
	}
	if refKind == 1 && resolvedDigest != c10DigestA {
		vr.Assert(err != nil, "digest reference differing from resolved digest: error")
		vr.Assert(repo.listLog == 0 && len(repo.fetchLog) == 0 && len(bv.verifyLog) == 0, "digest mismatch: nothing listed, fetched or verified")
		vr.Reach("digest mismatch")
		return
	}
	if repo.listErr {
		vr.Assert(err != nil && len(repo.fetchLog) == 0, "listing error: error")
		return
	}
	vr.Assert(repo.descOK, "listing asked for the resolved descriptor")
	vr.Assert(bv.argsOK, "verifier received the resolved descriptor and the fetched media type")
	// first signature that is not a plain failure
	k := 0
	for k < L && repo.status[k] == c10FailsWithOutcome {
		k++
	}
	expectOK := vr.And(k < L && repo.status[k] == c10Verifies, N >= int64(k+1))
	vr.Assert(vr.Iff(err == nil, expectOK), "success iff one of the first min(N,L) signatures verifies and all before it were fetched and evaluated")
	// never more than N, in listing order, each exactly once
	vr.Assert(int64(len(repo.fetchLog)) <= N, "never more than N signatures fetched")
	vr.Assert(int64(len(bv.verifyLog)) <= N, "never more than N signatures evaluated")
	for i, f := range repo.fetchLog {
		vr.Assert(f == i, "signatures fetched in listing order, each once")
	}
	for i, f := range bv.verifyLog {
		vr.Assert(f == i, "signatures evaluated in listing order, each once")
	}
	if err == nil {
		vr.Assert(desc.Digest == repo.resolved.Digest && desc.Size == repo.resolved.Size && desc.MediaType == repo.resolved.MediaType, "success returns the resolved descriptor")
		vr.Assert(len(desc.Annotations) == 1 && desc.Annotations["resolved"] == "by the repository" && desc.ArtifactType == repo.resolved.ArtifactType, "... as the repository resolved it, not as a signature describes it")
		vr.Assert(len(outcomes) == 1 && outcomes[0] == bv.outcomes[k], "success returns exactly the outcome of the verifying signature")
		vr.Assert(len(repo.fetchLog) == k+1 && len(bv.verifyLog) == k+1, "nothing fetched or evaluated after the first success")
		vr.Reach("success")
		if k > 0 {
			vr.Reach("success after failures")
		}
	} else {
		vr.Assert(desc.Digest == "" && desc.Size == 0, "failure returns an empty descriptor")
		if L == 0 {
			vr.Reach("empty listing")
		}
		if k < L && repo.status[k] == c10Unfetchable {
			vr.Reach("unfetchable")
		}
		vr.Reach("failure")
	}
}

func init() { vsymHarnesses["VsymC10"] = VsymC10 }
