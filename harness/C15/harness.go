//go:build verif

package crl

// C15: the CRL cache returns only fresh, byte-faithful bundles for the exact URL.
// Histories of store / read / corrupt operations over two symbolic URLs, against a reference map.

import (
	"context"
	"crypto/ecdsa"
	"crypto/elliptic"
	"crypto/rand"
	"crypto/x509"
	"crypto/x509/pkix"
	"errors"
	"hash"
	"math/big"
	"os"
	"strings"
	"time"

	corecrl "github.com/notaryproject/notation-core-go/revocation/crl"
	"github.com/notaryproject/notation-go/internal/zzvr/fskit"
	vr "github.com/notaryproject/notation-go/internal/zzvr"
)

//vsym:stub crypto/sha256.Sum256 = c15Sum256
//vsym:stub crypto/sha256.New = c15NewHash
//vsym:stub crypto/x509.ParseRevocationList = c15ParseCRL
//vsym:stub time.Now = c15Now

// ---- uninterpreted, injective SHA-256 ---------------------------------------------------------

type c15HashEntry struct {
	in  string
	out [32]byte
}

var c15Hashes []c15HashEntry

// c15Sum256: equal inputs give equal digests, different inputs different digests (collision freedom is an
// assumption of the claim); the digest values themselves are arbitrary distinct constants.
func c15Sum256(data []byte) [32]byte {
	s := string(data)
	for _, e := range c15Hashes {
		if e.in == s {
			return e.out
		}
	}
	var out [32]byte
	k := len(c15Hashes) + 1
	for i := range out {
		out[i] = byte(17*k + 31*i)
	}
	c15Hashes = append(c15Hashes, c15HashEntry{s, out})
	return out
}

// c15Hash: the streaming form of the same uninterpreted function
type c15Hash struct{ buf []byte }

func (h *c15Hash) Write(p []byte) (int, error) { h.buf = append(h.buf, p...); return len(p), nil }
func (h *c15Hash) Sum(b []byte) []byte {
	d := c15Sum256(h.buf)
	return append(b, d[:]...)
}
func (h *c15Hash) Reset()         { h.buf = nil }
func (h *c15Hash) Size() int      { return 32 }
func (h *c15Hash) BlockSize() int { return 64 }

func c15NewHash() hash.Hash { return &c15Hash{} }

// ---- CRL parsing oracle ----------------------------------------------------------------------------

type c15CRL struct {
	der        []byte
	list       *x509.RevocationList
	nextUpdate int64 // seconds; 0 = no NextUpdate
}

var c15Known []*c15CRL

func c15ParseCRL(der []byte) (*x509.RevocationList, error) {
	for _, c := range c15Known {
		if string(c.der) == string(der) {
			// a fresh object, as the real parser returns
			return &x509.RevocationList{Raw: c.der, NextUpdate: c.list.NextUpdate}, nil
		}
	}
	return nil, errors.New("x509: malformed crl")
}

var c15NowSecs int64

func c15Now() time.Time { return time.Unix(c15NowSecs, 0) }

// native: real CRLs whose NextUpdate is placed relative to the real clock
var c15Key *ecdsa.PrivateKey
var c15Issuer *x509.Certificate

func c15MintCRL(number int64, nextUpdate time.Time) []byte {
	if c15Key == nil {
		c15Key, _ = ecdsa.GenerateKey(elliptic.P256(), rand.Reader)
		tpl := &x509.Certificate{SerialNumber: big.NewInt(1), Subject: pkix.Name{CommonName: "crl issuer"}, NotBefore: time.Unix(1600000000, 0), NotAfter: time.Unix(4000000000, 0),
			IsCA: true, BasicConstraintsValid: true, KeyUsage: x509.KeyUsageCRLSign | x509.KeyUsageCertSign, SubjectKeyId: []byte{1, 2, 3}}
		der, err := x509.CreateCertificate(rand.Reader, tpl, tpl, &c15Key.PublicKey, c15Key)
		if err != nil {
			panic(err)
		}
		c15Issuer, _ = x509.ParseCertificate(der)
	}
	tpl := &x509.RevocationList{Number: big.NewInt(number), ThisUpdate: time.Unix(1700000000, 0), NextUpdate: nextUpdate}
	der, err := x509.CreateRevocationList(rand.Reader, tpl, c15Issuer, c15Key)
	if err != nil {
		panic(err)
	}
	return der
}

// c15NewCRL draws a CRL: its bytes (a token under the engine, real DER natively) and its NextUpdate.
func c15NewCRL(tag string) *c15CRL {
	tok := vr.Token(tag)
	hasNU := vr.Choice(tag+".hasNextUpdate", 2) == 1
	nu := int64(0)
	if hasNU {
		nu = vr.Int64(tag + ".nextUpdate")
		vr.Assume(nu >= 1 && nu <= 1<<40)
	}
	c := &c15CRL{nextUpdate: nu}
	if vr.Symbolic() {
		for _, k := range c15Known {
			vr.Assume(string(k.der) != string(tok)) // every CRL is distinct, as real ones are
		}
		c.der = tok
		c.list = &x509.RevocationList{Raw: tok}
		if hasNU {
			c.list.NextUpdate = time.Unix(nu, 0)
		}
	} else {
		// natively NextUpdate is fixed when the instant of the read is known (c15Realise)
		c.der = tok
	}
	c15Known = append(c15Known, c)
	return c
}

// c15Intact: a well-formed CRL that never expires within the horizon (the intact part of a corrupted entry)
func c15Intact() *c15CRL {
	for _, k := range c15Known {
		if string(k.der) == "intact crl" {
			return k
		}
	}
	c := &c15CRL{der: []byte("intact crl"), nextUpdate: 1 << 41}
	c.list = &x509.RevocationList{Raw: c.der, NextUpdate: time.Unix(1<<41, 0)}
	c15Known = append(c15Known, c)
	return c
}

type c15Stored struct {
	url     string
	base    *c15CRL
	delta   *c15CRL
	corrupt bool
}

func c15IsHexName(s string) bool {
	if len(s) != 64 {
		return false
	}
	for i := 0; i < len(s); i++ {
		c := s[i]
		if !(c >= '0' && c <= '9' || c >= 'a' && c <= 'f') {
			return false
		}
	}
	return true
}

// c15URLMenu: the URLs of the history are two concrete near-identical URLs (VsymC15URLs)
var c15URLMenu bool

// VsymC15URLs: histories of stores and reads over two concrete URLs that differ in spelling only.
func VsymC15URLs() {
	c15URLMenu = true
	defer func() { c15URLMenu = false }()
	VsymC15()
}

// VsymC15 explores histories of Set / Get / corrupt operations.
func VsymC15() {
	c15Hashes, c15Known = nil, nil
	root := fskit.Root() + "/cache"
	defer fskit.Cleanup()
	nOps := vr.Param("ops", 3)
	capacity := vr.Param("cap", 6)
	nURLs := vr.Param("urls", 2)
	urls := []string{vr.Str("url", capacity)}
	if nURLs > 1 {
		urls = append(urls, vr.Str("url", capacity))
	}
	if c15URLMenu {
		// two concrete URLs that a normalising key would merge: equal up to letter case of scheme, host or path,
		// a fragment, an empty query, the default port, percent-encoding, a doubled or dotted path segment,
		// surrounding white space - byte-wise they are different URLs, and each has an entry of its own
		others := []string{"http://CRL.example.com/ca.crl", "http://crl.example.com/ca.crl#frag", "http://crl.example.com/ca%2ecrl", "http://crl.example.com/ca.crl ", "http://crl.example.com/CA.crl",
			"http://crl.example.com/ca.crl?", "http://crl.example.com:80/ca.crl", "HTTP://crl.example.com/ca.crl", "http://crl.example.com//ca.crl", "http://crl.example.com/a/../ca.crl", " http://crl.example.com/ca.crl", "http://crl.example.com/ca.crl?a=b#c"}
		urls = []string{"http://crl.example.com/ca.crl", others[vr.Choice("nearURL", len(others))]}
	}
	cache, err := NewFileCache(root)
	vr.Assert(err == nil && cache != nil, "the cache directory can be created")
	ctx := context.Background()
	var ref []*c15Stored // reference map: last entry per byte-identical URL
	lookup := func(u string) *c15Stored {
		for _, e := range ref {
			if e.url == u {
				return e
			}
		}
		return nil
	}
	if !vr.Symbolic() {
		c15Native(cache, root, urls, nOps)
		return
	}
	for op := 0; op < nOps; op++ {
		nKinds := 3
		if c15URLMenu {
			nKinds = 2 // stores and reads
		}
		kind := vr.Choice("op", nKinds)
		u := urls[vr.Choice("whichURL", len(urls))]
		switch kind {
		case 0: // store
			b := &corecrl.Bundle{}
			base := c15NewCRL("base")
			b.BaseCRL = base.list
			var delta *c15CRL
			if vr.Choice("withDelta", 2) == 1 {
				delta = c15NewCRL("delta")
				b.DeltaCRL = delta.list
			}
			err := cache.Set(ctx, u, b)
			vr.Assert(err == nil, "storing a bundle succeeds")
			if e := lookup(u); e != nil {
				e.base, e.delta, e.corrupt = base, delta, false
				vr.Reach("overwritten")
			} else {
				ref = append(ref, &c15Stored{url: u, base: base, delta: delta})
			}
		case 1: // read at an arbitrary instant
			now := vr.Int64("now")
			vr.Assume(now >= 1 && now <= 1<<40)
			c15NowSecs = now
			got, err := cache.Get(ctx, u)
			vr.Assert((got == nil) != (err == nil), "a read yields a bundle or an error, never both or neither")
			e := lookup(u)
			switch {
			case e == nil:
				vr.Assert(err == corecrl.ErrCacheMiss, "a URL never stored is a cache miss")
				vr.Reach("miss: never stored")
			case e.corrupt:
				vr.Assert(err != nil && got == nil, "a stored file that is not a well-formed entry produces an error, not a bundle")
				vr.Reach("corrupted entry refused")
			default:
				expired := vr.Or(vr.And(e.base.nextUpdate != 0, now > e.base.nextUpdate), vr.And(e.delta != nil, e.delta != nil && e.delta.nextUpdate != 0 && now > e.delta.nextUpdate))
				invalid := e.base.nextUpdate == 0 || (e.delta != nil && e.delta.nextUpdate == 0)
				if invalid {
					// an entry without NextUpdate is never served; (an expired companion may turn it into a miss)
					vr.Assert(err != nil && got == nil, "a bundle without next-update time is not served")
				} else if vr.Fork(expired) {
					vr.Assert(err != nil && errors.Is(err, corecrl.ErrCacheMiss), "once the base or the delta CRL has passed its next-update time the result is a cache miss")
					vr.Reach("miss: expired")
				} else {
					vr.Assert(err == nil && got != nil, "a fresh stored bundle is returned")
					if got != nil {
						vr.Assert(got.BaseCRL != nil && string(got.BaseCRL.Raw) == string(e.base.der), "the base CRL has exactly the bytes last stored under the identical URL")
						vr.Assert((got.DeltaCRL != nil) == (e.delta != nil), "delta CRL present iff one was stored")
						if got.DeltaCRL != nil && e.delta != nil {
							vr.Assert(string(got.DeltaCRL.Raw) == string(e.delta.der), "the delta CRL has exactly the bytes last stored under the identical URL")
							vr.Reach("hit with delta")
						}
					}
					vr.Reach("hit")
				}
			}
		default: // a stored entry is replaced by something that is not a well-formed entry
			e := lookup(u)
			if e == nil {
				continue
			}
			var doc vr.J
			good := c15Intact()
			switch vr.Choice("corruption", 8) {
			case 0:
				doc = vr.JBad()
			case 1:
				doc = vr.JObj()
			case 2:
				doc = vr.JNull()
			case 3:
				doc = vr.JArr(vr.JBytesVal(good.der))
			case 4:
				doc = vr.JObj("baseCRL", vr.JBytesVal([]byte("garbage")))
			case 5:
				doc = vr.JObj("baseCRL", vr.JBytesVal(good.der), "deltaCRL", vr.JBytesVal([]byte("garbage")))
			case 7:
				// a complete entry followed by other bytes (a second entry, the stale tail of a longer one)
				doc = vr.JTrailing(vr.JObj("baseCRL", vr.JBytesVal(good.der)))
			default:
				doc = vr.JObj("baseCRL", vr.JBytesVal(good.der), "deltaCRL", vr.JBytesVal([]byte{}))
			}
			fskit.Quiet()
			werr := os.WriteFile(root+"/"+cache.fileName(u), vr.JSONBytes(doc), 0o600)
			fskit.Loud()
			vr.Assert(werr == nil, "harness: corrupting an entry")
			e.corrupt = true
		}
	}
	// every path the operating system saw is the cache root, a key file (64 hex digits) or a temporary file directly in it
	for _, o := range fskit.FS.Log {
		for _, p := range []string{o.Path, o.To} {
			if p == "" || p == root || o.Kind == "createtemp" && p != o.Path {
				continue
			}
			inside := strings.HasPrefix(p, root+"/") && !strings.Contains(p[len(root)+1:], "/")
			vr.Assert(inside, "no URL makes the cache read or write outside its root directory")
		}
		if o.Kind == "read" || o.Kind == "rename" {
			p := o.Path
			if o.Kind == "rename" {
				p = o.To
			}
			vr.Assert(strings.HasPrefix(p, root+"/") && c15IsHexName(p[len(root)+1:]), "entries are named by 64 hex digits")
		}
	}
	// distinct URLs have distinct entries
	if len(ref) == 2 {
		vr.Assert(cache.fileName(ref[0].url) != cache.fileName(ref[1].url), "distinct URLs never share an entry")
		vr.Reach("two URLs stored")
	}
}

// c15Native replays a history against the real file system with real CRLs. Instants are realised relative
// to the real clock: a CRL that the history reads after its next-update time gets a past NextUpdate.
func c15Native(cache *FileCache, root string, urls []string, nOps int) {
	ctx := context.Background()
	type nat struct {
		url         string
		base, delta []byte
		corrupt     bool
		baseNU      int64
		deltaNU     int64
		hasDelta    bool
	}
	var ref []*nat
	lookup := func(u string) *nat {
		for _, e := range ref {
			if e.url == u {
				return e
			}
		}
		return nil
	}
	// first pass over the draws is impossible (draws are sequential), so next-update times are realised as
	// "far past" / "far future" by comparing with the instant of the first later read of that URL; to keep
	// the replay simple every stored CRL's NextUpdate is decided at store time from the drawn value relative
	// to the midpoint of the horizon, and reads happen "now" = the midpoint.
	const mid = int64(1) << 39
	serial := int64(1)
	mint := func(tag string) ([]byte, int64) {
		vr.Token(tag)
		has := vr.Choice(tag+".hasNextUpdate", 2) == 1
		nu := int64(0)
		if has {
			nu = vr.Int64(tag + ".nextUpdate")
		}
		serial++
		var t time.Time
		switch {
		case !has:
			// x509.CreateRevocationList cannot mint a CRL without NextUpdate
			vr.SkipNative()
		case nu >= mid:
			t = time.Now().Add(240 * time.Hour)
		default:
			t = time.Now().Add(-240 * time.Hour)
		}
		return c15MintCRL(serial, t), nu
	}
	for op := 0; op < nOps; op++ {
		nKinds := 3
		if c15URLMenu {
			nKinds = 2 // stores and reads
		}
		kind := vr.Choice("op", nKinds)
		u := urls[vr.Choice("whichURL", len(urls))]
		switch kind {
		case 0:
			b := &corecrl.Bundle{}
			bd, bnu := mint("base")
			b.BaseCRL, _ = x509.ParseRevocationList(bd)
			e := &nat{url: u, base: bd, baseNU: bnu}
			if vr.Choice("withDelta", 2) == 1 {
				dd, dnu := mint("delta")
				b.DeltaCRL, _ = x509.ParseRevocationList(dd)
				e.delta, e.deltaNU, e.hasDelta = dd, dnu, true
			}
			err := cache.Set(ctx, u, b)
			vr.Assert(err == nil, "storing a bundle succeeds")
			if old := lookup(u); old != nil {
				*old = *e
				vr.Reach("overwritten")
			} else {
				ref = append(ref, e)
			}
		case 1:
			now := vr.Int64("now")
			e := lookup(u)
			if e != nil && !e.corrupt {
				// the drawn instant must be on the same side of the drawn next-update times as the real clock is of the minted ones
				side := func(nu int64) bool { return nu == 0 || (now > nu) == (nu < mid) }
				if !side(e.baseNU) || (e.hasDelta && !side(e.deltaNU)) {
					vr.SkipNative()
				}
			}
			got, err := cache.Get(ctx, u)
			vr.Assert((got == nil) != (err == nil), "a read yields a bundle or an error, never both or neither")
			switch {
			case e == nil:
				vr.Assert(err == corecrl.ErrCacheMiss, "a URL never stored is a cache miss")
				vr.Reach("miss: never stored")
			case e.corrupt:
				vr.Assert(err != nil && got == nil, "a stored file that is not a well-formed entry produces an error, not a bundle")
				vr.Reach("corrupted entry refused")
			default:
				expired := (e.baseNU != 0 && now > e.baseNU) || (e.hasDelta && e.deltaNU != 0 && now > e.deltaNU)
				invalid := e.baseNU == 0 || (e.hasDelta && e.deltaNU == 0)
				if invalid {
					vr.Assert(err != nil && got == nil, "a bundle without next-update time is not served")
				} else if expired {
					vr.Assert(err != nil && errors.Is(err, corecrl.ErrCacheMiss), "once the base or the delta CRL has passed its next-update time the result is a cache miss")
					vr.Reach("miss: expired")
				} else {
					vr.Assert(err == nil && got != nil, "a fresh stored bundle is returned")
					if got != nil {
						vr.Assert(got.BaseCRL != nil && string(got.BaseCRL.Raw) == string(e.base), "the base CRL has exactly the bytes last stored under the identical URL")
						vr.Assert((got.DeltaCRL != nil) == e.hasDelta, "delta CRL present iff one was stored")
						if got.DeltaCRL != nil && e.hasDelta {
							vr.Assert(string(got.DeltaCRL.Raw) == string(e.delta), "the delta CRL has exactly the bytes last stored under the identical URL")
							vr.Reach("hit with delta")
						}
					}
					vr.Reach("hit")
				}
			}
		default:
			e := lookup(u)
			if e == nil {
				continue
			}
			good := c15MintCRL(1000+serial, time.Now().Add(240*time.Hour))
			var doc vr.J
			switch vr.Choice("corruption", 8) {
			case 0:
				doc = vr.JBad()
			case 1:
				doc = vr.JObj()
			case 2:
				doc = vr.JNull()
			case 3:
				doc = vr.JArr(vr.JBytesVal(good))
			case 4:
				doc = vr.JObj("baseCRL", vr.JBytesVal([]byte("garbage")))
			case 5:
				doc = vr.JObj("baseCRL", vr.JBytesVal(good), "deltaCRL", vr.JBytesVal([]byte("garbage")))
			case 7:
				doc = vr.JTrailing(vr.JObj("baseCRL", vr.JBytesVal(good)))
			default:
				doc = vr.JObj("baseCRL", vr.JBytesVal(good), "deltaCRL", vr.JBytesVal([]byte{}))
			}
			werr := os.WriteFile(root+"/"+cache.fileName(u), vr.JSONBytes(doc), 0o600)
			vr.Assert(werr == nil, "harness: corrupting an entry")
			e.corrupt = true
		}
	}
	if len(ref) == 2 {
		vr.Assert(cache.fileName(ref[0].url) != cache.fileName(ref[1].url), "distinct URLs never share an entry")
		vr.Reach("two URLs stored")
	}
}

func init() { vsymHarnesses["VsymC15"] = VsymC15
	vsymHarnesses["VsymC15URLs"] = VsymC15URLs }
