//go:build verif

package crl

import (
	"testing"

	vr "github.com/notaryproject/notation-go/internal/zzvr"
)

func TestVsymReplay(t *testing.T) {
	if err := vr.ReplayMain(vsymHarnesses); err != nil {
		t.Fatal(err)
	}
}
