//go:build verif

package h07

import (
	"testing"

	vr "github.com/notaryproject/notation-go/internal/zzvr"
)

func TestVsymReplay(t *testing.T) {
	if err := vr.ReplayMain(map[string]func(){"VsymC07OCI": VsymC07OCI, "VsymC07Blob": VsymC07Blob}); err != nil {
		t.Fatal(err)
	}
}
