//go:build verif

// Package h07 holds the C07 harness: what the library signs, it verifies - and it reports what was signed.
// It drives the public signing API of packages notation / signer and feeds the result to the public
// verification API of packages notation / verifier, through the envelope contract stub.
package h07

import (
	"context"
	"crypto"
	"crypto/elliptic"
	"crypto/x509"
	"errors"
	"time"

	"github.com/notaryproject/notation-core-go/revocation"
	revocationresult "github.com/notaryproject/notation-core-go/revocation/result"
	"github.com/notaryproject/notation-core-go/signature"
	"github.com/notaryproject/notation-core-go/testhelper"
	"github.com/notaryproject/notation-go"
	"github.com/notaryproject/notation-go/internal/zzvr/envkit"
	vr "github.com/notaryproject/notation-go/internal/zzvr"
	"github.com/notaryproject/notation-go/internal/zzvr/blobkit"
	"github.com/notaryproject/notation-go/signer"
	"github.com/notaryproject/notation-go/verifier"
	"github.com/notaryproject/notation-go/verifier/trustpolicy"
	"github.com/notaryproject/notation-go/verifier/truststore"
	"github.com/notaryproject/notation-plugin-framework-go/plugin"
	"github.com/opencontainers/go-digest"
	ocispec "github.com/opencontainers/image-spec/specs-go/v1"
)

//vsym:stub github.com/notaryproject/notation-core-go/signature.NewLocalSigner = newLocalSigner

const (
	payloadType = "application/vnd.cncf.notary.payload.v1+json"
	manifestMT  = "application/vnd.oci.image.manifest.v1+json"
	digestA     = "sha256:aaaaaaaaaaaaaaaaaaaaaaaaaaaaaaaaaaaaaaaaaaaaaaaaaaaaaaaaaaaaaaaa"
)

var keySpecs = []signature.KeySpec{
	{Type: signature.KeyTypeRSA, Size: 2048}, {Type: signature.KeyTypeRSA, Size: 3072}, {Type: signature.KeyTypeRSA, Size: 4096},
	{Type: signature.KeyTypeEC, Size: 256}, {Type: signature.KeyTypeEC, Size: 384}, {Type: signature.KeyTypeEC, Size: 521},
}
var keySpecNames = []plugin.KeySpec{"RSA-2048", "RSA-3072", "RSA-4096", "EC-256", "EC-384", "EC-521"}
var wantDigestAlg = []digest.Algorithm{digest.SHA256, digest.SHA384, digest.SHA512, digest.SHA256, digest.SHA384, digest.SHA512}

var leaf = &x509.Certificate{Raw: []byte("leaf"), NotBefore: time.Unix(946684800, 0), NotAfter: time.Unix(4102444800, 0)}
var root = &x509.Certificate{Raw: []byte("root"), NotBefore: time.Unix(946684800, 0), NotAfter: time.Unix(4102444800, 0), IsCA: true}

func init() {
	leaf.Subject.CommonName = "leaf"
	root.Subject.CommonName = "root"
}

// ---- local key (contract of signature.NewLocalSigner) --------------------------------------------------

type localSigner struct {
	ks    signature.KeySpec
	certs []*x509.Certificate
}

func (s *localSigner) Sign(payload []byte) ([]byte, []*x509.Certificate, error) {
	return []byte("raw-signature"), s.certs, nil
}
func (s *localSigner) KeySpec() (signature.KeySpec, error)              { return s.ks, nil }
func (s *localSigner) CertificateChain() ([]*x509.Certificate, error) { return s.certs, nil }
func (s *localSigner) PrivateKey() crypto.PrivateKey                  { return nil }

var localKeySpec signature.KeySpec

func newLocalSigner(certs []*x509.Certificate, key crypto.PrivateKey) (signature.LocalSigner, error) {
	if len(certs) == 0 {
		return nil, errors.New("empty certs")
	}
	return &localSigner{ks: localKeySpec, certs: certs}, nil
}

// ---- scripted signing plugin --------------------------------------------------------------------------

type signPlugin struct {
	envelope bool // envelope generator, else raw signature generator
	ksIdx    int
	chain    [][]byte
}

func (p *signPlugin) GetMetadata(ctx context.Context, req *plugin.GetMetadataRequest) (*plugin.GetMetadataResponse, error) {
	c := plugin.CapabilitySignatureGenerator
	if p.envelope {
		c = plugin.CapabilityEnvelopeGenerator
	}
	return &plugin.GetMetadataResponse{Name: "foo", Version: "1.0.0", Capabilities: []plugin.Capability{c}}, nil
}

func (p *signPlugin) DescribeKey(ctx context.Context, req *plugin.DescribeKeyRequest) (*plugin.DescribeKeyResponse, error) {
	return &plugin.DescribeKeyResponse{KeyID: req.KeyID, KeySpec: keySpecNames[p.ksIdx]}, nil
}

func (p *signPlugin) GenerateSignature(ctx context.Context, req *plugin.GenerateSignatureRequest) (*plugin.GenerateSignatureResponse, error) {
	return &plugin.GenerateSignatureResponse{KeyID: req.KeyID, Signature: []byte("raw-signature"), CertificateChain: p.chain}, nil
}

// GenerateEnvelope builds an envelope over exactly what it was asked to sign, as an honest plugin does.
func (p *signPlugin) GenerateEnvelope(ctx context.Context, req *plugin.GenerateEnvelopeRequest) (*plugin.GenerateEnvelopeResponse, error) {
	now := time.Now().Truncate(time.Second)
	c := &signature.EnvelopeContent{Payload: signature.Payload{ContentType: req.PayloadType, Content: req.Payload}}
	c.SignerInfo.SignedAttributes.SigningScheme = signature.SigningSchemeX509
	c.SignerInfo.SignedAttributes.SigningTime = now
	if req.ExpiryDurationInSeconds != 0 {
		c.SignerInfo.SignedAttributes.Expiry = now.Add(time.Duration(req.ExpiryDurationInSeconds) * time.Second)
	}
	c.SignerInfo.SignatureAlgorithm = keySpecs[p.ksIdx].SignatureAlgorithm()
	c.SignerInfo.CertificateChain = []*x509.Certificate{leaf, root}
	c.SignerInfo.Signature = []byte("raw-signature")
	raw := []byte("plugin-envelope")
	envkit.Issue(req.SignatureEnvelopeType, raw, c)
	pluginContent = c
	return &plugin.GenerateEnvelopeResponse{SignatureEnvelope: raw, SignatureEnvelopeType: req.SignatureEnvelopeType}, nil
}

func (p *signPlugin) VerifySignature(ctx context.Context, req *plugin.VerifySignatureRequest) (*plugin.VerifySignatureResponse, error) {
	return nil, errors.New("not a verification plugin")
}

var pluginContent *signature.EnvelopeContent

// ---- verification environment ----------------------------------------------------------------------------

type trustStore struct{}

func (trustStore) GetCertificates(ctx context.Context, storeType truststore.Type, namedStore string) ([]*x509.Certificate, error) {
	if storeType == truststore.TypeCA && namedStore == "signer" {
		// the store also holds the previous generation of the root: another certificate with the same subject
		// (a key roll-over), listed first
		old := *root
		old.Raw = append([]byte{}, root.Raw...)
		old.Raw[len(old.Raw)-1] ^= 1
		return []*x509.Certificate{&old, root}, nil
	}
	return nil, truststore.TrustStoreError{Msg: "no such store"}
}

type okValidator struct{}

func (okValidator) ValidateContext(ctx context.Context, opts revocation.ValidateContextOptions) ([]*revocationresult.CertRevocationResult, error) {
	var r []*revocationresult.CertRevocationResult
	for range opts.CertChain {
		r = append(r, &revocationresult.CertRevocationResult{Result: revocationresult.ResultOK})
	}
	return r, nil
}

// repository holding one artifact and the signatures pushed to it
type repo struct {
	desc ocispec.Descriptor
	sigs [][]byte
	mts  []string
	anns []map[string]string
}

func (r *repo) Resolve(ctx context.Context, reference string) (ocispec.Descriptor, error) {
	return r.desc, nil
}

func (r *repo) ListSignatures(ctx context.Context, desc ocispec.Descriptor, fn func(signatureManifests []ocispec.Descriptor) error) error {
	var l []ocispec.Descriptor
	for i := range r.sigs {
		l = append(l, ocispec.Descriptor{MediaType: manifestMT, Digest: digest.Digest(digestA), Size: int64(i)})
	}
	return fn(l)
}

func (r *repo) FetchSignatureBlob(ctx context.Context, desc ocispec.Descriptor) ([]byte, ocispec.Descriptor, error) {
	i := int(desc.Size)
	return r.sigs[i], ocispec.Descriptor{MediaType: r.mts[i], Size: int64(len(r.sigs[i]))}, nil
}

func (r *repo) PushSignature(ctx context.Context, mediaType string, blob []byte, subject ocispec.Descriptor, annotations map[string]string) (blobDesc, manifestDesc ocispec.Descriptor, err error) {
	r.sigs = append(r.sigs, blob)
	r.mts = append(r.mts, mediaType)
	r.anns = append(r.anns, annotations)
	return ocispec.Descriptor{MediaType: mediaType, Size: int64(len(blob))}, ocispec.Descriptor{MediaType: manifestMT, Digest: digest.Digest(digestA), Size: 7}, nil
}

func policies() (*trustpolicy.OCIDocument, *trustpolicy.BlobDocument) {
	sv := trustpolicy.SignatureVerification{VerificationLevel: "strict"}
	oci := &trustpolicy.OCIDocument{Version: "1.0", TrustPolicies: []trustpolicy.OCITrustPolicy{{Name: "p", RegistryScopes: []string{"*"}, SignatureVerification: sv,
		TrustStores: []string{"ca:signer"}, TrustedIdentities: []string{"*"}}}}
	blob := &trustpolicy.BlobDocument{Version: "1.0", TrustPolicies: []trustpolicy.BlobTrustPolicy{{Name: "p", SignatureVerification: sv,
		TrustStores: []string{"ca:signer"}, TrustedIdentities: []string{"*"}, GlobalPolicy: true}}}
	return oci, blob
}

var durations = []time.Duration{0, time.Hour, 24 * time.Hour, 3650 * 24 * time.Hour}

type metaDraw struct {
	keys, vals []string
	m          map[string]string
}

func drawMetadata(tag string, max int) metaDraw {
	var d metaDraw
	n := vr.Choice(tag, max+2) - 1
	if n < 0 {
		return d
	}
	d.m = map[string]string{}
	names := []string{tag + ".x", tag + ".y"}
	for i := 0; i < n; i++ {
		v := vr.StrIn(tag+".val", 1, "a-b")
		d.keys, d.vals = append(d.keys, names[i]), append(d.vals, v)
		d.m[names[i]] = v
	}
	return d
}

func sameMap(m map[string]string, keys, vals []string) bool {
	if len(m) != len(keys) {
		return false
	}
	for i, k := range keys {
		v, ok := m[k]
		if !ok || v != vals[i] {
			return false
		}
	}
	return true
}

func annotationsDoc(keys, vals []string) []any {
	var pairs []any
	for i := range keys {
		pairs = append(pairs, keys[i], vr.JStr(vals[i]))
	}
	return pairs
}

// nativeKey: a real key and certificate chain of the key spec (native runs exercise the real envelopes).
// One key per key spec and test process: testhelper generates a fresh RSA key on every call.
func nativeKey(ksIdx int) (crypto.PrivateKey, []*x509.Certificate) {
	if c := nativeKeys[ksIdx]; c != nil {
		return c.key, c.chain
	}
	c := &nativeKeyChain{}
	switch ksIdx {
	case 0, 1, 2:
		t := testhelper.GetRSACertTuple([]int{2048, 3072, 4096}[ksIdx])
		c.key, c.chain = t.PrivateKey, []*x509.Certificate{t.Cert, testhelper.GetRSARootCertificate().Cert}
	default:
		t := testhelper.GetECCertTuple([]elliptic.Curve{elliptic.P256(), elliptic.P384(), elliptic.P521()}[ksIdx-3])
		c.key, c.chain = t.PrivateKey, []*x509.Certificate{t.Cert, testhelper.GetECRootCertificate().Cert}
	}
	nativeKeys[ksIdx] = c
	return c.key, c.chain
}

type nativeKeyChain struct {
	key   crypto.PrivateKey
	chain []*x509.Certificate
}

var nativeKeys [6]*nativeKeyChain

var nativeSig []byte
var nativeMT string

// makeSigner returns the signer under test (as both notation.Signer and notation.BlobSigner).
func makeSigner(kind, ksIdx int) (notation.Signer, notation.BlobSigner) {
	switch kind {
	case 0:
		localKeySpec = keySpecs[ksIdx]
		var key crypto.PrivateKey
		chain := []*x509.Certificate{leaf, root}
		if !vr.Symbolic() {
			key, chain = nativeKey(ksIdx)
			root = chain[len(chain)-1]
		}
		s, err := signer.NewGenericSigner(key, chain)
		if err != nil {
			panic("NewGenericSigner: " + err.Error())
		}
		return s, s
	default:
		p := &signPlugin{envelope: kind == 2, ksIdx: ksIdx}
		envkit.Env.Certs["leaf"] = leaf
		envkit.Env.Certs["root"] = root
		p.chain = [][]byte{[]byte("leaf"), []byte("root")}
		s, err := signer.NewPluginSigner(p, "key-1", nil)
		if err != nil {
			panic("NewPluginSigner: " + err.Error())
		}
		return s, s
	}
}

// signedContent: the content of the envelope the signing API produced
func signedContent(kind int) *signature.EnvelopeContent {
	if !vr.Symbolic() {
		// natively: parse and verify the real envelope that was produced
		env, err := signature.ParseEnvelope(nativeMT, nativeSig)
		if err != nil {
			return nil
		}
		c, err := env.Verify()
		if err != nil {
			return nil
		}
		return c
	}
	if kind == 2 {
		return pluginContent
	}
	if len(envkit.Env.VerifiedOK) == 0 {
		return nil
	}
	c, _ := envkit.Env.VerifiedOK[0].Content()
	return c
}

// VsymC07OCI: SignOCI -> Verify.
func VsymC07OCI() {
	envkit.Reset()
	pluginContent = nil
	blobkit.Reset()
	kind := vr.Choice("signerKind", 3) // local key, raw-signature plugin, envelope plugin
	if !vr.Symbolic() && kind != 0 {
		vr.SkipNative() // natively only the local key signer runs (real keys, real JWS / COSE envelopes)
	}
	ksIdx := vr.Choice("keySpec", 6)
	mt := []string{envkit.JWS, envkit.COSE}[vr.Choice("format", 2)]
	dur := durations[vr.Choice("expiry", len(durations))]
	ann := drawMetadata("artifact", vr.Param("annotations", 1))
	meta := drawMetadata("user", vr.Param("metadata", 1))
	r := &repo{desc: ocispec.Descriptor{MediaType: manifestMT, Digest: digest.Digest(digestA), Size: vr.Int64("size"), Annotations: ann.m,
		URLs: []string{"https://example.com/a"}, ArtifactType: "application/vnd.example", Data: []byte("d")}}
	s, _ := makeSigner(kind, ksIdx)
	opts := notation.SignOptions{ArtifactReference: "reg.io/repo@" + digestA, UserMetadata: meta.m}
	opts.SignatureMediaType = mt
	opts.ExpiryDuration = dur
	opts.SigningAgent = "agent/1"
	ctx := context.Background()
	_, _, err := notation.SignOCI(ctx, s, r, opts)
	vr.Assert(err == nil && len(r.sigs) == 1, "signing succeeds and pushes one signature")
	if err != nil || len(r.sigs) != 1 {
		return
	}
	nativeSig, nativeMT = r.sigs[0], mt
	c := signedContent(kind)
	vr.Assert(c != nil, "harness: signed content recorded")
	if c == nil {
		return
	}
	// the signed payload: the descriptor reduced to media type, digest, size, annotations (+ user metadata)
	allK := append(append([]string{}, ann.keys...), meta.keys...)
	allV := append(append([]string{}, ann.vals...), meta.vals...)
	kv := []any{"mediaType", vr.JStr(manifestMT), "digest", vr.JStr(digestA), "size", vr.JNum(r.desc.Size)}
	if len(allK) > 0 {
		kv = append(kv, "annotations", vr.JObj(annotationsDoc(allK, allV)...))
	}
	vr.Assert(c.Payload.ContentType == payloadType && vr.JSONEqual(c.Payload.Content, vr.JObj("targetArtifact", vr.JObj(kv...))), "the signed payload equals the descriptor reduced to media type, digest, size and annotations, user metadata included")
	sa := c.SignerInfo.SignedAttributes
	if dur == 0 {
		vr.Assert(sa.Expiry.IsZero(), "no expiry without a duration")
	} else {
		vr.Assert(sa.Expiry.Equal(sa.SigningTime.Add(dur)), "expiry equals signing time plus the requested duration")
	}
	vr.Assert(c.SignerInfo.SignatureAlgorithm == keySpecs[ksIdx].SignatureAlgorithm(), "signature algorithm follows the key spec")

	// verify what was signed
	ociPolicy, blobPolicy := policies()
	v, err := verifier.NewVerifierWithOptions(trustStore{}, verifier.VerifierOptions{OCITrustPolicy: ociPolicy, BlobTrustPolicy: blobPolicy,
		RevocationCodeSigningValidator: okValidator{}, RevocationTimestampingValidator: okValidator{}})
	vr.Assert(err == nil, "harness: verifier")
	if err != nil {
		return
	}
	desc, outcomes, err := notation.Verify(ctx, v, r, notation.VerifyOptions{ArtifactReference: "reg.io/repo@" + digestA, MaxSignatureAttempts: 3, UserMetadata: meta.m})
	vr.Assert(err == nil, "a signature produced by the signing API verifies under a policy that trusts the signer")
	if err != nil {
		return
	}
	vr.Assert(desc.Digest == r.desc.Digest && desc.Size == r.desc.Size && desc.MediaType == manifestMT, "verification returns the descriptor of the artifact")
	vr.Assert(len(outcomes) == 1 && outcomes[0].Error == nil, "one outcome without error")
	if len(outcomes) == 1 {
		um, uerr := outcomes[0].UserMetadata()
		vr.Assert(uerr == nil && sameMap(um, allK, allV), "the user metadata read back from the outcome is exactly the annotations that were signed")
	}
	vr.Reach("signed and verified")
}

// VsymC07Blob: SignBlob -> VerifyBlob.
func VsymC07Blob() {
	envkit.Reset()
	pluginContent = nil
	blobkit.Reset()
	kind := vr.Choice("signerKind", 3)
	if !vr.Symbolic() && kind != 0 {
		vr.SkipNative()
	}
	ksIdx := vr.Choice("keySpec", 6)
	mt := []string{envkit.JWS, envkit.COSE}[vr.Choice("format", 2)]
	dur := durations[vr.Choice("expiry", len(durations))]
	meta := drawMetadata("user", vr.Param("metadata", 1))
	contentMT := []string{"text/plain", "application/octet-stream", "Text/Plain; charset=utf-8", "video/mp4"}[vr.Choice("contentType", 4)]
	blob := []string{"", "b", "blob content"}[vr.Choice("blob", 3)]
	_, bs := makeSigner(kind, ksIdx)
	opts := notation.SignBlobOptions{ContentMediaType: contentMT, UserMetadata: meta.m}
	opts.SignatureMediaType = mt
	opts.ExpiryDuration = dur
	ctx := context.Background()
	// how the blob arrives: in one piece or several, the last one together with io.EOF or not
	var delivery *blobkit.Reader
	if kind == 0 {
		delivery = blobkit.NewReader(blob)
	} else {
		delivery = &blobkit.Reader{Data: blob, Piece: 1 << 20}
	}
	sig, info, err := notation.SignBlob(ctx, bs, delivery, opts)
	vr.Assert(err == nil && len(sig) > 0 && info != nil, "signing a blob succeeds")
	if err != nil {
		return
	}
	nativeSig, nativeMT = sig, mt
	c := signedContent(kind)
	vr.Assert(c != nil, "harness: signed content recorded")
	if c == nil {
		return
	}
	alg := wantDigestAlg[ksIdx]
	wantDigest := blobkit.DigestOf(alg, blob) // natively the real digest: a wrong algorithm on either side shows as a mismatch
	if vr.Symbolic() {
		vr.Assert(len(blobkit.Algs) == 1 && blobkit.Algs[0] == alg, "the blob digest is computed with the hash bound to the signing key")
	}
	kv := []any{"mediaType", vr.JStr(contentMT), "digest", vr.JStr(wantDigest), "size", vr.JNum(int64(len(blob)))}
	if len(meta.keys) > 0 {
		kv = append(kv, "annotations", vr.JObj(annotationsDoc(meta.keys, meta.vals)...))
	}
	vr.Assert(c.Payload.ContentType == payloadType && vr.JSONEqual(c.Payload.Content, vr.JObj("targetArtifact", vr.JObj(kv...))), "the signed payload is the blob's descriptor (media type, digest, size) with the user metadata")
	sa := c.SignerInfo.SignedAttributes
	if dur == 0 {
		vr.Assert(sa.Expiry.IsZero(), "no expiry without a duration")
	} else {
		vr.Assert(sa.Expiry.Equal(sa.SigningTime.Add(dur)), "expiry equals signing time plus the requested duration")
	}

	ociPolicy, blobPolicy := policies()
	v, err := verifier.NewVerifierWithOptions(trustStore{}, verifier.VerifierOptions{OCITrustPolicy: ociPolicy, BlobTrustPolicy: blobPolicy,
		RevocationCodeSigningValidator: okValidator{}, RevocationTimestampingValidator: okValidator{}})
	vr.Assert(err == nil, "harness: verifier")
	if err != nil {
		return
	}
	vopts := notation.VerifyBlobOptions{ContentMediaType: contentMT}
	vopts.SignatureMediaType = mt
	vopts.UserMetadata = meta.m
	blobkit.Algs = nil
	desc, outcome, err := notation.VerifyBlob(ctx, v, &blobkit.Reader{Data: blob, Piece: delivery.Piece, EOFWithData: delivery.EOFWithData}, sig, vopts)
	vr.Assert(err == nil && outcome != nil && outcome.Error == nil, "a blob signature produced by the signing API verifies under a policy that trusts the signer")
	if err != nil || outcome == nil {
		return
	}
	if vr.Symbolic() {
		vr.Assert(len(blobkit.Algs) == 1 && blobkit.Algs[0] == alg, "verification digests the blob with the hash bound to the signing key")
	}
	vr.FindingKey("verifyblob-returns-zero-descriptor")
	vr.Assert(string(desc.Digest) == wantDigest && desc.Size == int64(len(blob)) && desc.MediaType == contentMT, "successful blob verification returns the descriptor of the blob that was verified")
	vr.FindingKey("")
	um, uerr := outcome.UserMetadata()
	vr.Assert(uerr == nil && sameMap(um, meta.keys, meta.vals), "the user metadata read back from the outcome is exactly the metadata that was signed")
	vr.Reach("blob signed and verified")
}
