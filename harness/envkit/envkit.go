//go:build verif

// Package envkit is the signature-envelope contract stub (DESIGN.md 4.1) shared by the harnesses of
// packages signer, notation and the cross-package harnesses: a signature.Envelope implementation whose
// parse / sign / verify answers are scripted by the harness. Under the engine the functions below replace
// core-go's ParseEnvelope / NewEnvelope / x509.ParseCertificate; natively the envelope type is
// registered for the two media types and certificate blobs are real DER.
package envkit

import (
	"crypto/ecdsa"
	"crypto/elliptic"
	"crypto/rand"
	"crypto/x509"
	"crypto/x509/pkix"
	"errors"
	"math/big"
	"time"

	"github.com/notaryproject/notation-core-go/signature"
	vr "github.com/notaryproject/notation-go/internal/zzvr"
)

//vsym:stub github.com/notaryproject/notation-core-go/signature.ParseEnvelope = ParseEnvelope
//vsym:stub github.com/notaryproject/notation-core-go/signature.NewEnvelope = NewEnvelope
//vsym:stub crypto/x509.ParseCertificate = ParseCertificate
//vsym:stub time.Now = Now

const (
	JWS  = "application/jose+json"
	COSE = "application/cose"
)

// State scripts the envelope library and records what the code under test did with it.
type State struct {
	// parsing path
	ParseErr  bool
	VerifyErr int // 0 ok, 1 *SignatureEnvelopeNotFoundError, 2 *InvalidSignatureError, 3 *SignatureIntegrityError, 4 other error
	Content   *signature.EnvelopeContent
	// signing path
	ToBeSigned      []byte // what the envelope asks its signer to sign
	SignInconsistent bool  // the signer's answer (signature / chain / key spec) is rejected by the envelope
	VerifyAfterSign int   // as VerifyErr, for an envelope that was just signed
	SignedRaw       []byte // the envelope bytes a successful Sign returns

	// observations
	ParseCalls, NewCalls, SignCalls, VerifyCalls int
	ParsedBytes                                  [][]byte
	ParsedMedia                                  []string
	NewMedia                                     []string
	Req                                          *signature.SignRequest // request of the last Sign (after truncation)
	SignerCalls                                  int
	SignerGot                                    []byte
	SignerSig                                    []byte
	SignerChain                                  []*x509.Certificate
	KeySpec                                      signature.KeySpec
	VerifiedOK                                   []*Envelope // envelopes whose Verify returned a content
	Certs                                        map[string]*x509.Certificate
	NowCalls                                     int
	Issued                                       []*Envelope // envelopes produced by Sign (or issued by a scripted plugin): parsing their bytes gives their content back
}

var Env State

// Reset prepares a fresh script.
func Reset() {
	Env = State{ToBeSigned: []byte("tbs"), SignedRaw: []byte("signed-envelope"), Certs: map[string]*x509.Certificate{}}
}

type Envelope struct {
	Media   string
	Raw     []byte
	Signed  bool
	content *signature.EnvelopeContent
}

func verifyError(k int) error {
	switch k {
	case 1:
		return &signature.SignatureEnvelopeNotFoundError{}
	case 2:
		return &signature.InvalidSignatureError{Msg: "bad"}
	case 3:
		return &signature.SignatureIntegrityError{Err: errors.New("tampered")}
	}
	return errors.New("unexpected")
}

// Sign follows core-go's base envelope: truncate times, validate the request, ask the signer once,
// validate what came back.
func (e *Envelope) Sign(req *signature.SignRequest) ([]byte, error) {
	Env.SignCalls++
	req.SigningTime = req.SigningTime.Truncate(time.Second)
	req.Expiry = req.Expiry.Truncate(time.Second)
	if len(req.Payload.Content) == 0 {
		return nil, &signature.InvalidSignRequestError{Msg: "content not present"}
	}
	if req.SigningTime.IsZero() {
		return nil, &signature.InvalidSignatureError{Msg: "signing-time not present"}
	}
	if !req.Expiry.IsZero() && !req.Expiry.After(req.SigningTime) {
		return nil, &signature.InvalidSignatureError{Msg: "expiry cannot be equal or before the signing time"}
	}
	if req.Signer == nil {
		return nil, &signature.InvalidSignRequestError{Msg: "signer is nil"}
	}
	ks, err := req.Signer.KeySpec()
	if err != nil {
		return nil, err
	}
	if req.SigningScheme == "" {
		return nil, &signature.InvalidSignRequestError{Msg: "SigningScheme not present"}
	}
	Env.KeySpec = ks
	Env.SignerCalls++
	Env.SignerGot = Env.ToBeSigned
	sig, certs, err := req.Signer.Sign(Env.ToBeSigned)
	if err != nil {
		return nil, err
	}
	Env.SignerSig, Env.SignerChain = sig, certs
	if len(certs) == 0 {
		return nil, &signature.InvalidSignatureError{Msg: "certificate-chain not present or is empty"}
	}
	if len(sig) == 0 {
		return nil, &signature.InvalidSignatureError{Msg: "signature not present or is empty"}
	}
	if Env.SignInconsistent {
		return nil, &signature.InvalidSignatureError{Msg: "certificate-chain is invalid"}
	}
	r := *req
	Env.Req = &r
	e.Signed = true
	e.Raw = append(append([]byte{}, Env.SignedRaw...), byte('0'+len(Env.Issued)))
	e.content = &signature.EnvelopeContent{
		Payload: req.Payload,
		SignerInfo: signature.SignerInfo{
			SignedAttributes: signature.SignedAttributes{
				SigningScheme:      req.SigningScheme,
				SigningTime:        req.SigningTime,
				Expiry:             req.Expiry,
				ExtendedAttributes: req.ExtendedSignedAttributes,
			},
			UnsignedAttributes: signature.UnsignedAttributes{SigningAgent: req.SigningAgent},
			SignatureAlgorithm: ks.SignatureAlgorithm(),
			CertificateChain:   certs,
			Signature:          sig,
		},
	}
	Env.Issued = append(Env.Issued, e)
	return e.Raw, nil
}

// Issue registers an envelope made outside Sign (a scripted envelope-generator plugin): parsing raw under
// media type mt yields content.
func Issue(mt string, raw []byte, content *signature.EnvelopeContent) {
	Env.Issued = append(Env.Issued, &Envelope{Media: mt, Raw: raw, content: content})
}

func (e *Envelope) Verify() (*signature.EnvelopeContent, error) {
	Env.VerifyCalls++
	if len(e.Raw) == 0 {
		return nil, &signature.SignatureNotFoundError{}
	}
	if e.Signed {
		if Env.VerifyAfterSign != 0 {
			return nil, verifyError(Env.VerifyAfterSign)
		}
		Env.VerifiedOK = append(Env.VerifiedOK, e)
		return e.content, nil
	}
	if Env.VerifyErr != 0 {
		return nil, verifyError(Env.VerifyErr)
	}
	Env.VerifiedOK = append(Env.VerifiedOK, e)
	return e.content, nil
}

func (e *Envelope) Content() (*signature.EnvelopeContent, error) {
	if len(e.Raw) == 0 {
		return nil, &signature.SignatureNotFoundError{}
	}
	return e.content, nil
}

func parse(mt string, b []byte) (signature.Envelope, error) {
	Env.ParseCalls++
	Env.ParsedBytes = append(Env.ParsedBytes, b)
	Env.ParsedMedia = append(Env.ParsedMedia, mt)
	if Env.ParseErr {
		return nil, &signature.InvalidSignatureError{Msg: "cannot parse"}
	}
	for _, e := range Env.Issued {
		if e.Media == mt && string(e.Raw) == string(b) {
			return &Envelope{Media: mt, Raw: b, content: e.content}, nil
		}
	}
	return &Envelope{Media: mt, Raw: b, content: Env.Content}, nil
}

// ParseEnvelope replaces signature.ParseEnvelope under the engine.
func ParseEnvelope(mediaType string, b []byte) (signature.Envelope, error) {
	if mediaType != JWS && mediaType != COSE {
		return nil, &signature.UnsupportedSignatureFormatError{MediaType: mediaType}
	}
	return parse(mediaType, b)
}

// NewEnvelope replaces signature.NewEnvelope under the engine.
func NewEnvelope(mediaType string) (signature.Envelope, error) {
	if mediaType != JWS && mediaType != COSE {
		return nil, &signature.UnsupportedSignatureFormatError{MediaType: mediaType}
	}
	Env.NewCalls++
	Env.NewMedia = append(Env.NewMedia, mediaType)
	return &Envelope{Media: mediaType}, nil
}

// Install registers the stub for the two media types in native runs (no-op under the engine).
func Install() {
	if vr.Symbolic() {
		return
	}
	for _, mt := range []string{JWS, COSE} {
		mt := mt
		signature.RegisterEnvelopeType(mt, func() signature.Envelope {
			Env.NewCalls++
			Env.NewMedia = append(Env.NewMedia, mt)
			return &Envelope{Media: mt}
		}, func(b []byte) (signature.Envelope, error) { return parse(mt, b) })
	}
}

// Now replaces time.Now under the engine: a fixed instant (2030-03-17), one second later per call.
func Now() time.Time {
	Env.NowCalls++
	return time.Unix(1900000000+int64(Env.NowCalls), 0)
}

// ParseCertificate replaces x509.ParseCertificate under the engine: a blob parses iff CertBlob issued it as parseable.
func ParseCertificate(der []byte) (*x509.Certificate, error) {
	if c, ok := Env.Certs[string(der)]; ok {
		return c, nil
	}
	return nil, errors.New("x509: malformed certificate")
}

var nativeKey *ecdsa.PrivateKey
var nativeSerial int64

// CertBlob draws a certificate blob. Under the engine it is a short symbolic token; natively a parseable
// blob is a real self-signed DER certificate and an unparseable one is the (garbage) token.
func CertBlob(tag string, parses bool) []byte {
	tok := vr.Token(tag)
	if vr.Symbolic() {
		if parses {
			Env.Certs[string(tok)] = &x509.Certificate{Raw: tok}
		}
		return tok
	}
	if !parses {
		return tok
	}
	if nativeKey == nil {
		k, err := ecdsa.GenerateKey(elliptic.P256(), rand.Reader)
		if err != nil {
			panic(err)
		}
		nativeKey = k
	}
	nativeSerial++
	tpl := &x509.Certificate{SerialNumber: big.NewInt(nativeSerial), Subject: pkix.Name{CommonName: "vsym"},
		NotBefore: time.Unix(1600000000, 0), NotAfter: time.Unix(4000000000, 0)}
	der, err := x509.CreateCertificate(rand.Reader, tpl, tpl, &nativeKey.PublicKey, nativeKey)
	if err != nil {
		panic(err)
	}
	return der
}
