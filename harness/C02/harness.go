//go:build verif

package verifier

import (
	"context"
	"crypto/x509"
	"time"

	revocationresult "github.com/notaryproject/notation-core-go/revocation/result"
	"github.com/notaryproject/notation-core-go/signature"
	"github.com/notaryproject/notation-go"
	vr "github.com/notaryproject/notation-go/internal/zzvr"
	"github.com/notaryproject/notation-go/verifier/trustpolicy"
	pluginframework "github.com/notaryproject/notation-plugin-framework-go/plugin"
	ocispec "github.com/opencontainers/image-spec/specs-go/v1"
)

const c02Now = 1900000000 // kitNow under the engine
const c02SigningTime = 1700000000

// c02Time maps a drawn second to an instant: under the engine the value itself, natively an instant on
// the same side of the real clock. An expiry equal to the clock has passed (the signature is expired at
// that instant).
func c02Time(sec int64) time.Time {
	if vr.Symbolic() {
		return time.Unix(sec, 0)
	}
	if sec <= c02Now {
		return time.Unix(1000000000, 0) // 2001: past
	}
	return time.Unix(4000000000, 0) // 2096: future
}

// c02NotAfter is c02Time for the end of a certificate's validity: a certificate is still valid at the
// instant NotAfter, so natively the boundary lies on the future side.
func c02NotAfter(sec int64) time.Time {
	if vr.Symbolic() || sec != c02Now {
		return c02Time(sec)
	}
	return time.Unix(4000000000, 0)
}

type c02Level struct {
	base    string
	present map[trustpolicy.ValidationType]bool
	action  map[trustpolicy.ValidationType]string // symbolic action text of present overrides
	ov      map[trustpolicy.ValidationType]trustpolicy.ValidationAction
}

var c02Types = []trustpolicy.ValidationType{trustpolicy.TypeAuthenticity, trustpolicy.TypeAuthenticTimestamp, trustpolicy.TypeExpiry, trustpolicy.TypeRevocation}

// c02DrawLevel: base level x a set of <=max overridden types; the actions of the overrides are symbolic.
func c02DrawLevel(base string, max int, draw bool, prev *c02Level) c02Level {
	return c02DrawLevelOver(base, max, draw, prev, c02Types)
}

func c02DrawLevelOver(base string, max int, draw bool, prev *c02Level, over []trustpolicy.ValidationType) c02Level {
	l := c02Level{base: base, present: map[trustpolicy.ValidationType]bool{}, action: map[trustpolicy.ValidationType]string{}}
	if !draw {
		// same overrides as prev (relational runs)
		l.present, l.action, l.ov = prev.present, prev.action, prev.ov
		return l
	}
	n := 0
	for _, t := range over {
		if n < max && vr.Choice("override."+string(t), 2) == 1 {
			n++
			var a string
			if t == trustpolicy.TypeRevocation {
				a = vr.OneOf("action."+string(t), "enforce", "log", "skip")
			} else {
				a = vr.OneOf("action."+string(t), "enforce", "log")
			}
			l.present[t] = true
			l.action[t] = a
			if l.ov == nil {
				l.ov = map[trustpolicy.ValidationType]trustpolicy.ValidationAction{}
			}
			l.ov[t] = trustpolicy.ValidationAction(a)
		}
	}
	return l
}

func (l c02Level) want(t trustpolicy.ValidationType) string {
	if l.present[t] {
		return l.action[t]
	}
	if t == trustpolicy.TypeIntegrity {
		return "enforce"
	}
	switch l.base {
	case "strict":
		return "enforce"
	case "permissive":
		if t == trustpolicy.TypeAuthenticity {
			return "enforce"
		}
		return "log"
	}
	return "log"
}

// c02World: the symbolic environment shared by the runs of one harness execution
type c02World struct {
	storeErr   bool
	trustByte  byte // store certificate equals the leaf iff 'l'
	idByte     byte // identity O value; leaf has O=a
	noExpiry   bool
	expirySec  int64
	notAfter   int64
	revResult  int64
	revErr     bool
	sa         bool // signing-authority scheme: the chain is judged at the authentic signing time
	extShape   int // 0 none, 1 critical non-plugin attribute, 2 non-critical attribute, 3 critical attribute with non-string key
	pluginAttr int // 0 none, see c02Plugin
}

func c02DrawWorld(full bool) c02World {
	w := c02World{}
	w.storeErr = vr.Bool("store.loadError")
	w.trustByte = vr.Byte2("store.cert", 'l', 'm')
	w.idByte = vr.Byte2("identity.O", 'a', 'b')
	if full {
		w.noExpiry = vr.Bool("expiry.none")
		w.expirySec = int64(vr.Int("expiry.sec", 1, 4000000000))
		w.notAfter = int64(vr.Int("leaf.notAfter", 1000000000, 4000000000))
		w.sa = vr.Bool("scheme.signingAuthority")
	} else {
		// expiry and certificate validity do not interact with the plugin: kept passing
		w.noExpiry = true
		w.notAfter = 4000000000
	}
	w.revResult = vr.Int64("revocation.result")
	w.revErr = vr.Bool("revocation.validatorError")
	return w
}

type c02Store struct {
	w     *c02World
	leaf  *x509.Certificate
	calls int
}

func (s *c02Store) GetCertificates(ctx context.Context, storeType truststoreType, namedStore string) ([]*x509.Certificate, error) {
	s.calls++
	if s.w.storeErr {
		return nil, errStoreUnloadable
	}
	return []*x509.Certificate{{Raw: []byte{s.w.trustByte}}}, nil
}

type c02Run struct {
	outcome   *notation.VerificationOutcome
	err       error
	validator *kitValidator
	plug      *kitPlugin
	mgr       *kitManager
	store     *c02Store
}

func c02Verify(w *c02World, lv c02Level, attrs []signature.Attribute, mgr *kitManager, plug *kitPlugin) c02Run {
	kitEnv = kitEnvState{}
	kitInstallEnvelope()
	leaf := &x509.Certificate{Raw: []byte{'l'}}
	leaf.Subject.Country = []string{"US"}
	leaf.Subject.Province = []string{"WA"}
	leaf.Subject.Organization = []string{"a"}
	leaf.NotBefore = time.Unix(946684800, 0)
	leaf.NotAfter = c02NotAfter(w.notAfter)
	storeKey := "ca:s"
	sa := signature.SignedAttributes{SigningScheme: signature.SigningSchemeX509, SigningTime: time.Unix(c02SigningTime, 0), ExtendedAttributes: attrs}
	if w.sa {
		// the reference instant is the (fixed) signing time in both modes: no mapping to the real clock
		sa.SigningScheme = signature.SigningSchemeX509SigningAuthority
		storeKey = "signingAuthority:s"
		leaf.NotAfter = time.Unix(w.notAfter, 0)
	}
	if !w.noExpiry {
		sa.Expiry = c02Time(w.expirySec)
	}
	kitEnv.content = &signature.EnvelopeContent{
		Payload: signature.Payload{ContentType: "application/vnd.cncf.notary.payload.v1+json", Content: vr.JSONBytes(vr.JObj("targetArtifact", vr.JObj("mediaType", vr.JStr("m"), "digest", vr.JStr("d"), "size", vr.JNum(1))))},
		SignerInfo: signature.SignerInfo{SignedAttributes: sa, SignatureAlgorithm: signature.AlgorithmPS256, CertificateChain: []*x509.Certificate{leaf}, Signature: []byte("sig")},
	}
	run := c02Run{plug: plug, mgr: mgr}
	run.validator = &kitValidator{err: w.revErr, results: []*revocationresult.CertRevocationResult{{Result: revocationresult.Result(w.revResult)}}}
	run.store = &c02Store{w: w, leaf: leaf}
	opts := VerifierOptions{OCITrustPolicy: kitOCIDoc(lv.base, lv.ov, []string{storeKey}, []string{"x509.subject:C=US,ST=WA,O=" + string([]byte{w.idByte})}),
		RevocationCodeSigningValidator: run.validator, RevocationTimestampingValidator: &kitValidator{}}
	if mgr != nil {
		opts.PluginManager = mgr
	}
	v, err := NewVerifierWithOptions(run.store, opts)
	if err != nil {
		vr.Assert(false, "valid policy rejected")
		vr.Stop()
	}
	run.outcome, run.err = v.Verify(context.Background(), ocispec.Descriptor{MediaType: "m", Digest: "d", Size: 1}, []byte{1}, notation.VerifierVerifyOptions{ArtifactReference: kitRef, SignatureMediaType: kitJWS})
	return run
}

func (w *c02World) authFail() bool { return vr.Or(w.storeErr, w.trustByte != 'l') }
func (w *c02World) idFail() bool   { return w.idByte != 'a' }
func (w *c02World) expFail() bool {
	return vr.And(vr.Not(w.noExpiry), w.expirySec <= c02Now)
}
func (w *c02World) tsFail() bool {
	if w.sa {
		return w.notAfter < c02SigningTime
	}
	return w.notAfter < c02Now
}
func (w *c02World) revFail() bool {
	return vr.Or(w.revErr, vr.Not(vr.Or(w.revResult == int64(revocationresult.ResultOK), w.revResult == int64(revocationresult.ResultNonRevokable))))
}

func c02Result(o *notation.VerificationOutcome, t trustpolicy.ValidationType) *notation.ValidationResult {
	var r *notation.ValidationResult
	for _, x := range o.VerificationResults {
		if x.Type == t {
			r = x
		}
	}
	return r
}

func c02CheckActions(o *notation.VerificationOutcome, lv c02Level) {
	for _, r := range o.VerificationResults {
		vr.Assert(string(r.Action) == lv.want(r.Type), "every reported result carries the action the level assigns to its type")
	}
}

// c02CritKey: the key of the critical attribute drawn last - an unrelated key, or one that merely resembles
// the two keys the verification plugin protocol reserves (they are reserved exactly, not as prefixes).
var c02CritKey = "com.example.crit"

func c02ExtAttrs(shape int) []signature.Attribute {
	switch shape {
	case 1:
		c02CritKey = []string{"com.example.crit", HeaderVerificationPlugin + "Policy", HeaderVerificationPluginMinVersion + ".v2"}[vr.Choice("criticalAttributeKey", 3)]
		return []signature.Attribute{{Key: c02CritKey, Critical: true, Value: "v"}}
	case 2:
		return []signature.Attribute{{Key: "com.example.info", Critical: false, Value: "v"}}
	case 3:
		return []signature.Attribute{{Key: 42, Critical: true, Value: "v"}}
	}
	return nil
}

// VsymC02Native: no verification plugin demanded; the level alone decides.
func VsymC02Native() {
	base := []string{"strict", "permissive", "audit"}[vr.Choice("level", 3)]
	lv := c02DrawLevel(base, vr.Param("overrides", 1), true, nil)
	w := c02DrawWorld(true)
	w.extShape = vr.Choice("extendedAttribute", 4)
	run := c02Verify(&w, lv, c02ExtAttrs(w.extShape), nil, nil)
	if run.outcome == nil {
		vr.Assert(false, "no outcome")
		return
	}
	revAct := lv.want(trustpolicy.TypeRevocation)
	fail := vr.Or(
		vr.And(vr.Or(w.authFail(), w.idFail()), lv.want(trustpolicy.TypeAuthenticity) == "enforce"),
		vr.And(w.expFail(), lv.want(trustpolicy.TypeExpiry) == "enforce"),
		vr.And(w.tsFail(), lv.want(trustpolicy.TypeAuthenticTimestamp) == "enforce"),
		vr.And(w.revFail(), revAct == "enforce"),
	)
	critical := w.extShape == 1 || w.extShape == 3
	if critical {
		vr.FindingKey("critical-attribute-accepted-without-plugin")
		vr.Assert(run.err != nil, "a critical extended attribute that nothing processes is never accepted")
		vr.FindingKey("")
		vr.Reach("critical attribute, no plugin")
	} else {
		vr.Assert(vr.Iff(run.err != nil, fail), "verification fails exactly when a validation whose action is enforce failed")
	}
	c02CheckActions(run.outcome, lv)
	vr.Assert(vr.Implies(revAct == "skip", run.validator.calls == 0), "skipped revocation is not performed")
	vr.Assert(vr.Implies(vr.And(revAct != "skip", run.err == nil), run.validator.calls == 1), "non-skipped revocation is performed once on an accepted signature")
	if run.err == nil {
		vr.Reach("accepted")
		// logged failures are reported but do not fail
		if r := c02Result(run.outcome, trustpolicy.TypeAuthenticity); r != nil {
			vr.Assert(vr.Iff(r.Error != nil, vr.Or(w.authFail(), w.idFail())), "authenticity result reports the failure")
			if r.Error != nil {
				vr.Reach("logged failure reported")
			}
		} else {
			vr.Assert(false, "authenticity result missing")
		}
		if r := c02Result(run.outcome, trustpolicy.TypeExpiry); r != nil {
			vr.Assert(vr.Iff(r.Error != nil, w.expFail()), "expiry result reports the failure")
		} else {
			vr.Assert(false, "expiry result missing")
		}
		if r := c02Result(run.outcome, trustpolicy.TypeAuthenticTimestamp); r != nil {
			vr.Assert(vr.Iff(r.Error != nil, w.tsFail()), "timestamp result reports the failure")
		} else {
			vr.Assert(false, "timestamp result missing")
		}
		r := c02Result(run.outcome, trustpolicy.TypeRevocation)
		vr.Assert(vr.Iff(r == nil, revAct == "skip"), "revocation result present unless skipped")
		if r != nil {
			vr.Assert(vr.Iff(r.Error != nil, w.revFail()), "revocation result reports the failure")
		}
	} else {
		vr.Reach("rejected")
	}
}

// ---------------------------------------------------------------------------

const (
	c02TI = string(pluginframework.CapabilityTrustedIdentityVerifier)
	c02RC = string(pluginframework.CapabilityRevocationCheckVerifier)
)

// VsymC02Plugin: a verification plugin is demanded by the signature.
// mode "pre": discovery, version and capability preconditions (world passing, level strict);
// mode "route": an installed, recent plugin; levels, overrides, failures, verdicts and attributes vary.
func VsymC02PluginPre()   { c02Plugin(true) }
func VsymC02PluginRoute() { c02Plugin(false) }

func c02Plugin(pre bool) {
	var lv c02Level
	var w c02World
	situation := 6
	if pre {
		lv = c02DrawLevel("strict", 0, true, nil)
		w = c02World{trustByte: 'l', idByte: 'a', noExpiry: true, notAfter: 4000000000, revResult: int64(revocationresult.ResultOK)}
		situation = vr.Choice("pluginSituation", 7)
	} else {
		base := []string{"strict", "permissive", "audit"}[vr.Choice("level", 3)]
		// the types whose action interacts with the plugin
		lv = c02DrawLevelOver(base, vr.Param("overrides", 1), true, nil, []trustpolicy.ValidationType{trustpolicy.TypeAuthenticity, trustpolicy.TypeRevocation})
		w = c02DrawWorld(false)
	}
	// 0 header not critical, 1 header value not a string, 2 blank name, 3 manager nil, 4 not installed, 5 metadata error, 6 installed
	var attrs []signature.Attribute
	switch situation {
	case 0:
		attrs = append(attrs, signature.Attribute{Key: HeaderVerificationPlugin, Critical: false, Value: "plug"})
	case 1:
		attrs = append(attrs, signature.Attribute{Key: HeaderVerificationPlugin, Critical: true, Value: 7})
	case 2:
		attrs = append(attrs, signature.Attribute{Key: HeaderVerificationPlugin, Critical: true, Value: "  "})
	default:
		attrs = append(attrs, signature.Attribute{Key: HeaderVerificationPlugin, Critical: true, Value: "plug"})
	}
	minVer := ""
	minShape := 0
	version := "1.0.0"
	var caps []string
	plug := &kitPlugin{}
	mgr := &kitManager{plugins: map[string]*kitPlugin{}}
	respTI, respRC := 1, 1 // 0 absent, 1 present, 2 present with a null verdict
	okTI, okRC := true, true
	processed, callErr := true, false
	w.extShape = 0
	if situation == 6 {
		if pre {
			minShape = vr.Choice("minVersionAttr", 4) // 0 absent, 1 valid, 2 not critical, 3 not semver
			version = []string{"1.0.0", "0.9.0", "1.1.0", "1.0.0-alpha", "v1"}[vr.Choice("pluginVersion", 5)]
		}
		switch minShape {
		case 1:
			minVer = []string{"0.9.0", "1.0.0", "1.1.0"}[vr.Choice("minVersion", 3)]
			attrs = append(attrs, signature.Attribute{Key: HeaderVerificationPluginMinVersion, Critical: true, Value: minVer})
		case 2:
			attrs = append(attrs, signature.Attribute{Key: HeaderVerificationPluginMinVersion, Critical: false, Value: "1.0.0"})
		case 3:
			// not a semantic version: wrong shape, or a version wrapped in blanks, prefixed, shortened, zero-padded
			bad := []string{"1.x", " 1.1.0", "1.1.0\n", "v1.1.0", "1.1", "01.1.0"}[vr.Choice("badMinVersion", 6)]
			attrs = append(attrs, signature.Attribute{Key: HeaderVerificationPluginMinVersion, Critical: true, Value: bad})
		}
		nc := vr.Choice("ncaps", 3)
		for i := 0; i < nc; i++ {
			c := vr.OneOf("capability", c02TI, c02RC, "SIGNATURE_GENERATOR.RAW")
			for _, p := range caps {
				vr.Assume(p != c) // a plugin lists a capability once
			}
			caps = append(caps, c)
		}
		if !pre {
			w.extShape = 0
			if vr.Param("extattrs", 1) == 1 {
				w.extShape = vr.Choice("extendedAttribute", 3) // 0 none, 1 critical, 2 non-critical
			}
			attrs = append(attrs, c02ExtAttrs(w.extShape)...)
			// 2: the capability is listed with a null verdict (JSON null in the plugin's reply): no verdict
			respTI, respRC = vr.Choice("verdict.trustedIdentity", 3), vr.Choice("verdict.revocation", 3)
			okTI, okRC = vr.Bool("verdict.trustedIdentity.success"), vr.Bool("verdict.revocation.success")
			processed, callErr = vr.Bool("attribute.processed"), vr.Bool("plugin.callError")
		}
		plug.meta = pluginframework.GetMetadataResponse{Name: "plug", Version: version}
		for _, c := range caps {
			plug.meta.Capabilities = append(plug.meta.Capabilities, pluginframework.Capability(c))
		}
		plug.verifyErr = callErr
		resp := &pluginframework.VerifySignatureResponse{VerificationResults: map[pluginframework.Capability]*pluginframework.VerificationResult{}}
		if respTI == 2 {
			resp.VerificationResults[pluginframework.CapabilityTrustedIdentityVerifier] = nil
		}
		if respRC == 2 {
			resp.VerificationResults[pluginframework.CapabilityRevocationCheckVerifier] = nil
		}
		if respTI == 1 {
			resp.VerificationResults[pluginframework.CapabilityTrustedIdentityVerifier] = &pluginframework.VerificationResult{Success: okTI}
		}
		if respRC == 1 {
			resp.VerificationResults[pluginframework.CapabilityRevocationCheckVerifier] = &pluginframework.VerificationResult{Success: okRC}
		}
		if processed {
			resp.ProcessedAttributes = []interface{}{c02CritKey, "com.example.info"}
		}
		plug.response = resp
	}
	if situation >= 5 {
		plug.metaErr = situation == 5
		mgr.plugins["plug"] = plug
	}
	var m *kitManager
	if situation != 3 {
		m = mgr
	}
	run := c02Verify(&w, lv, attrs, m, plug)
	if run.outcome == nil {
		vr.Assert(false, "no outcome")
		return
	}
	c02CheckActions(run.outcome, lv)
	if situation < 6 {
		vr.Assert(run.err != nil, "plugin demanded but header malformed / manager missing / plugin not installed / metadata unavailable: rejected")
		vr.Assert(len(plug.verifyReqs) == 0, "no plugin verification without a usable plugin")
		vr.Reach("plugin precondition failed")
		return
	}
	// version rules
	verValid := vr.Or(version == "1.0.0", version == "0.9.0", version == "1.1.0", version == "1.0.0-alpha")
	// rank in semver precedence: 0.9.0 < 1.0.0-alpha < 1.0.0 < 1.1.0
	atLeast := true
	if minShape == 1 {
		atLeast = vr.Or(minVer == "0.9.0",
			vr.And(minVer == "1.0.0", vr.Or(version == "1.0.0", version == "1.1.0")),
			vr.And(minVer == "1.1.0", version == "1.1.0"))
	}
	ownsTI, ownsRC, anyVerifier := false, false, false
	for _, c := range caps {
		ownsTI = vr.Or(ownsTI, c == c02TI)
		ownsRC = vr.Or(ownsRC, c == c02RC)
	}
	anyVerifier = vr.Or(ownsTI, ownsRC)
	preFail := vr.Or(minShape == 2, minShape == 3, vr.Not(verValid), vr.Not(atLeast), vr.Not(anyVerifier))
	revAct := lv.want(trustpolicy.TypeRevocation)
	authAct := lv.want(trustpolicy.TypeAuthenticity)
	askTI := ownsTI
	askRC := vr.And(ownsRC, revAct != "skip")
	executed := vr.Or(askTI, askRC)
	nativeFail := vr.Or(
		vr.And(w.authFail(), authAct == "enforce"),
		vr.And(vr.Not(ownsTI), w.idFail(), authAct == "enforce"),
		vr.And(w.expFail(), lv.want(trustpolicy.TypeExpiry) == "enforce"),
		vr.And(w.tsFail(), lv.want(trustpolicy.TypeAuthenticTimestamp) == "enforce"),
		vr.And(vr.Not(ownsRC), w.revFail(), revAct == "enforce"),
	)
	critical := w.extShape == 1
	pluginFail := vr.Or(callErr,
		vr.And(critical, vr.Not(processed)),
		vr.And(askTI, respTI != 1), vr.And(askRC, respRC != 1),
		vr.And(askTI, respTI == 1, vr.Not(okTI), authAct == "enforce"),
		vr.And(askRC, respRC == 1, vr.Not(okRC), revAct == "enforce"))
	fail := vr.Or(preFail, nativeFail, vr.And(executed, pluginFail), vr.And(vr.Not(executed), critical))
	if critical && vr.Fork(vr.And(vr.Not(executed), vr.Not(preFail))) {
		// the plugin is installed and usable but has nothing to verify (it only checks revocation and the
		// policy skips revocation): nobody processes the critical attribute
		vr.FindingKey("critical-attribute-accepted-when-plugin-not-executed")
		vr.Assert(run.err != nil, "a critical extended attribute is never accepted when the demanded plugin is not executed")
		vr.FindingKey("")
		vr.Assert(vr.Implies(nativeFail, run.err != nil), "enforced native failures still reject")
		vr.Reach("critical attribute, plugin not executed")
	} else {
		if w.extShape == 2 {
			vr.FindingKey("noncritical-attribute-unprocessed-fails")
		}
		vr.Assert(vr.Iff(run.err != nil, fail), "fails exactly when an enforced validation failed, the plugin is missing/too old/without verifier capability, omits a requested verdict, or leaves a critical attribute unprocessed")
		vr.FindingKey("")
	}
	// routing
	vr.Assert(vr.Implies(vr.Or(revAct == "skip", ownsRC), run.validator.calls == 0), "revocation skipped by policy or owned by the plugin is not performed natively")
	for _, req := range plug.verifyReqs {
		hasRC, hasTI := false, false
		for _, c := range req.TrustPolicy.SignatureVerification {
			hasRC = hasRC || c == pluginframework.CapabilityRevocationCheckVerifier
			hasTI = hasTI || c == pluginframework.CapabilityTrustedIdentityVerifier
		}
		vr.Assert(vr.Implies(revAct == "skip", !hasRC), "revocation skipped by policy is not sent to the plugin")
		vr.Assert(vr.Iff(hasRC, askRC), "plugin asked for revocation iff it declares it and policy does not skip it")
		vr.Assert(vr.Iff(hasTI, askTI), "plugin asked for trusted identity iff it declares it")
		vr.Reach("plugin executed")
	}
	vr.Assert(len(plug.verifyReqs) <= 1, "plugin executed at most once")
	if run.err == nil {
		vr.Reach("accepted")
		vr.Assert(vr.Iff(len(plug.verifyReqs) == 1, executed), "plugin executed iff it has something to verify")
		if r := c02Result(run.outcome, trustpolicy.TypeAuthenticity); r != nil {
			wantErr := vr.Or(w.authFail(), vr.And(vr.Not(ownsTI), w.idFail()), vr.And(askTI, respTI == 1, vr.Not(okTI)))
			vr.Assert(vr.Iff(r.Error != nil, wantErr), "authenticity result: native identity check replaced by the plugin verdict when the plugin owns it")
		}
	} else {
		vr.Reach("rejected")
	}
}

// VsymC02Mono: the same world under strict, permissive and audit (same overrides): acceptance is monotone.
func VsymC02Mono() {
	w := c02DrawWorld(true)
	strict := c02DrawLevel("strict", vr.Param("overrides", 1), true, nil)
	perm := c02DrawLevel("permissive", 0, false, &strict)
	audit := c02DrawLevel("audit", 0, false, &strict)
	rs := c02Verify(&w, strict, nil, nil, nil)
	rp := c02Verify(&w, perm, nil, nil, nil)
	ra := c02Verify(&w, audit, nil, nil, nil)
	vr.Assert(!(rs.err == nil) || rp.err == nil, "accepted under strict implies accepted under permissive")
	vr.Assert(!(rp.err == nil) || ra.err == nil, "accepted under permissive implies accepted under audit")
	if rs.err == nil {
		vr.Reach("strict accepts")
	}
	if rs.err != nil && rp.err == nil {
		vr.Reach("permissive accepts what strict rejects")
	}
	if rp.err != nil && ra.err == nil {
		vr.Reach("audit accepts what permissive rejects")
	}
}

func init() {
	vsymHarnesses["VsymC02Native"] = VsymC02Native
	vsymHarnesses["VsymC02PluginPre"] = VsymC02PluginPre
	vsymHarnesses["VsymC02PluginRoute"] = VsymC02PluginRoute
	vsymHarnesses["VsymC02Mono"] = VsymC02Mono
}
