//go:build verif

package verifier

import (
	"context"
	"crypto/x509"
	"time"

	"github.com/notaryproject/notation-core-go/signature"
	"github.com/notaryproject/notation-go"
	vr "github.com/notaryproject/notation-go/internal/zzvr"
	pluginframework "github.com/notaryproject/notation-plugin-framework-go/plugin"
	ocispec "github.com/opencontainers/image-spec/specs-go/v1"
)

// VsymC02PluginSequence: one verifier, several signatures that demand the same verification plugin with
// different minimum versions, the installed plugin possibly upgraded or removed in between. Whether the plugin
// is there, recent enough and a verifier is decided for every signature on what is installed at that moment;
// nothing remembered from an earlier verification lets a signature through that demands more.
func VsymC02PluginSequence() {
	kitEnv = kitEnvState{}
	kitInstallEnvelope()
	leaf := &x509.Certificate{Raw: []byte{'l'}}
	leaf.Subject.Country, leaf.Subject.Province, leaf.Subject.Organization = []string{"US"}, []string{"WA"}, []string{"a"}
	leaf.NotBefore, leaf.NotAfter = time.Unix(946684800, 0), time.Unix(4102444800, 0)
	store := &kitStore{answers: map[string]kitStoreAnswer{"ca:s": {certs: []*x509.Certificate{leaf}}}}
	level := []string{"strict", "permissive", "audit"}[vr.Choice("level", 3)]
	mgr := &kitManager{plugins: map[string]*kitPlugin{}}
	v, err := NewVerifierWithOptions(store, VerifierOptions{OCITrustPolicy: kitOCIDoc(level, nil, []string{"ca:s"}, []string{"*"}), PluginManager: mgr,
		RevocationCodeSigningValidator: &kitValidator{results: kitOKResults(1)}, RevocationTimestampingValidator: &kitValidator{}})
	vr.Assert(err == nil, "harness: verifier")
	if err != nil {
		return
	}
	versions := []string{"1.0.0", "2.0.0"}
	n := vr.Param("verifications", 2)
	for i := 0; i < n; i++ {
		installed := vr.Choice("installedNow", 3) // 0: not installed, 1: version 1.0.0, 2: version 2.0.0
		minVer := vr.Choice("minimumVersionDemanded", 3) // 0: none, 1: 1.0.0, 2: 2.0.0
		delete(mgr.plugins, "plug")
		var plug *kitPlugin
		if installed > 0 {
			plug = &kitPlugin{meta: pluginframework.GetMetadataResponse{Name: "plug", Version: versions[installed-1], Capabilities: []pluginframework.Capability{pluginframework.CapabilityTrustedIdentityVerifier}}}
			plug.response = &pluginframework.VerifySignatureResponse{VerificationResults: map[pluginframework.Capability]*pluginframework.VerificationResult{
				pluginframework.CapabilityTrustedIdentityVerifier: {Success: true}}}
			mgr.plugins["plug"] = plug
		}
		attrs := []signature.Attribute{{Key: HeaderVerificationPlugin, Critical: true, Value: "plug"}}
		if minVer > 0 {
			attrs = append(attrs, signature.Attribute{Key: HeaderVerificationPluginMinVersion, Critical: true, Value: versions[minVer-1]})
		}
		kitEnv.content = &signature.EnvelopeContent{
			Payload: signature.Payload{ContentType: "application/vnd.cncf.notary.payload.v1+json", Content: vr.JSONBytes(vr.JObj("targetArtifact", vr.JObj("mediaType", vr.JStr("m"), "digest", vr.JStr("d"), "size", vr.JNum(1))))},
			SignerInfo: signature.SignerInfo{SignedAttributes: signature.SignedAttributes{SigningScheme: signature.SigningSchemeX509, SigningTime: time.Unix(1700000000, 0), ExtendedAttributes: attrs},
				SignatureAlgorithm: signature.AlgorithmPS256, CertificateChain: []*x509.Certificate{leaf}, Signature: []byte("sig")},
		}
		_, verr := v.Verify(context.Background(), ocispec.Descriptor{MediaType: "m", Digest: "d", Size: 1}, []byte{1}, notation.VerifierVerifyOptions{ArtifactReference: kitRef, SignatureMediaType: kitJWS})
		want := installed > 0 && minVer <= installed
		vr.Assert((verr == nil) == want, "a signature that demands a verification plugin is accepted only if that plugin is installed now in at least the version the signature demands - at every level, whatever the same verifier verified before")
		if want && plug != nil {
			vr.Assert(len(plug.verifyReqs) == 1, "the plugin installed now is the one that is asked")
		}
		if i > 0 {
			vr.Reach("plugin demanded again")
		}
	}
}

func init() { vsymHarnesses["VsymC02PluginSequence"] = VsymC02PluginSequence }
