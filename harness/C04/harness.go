//go:build verif

package verifier

import (
	"crypto/x509"
	"crypto/x509/pkix"

	vr "github.com/notaryproject/notation-go/internal/zzvr"
)

// attribute alphabet (rendering key, optional alias)
var c04Attrs = []string{"C", "ST", "O", "OU", "CN", "L", "STREET"}

type c04DN struct {
	present map[string]bool
	value   map[string]string
}

// c04Val: a one-byte attribute value over {A, a, b}: equal, different, or differing in letter case only
func c04Val(tag string) string { return string([]byte{vr.ByteIn(tag, "Aab")}) }

// c04Subject draws a certificate subject: C/ST/O (mandatory for notation) optionally missing, other attributes optional.
func c04Subject(tag string, allowBroken bool) (pkix.Name, c04DN, bool) {
	dn := c04DN{present: map[string]bool{}, value: map[string]string{}}
	var n pkix.Name
	interpretable := true
	set := func(a, v string) {
		dn.present[a] = true
		dn.value[a] = v
		switch a {
		case "C":
			n.Country = []string{v}
		case "ST":
			n.Province = []string{v}
		case "O":
			n.Organization = []string{v}
		case "OU":
			n.OrganizationalUnit = []string{v}
		case "CN":
			n.CommonName = v
		case "L":
			n.Locality = []string{v}
		case "STREET":
			n.StreetAddress = []string{v}
		}
	}
	set("C", "US")
	set("ST", c04Val(tag+".ST"))
	if allowBroken && vr.Choice(tag+".missingO", 4) == 3 {
		interpretable = false // subject without O cannot be interpreted by notation
	} else {
		set("O", c04Val(tag+".O"))
	}
	opt := []string{"OU", "CN", "L"}[:vr.Param("optAttrs", 2)]
	if !allowBroken {
		opt = nil
		set("CN", c04Val(tag+".CN"))
	}
	for _, a := range opt {
		if vr.Choice(tag+".has"+a, 2) == 1 {
			set(a, c04Val(tag+"."+a))
		}
	}
	return n, dn, interpretable
}

type c04Identity struct {
	text     string
	wildcard bool
	x509     bool
	parses   bool
	dn       c04DN
}

func c04DrawIdentity(tag string, lean bool) c04Identity {
	switch vr.Choice(tag+".shape", 6) {
	case 0:
		return c04Identity{text: "*", wildcard: true}
	case 1:
		return c04Identity{text: "other:thing"}
	case 2:
		return c04Identity{text: "x509.subject:C=US,ST", x509: true} // unparseable
	case 3:
		return c04Identity{text: "x509.subject:C=US,ST=a,CN=a", x509: true} // no O: not interpretable
	}
	// a structured DN: C, ST (spelled ST or S), O, optional OU/CN/L with own values, any rotation, optional spacing
	id := c04Identity{x509: true, parses: true, dn: c04DN{present: map[string]bool{}, value: map[string]string{}}}
	stKey, sep := "ST", ","
	opt := []string{"OU", "CN", "L"}[:vr.Param("optAttrs", 2)]
	if lean {
		opt = opt[:1]
	} else {
		stKey = []string{"ST", "S"}[vr.Choice(tag+".stKey", 2)]
		sep = []string{",", ", ", " , "}[vr.Choice(tag+".sep", vr.Param("seps", 2))]
	}
	var parts []string
	add := func(key, attr, v string) {
		id.dn.present[attr] = true
		id.dn.value[attr] = v
		parts = append(parts, key+"="+v)
	}
	add("C", "C", "US")
	add(stKey, "ST", c04Val(tag+".ST"))
	add("O", "O", c04Val(tag+".O"))
	for _, a := range opt {
		switch vr.Choice(tag+".has"+a, 3) {
		case 1:
			add(a, a, c04Val(tag+"."+a))
		case 2:
			// present with an empty value
			vr.Note("identity attribute " + a + " with empty value")
			id.dn.present[a] = true
			id.dn.value[a] = ""
			parts = append(parts, a+"=")
		}
	}
	rot := 0
	if !lean {
		// first, middle or last attribute leads
		rot = []int{0, len(parts) / 2, len(parts) - 1}[vr.Choice(tag+".rotation", 3)]
	}
	text := ""
	for i := range parts {
		if i > 0 {
			text += sep
		}
		text += parts[(i+rot)%len(parts)]
	}
	id.text = "x509.subject:" + text
	return id
}

// matches: every attribute of the identity occurs in the subject with an equal value
func c04Matches(id, subject c04DN) bool {
	r := true
	for _, a := range c04Attrs {
		if id.present[a] {
			if !subject.present[a] {
				return false
			}
			r = vr.And(r, id.value[a] == subject.value[a])
		}
	}
	return r
}

func c04HasEmptyValue(id c04DN) bool {
	for _, a := range c04Attrs {
		if id.present[a] && id.value[a] == "" {
			return true
		}
	}
	return false
}

// VsymC04: identity pinning matches only the leaf's own subject.
func VsymC04() {
	leafName, leafDN, leafOK := c04Subject("leaf", true)
	interName, _, _ := c04Subject("inter", false)
	leaf := &x509.Certificate{Raw: []byte("leaf"), Subject: leafName}
	inter := &x509.Certificate{Raw: []byte("inter"), Subject: interName}
	chain := []*x509.Certificate{leaf}
	if vr.Choice("chainLen", 2) == 1 {
		chain = append(chain, inter)
	}
	n := vr.Choice("identities", vr.Param("ids", 2)) + 1
	var ids []string
	var models []c04Identity
	for i := 0; i < n; i++ {
		id := c04DrawIdentity([]string{"id0", "id1"}[i], i > 0)
		ids = append(ids, id.text)
		models = append(models, id)
	}
	err := verifyX509TrustedIdentities("p", ids, chain)

	wildcard, nX509, allParse := false, 0, true
	anyEmpty := false
	for _, m := range models {
		wildcard = wildcard || m.wildcard
		if m.x509 {
			nX509++
			allParse = allParse && m.parses
			if m.parses && c04HasEmptyValue(m.dn) {
				anyEmpty = true
			}
		}
	}
	if wildcard {
		vr.Assert(err == nil, "the wildcard accepts every subject")
		vr.Reach("wildcard")
		return
	}
	if nX509 == 0 || !allParse || !leafOK {
		vr.Assert(err != nil, "no x509.subject identity, an identity or a leaf subject that cannot be interpreted: fails closed")
		vr.Reach("fails closed")
		return
	}
	match := false
	for _, m := range models {
		if m.x509 {
			match = vr.Or(match, c04Matches(m.dn, leafDN))
		}
	}
	if anyEmpty {
		vr.FindingKey("identity-empty-attribute-value-matches-absent")
	}
	vr.Assert(vr.Iff(err == nil, match), "accepted iff for some identity every attribute occurs with an equal value in the leaf's subject (order, spacing, S/ST alias irrelevant; intermediates ignored)")
	vr.FindingKey("")
	if err == nil {
		vr.Reach("identity matched")
	} else {
		vr.Reach("identity not matched")
	}
}

func init() { vsymHarnesses["VsymC04"] = VsymC04 }

// VsymC04Values: attribute values are compared byte for byte - near misses inside a value (doubled, leading,
// trailing or other white space, letter case, a missing character) are rejected; spacing around the
// separators of the identity is not part of any value.
func VsymC04Values() {
	leaf := &x509.Certificate{}
	leafO := []string{"Acme Corp", "Acme  Corp", "acme", "Acme", "Acme:East"}[vr.Choice("leafO", 5)]
	leaf.Subject = pkix.Name{Country: []string{"US"}, Province: []string{"WA"}, Organization: []string{leafO}}
	idO := []string{"Acme Corp", "Acme  Corp", "Acme Corp ", " Acme Corp", "Acme\tCorp", "AcmeCorp", "acme corp", "Acme Cor", "acme", "ACME",
		"Acme", "Acme:East", "Acme:West", "Acme:"}[vr.Choice("identityO", 14)] // a colon is an ordinary character of a value
	sep := []string{",", ", ", " , "}[vr.Choice("separator", 3)]
	// leading / trailing blanks of a value are written escaped, as RFC 4514 requires
	esc := idO
	if len(esc) > 0 && esc[0] == ' ' {
		esc = "\\" + esc
	}
	if len(esc) > 1 && esc[len(esc)-1] == ' ' {
		esc = esc[:len(esc)-1] + "\\ "
	}
	id := "x509.subject:C=US" + sep + "ST=WA" + sep + "O=" + esc
	err := verifyX509TrustedIdentities("p", []string{id}, []*x509.Certificate{leaf})
	vr.Assert((err == nil) == (idO == leafO), "an identity matches only if every attribute value equals the leaf's byte for byte")
	if err == nil {
		vr.Reach("value matched")
	} else {
		vr.Reach("near miss rejected")
	}
}

func init() { vsymHarnesses["VsymC04Values"] = VsymC04Values }
