//go:build verif

package registry

// C19: stored signatures round-trip and stay with their artifact.
// Push histories over two subjects plus hostile hand-built referrers; the store is a model of the oras
// contract under the engine and oras' real in-memory store natively.

import (
	"bytes"
	"context"
	"encoding/json"
	"errors"
	"io"

	vr "github.com/notaryproject/notation-go/internal/zzvr"
	"github.com/opencontainers/go-digest"
	"github.com/opencontainers/image-spec/specs-go"
	ocispec "github.com/opencontainers/image-spec/specs-go/v1"
	"oras.land/oras-go/v2"
	"oras.land/oras-go/v2/content"
	"oras.land/oras-go/v2/content/memory"
	"oras.land/oras-go/v2/errdef"
)

//vsym:stub oras.land/oras-go/v2.PushBytes = c19PushBytes
//vsym:stub oras.land/oras-go/v2.PackManifest = c19PackManifest
//vsym:stub oras.land/oras-go/v2/content.FetchAll = c19FetchAll

const (
	c19ImageMT    = "application/vnd.oci.image.manifest.v1+json"
	c19ArtifactMT = "application/vnd.oci.artifact.manifest.v1+json"
	c19JWS        = "application/jose+json"
	c19COSE       = "application/cose"
)

type c19Node struct {
	desc ocispec.Descriptor
	data []byte
	refs []digest.Digest // digests this manifest points to (subject, config, layers)
}

// c19Store is the store contract: content addressed nodes; Predecessors(d) returns every manifest that
// points to a descriptor with d's digest (an over-approximation of oras' (media type, digest, size) index).
type c19Store struct {
	nodes   []*c19Node
	fetched []digest.Digest
	seq     int
}

var c19S *c19Store

func (s *c19Store) find(d digest.Digest) *c19Node {
	for _, n := range s.nodes {
		if n.desc.Digest == d {
			return n
		}
	}
	return nil
}

func (s *c19Store) newDigest() digest.Digest {
	s.seq++
	b := []byte("sha256:0000000000000000000000000000000000000000000000000000000000000000")
	b[len(b)-1] = byte('0' + s.seq%10)
	b[len(b)-2] = byte('0' + (s.seq/10)%10)
	return digest.Digest(b)
}

func (s *c19Store) add(mediaType string, data []byte, size int64, refs []digest.Digest) ocispec.Descriptor {
	d := ocispec.Descriptor{MediaType: mediaType, Digest: s.newDigest(), Size: size}
	s.nodes = append(s.nodes, &c19Node{desc: d, data: data, refs: refs})
	return d
}

func (s *c19Store) Fetch(ctx context.Context, target ocispec.Descriptor) (io.ReadCloser, error) {
	n := s.find(target.Digest)
	if n == nil {
		return nil, errdef.ErrNotFound
	}
	return io.NopCloser(bytes.NewReader(n.data)), nil
}

func (s *c19Store) Exists(ctx context.Context, target ocispec.Descriptor) (bool, error) {
	return s.find(target.Digest) != nil, nil
}

func (s *c19Store) Push(ctx context.Context, expected ocispec.Descriptor, r io.Reader) error {
	if s.find(expected.Digest) != nil {
		return errdef.ErrAlreadyExists
	}
	data, err := io.ReadAll(r)
	if err != nil {
		return err
	}
	s.nodes = append(s.nodes, &c19Node{desc: expected, data: data})
	return nil
}

func (s *c19Store) Resolve(ctx context.Context, reference string) (ocispec.Descriptor, error) {
	return ocispec.Descriptor{}, errdef.ErrNotFound
}

func (s *c19Store) Tag(ctx context.Context, desc ocispec.Descriptor, reference string) error { return nil }

func (s *c19Store) Predecessors(ctx context.Context, node ocispec.Descriptor) ([]ocispec.Descriptor, error) {
	var out []ocispec.Descriptor
	for _, n := range s.nodes {
		for _, r := range n.refs {
			if r == node.Digest {
				out = append(out, n.desc)
				break
			}
		}
	}
	return out, nil
}

func c19PushBytes(ctx context.Context, pusher content.Pusher, mediaType string, contentBytes []byte) (ocispec.Descriptor, error) {
	// content addressed: pushing bytes that are already stored fails with ErrAlreadyExists, as oras' stores do
	for _, n := range c19S.nodes {
		if n.refs == nil && n.desc.MediaType == mediaType && string(n.data) == string(contentBytes) {
			return ocispec.Descriptor{}, errdef.ErrAlreadyExists
		}
	}
	return c19S.add(mediaType, contentBytes, int64(len(contentBytes)), nil), nil
}

// c19PackManifest: oras.PackManifest v1.1 with a config descriptor: an image manifest holding exactly the
// given subject, config, layers and annotations.
func c19PackManifest(ctx context.Context, pusher content.Pusher, version oras.PackManifestVersion, artifactType string, opts oras.PackManifestOptions) (ocispec.Descriptor, error) {
	if opts.ConfigDescriptor == nil && artifactType == "" {
		return ocispec.Descriptor{}, errors.New("missing artifact type")
	}
	m := ocispec.Manifest{Versioned: specs.Versioned{SchemaVersion: 2}, MediaType: c19ImageMT, ArtifactType: artifactType, Layers: opts.Layers, Subject: opts.Subject, Annotations: opts.ManifestAnnotations}
	var refs []digest.Digest
	if opts.ConfigDescriptor != nil {
		m.Config = *opts.ConfigDescriptor
		refs = append(refs, m.Config.Digest)
	}
	if opts.Subject != nil {
		refs = append(refs, opts.Subject.Digest)
	}
	for _, l := range opts.Layers {
		refs = append(refs, l.Digest)
	}
	data, err := json.Marshal(m)
	if err != nil {
		return ocispec.Descriptor{}, err
	}
	return c19S.add(c19ImageMT, data, int64(len(data)), refs), nil
}

// c19FetchAll: content.FetchAll - the stored bytes iff digest and size match.
func c19FetchAll(ctx context.Context, fetcher content.Fetcher, desc ocispec.Descriptor) ([]byte, error) {
	s := c19S
	s.fetched = append(s.fetched, desc.Digest)
	n := s.find(desc.Digest)
	if n == nil {
		return nil, errdef.ErrNotFound
	}
	if desc.Size < 0 || n.desc.Size != desc.Size {
		return nil, errors.New("size mismatch")
	}
	return n.data, nil
}

// c19Remote: a registry with the referrers API on top of a store - every image manifest whose subject has the
// asked digest, described with its artifact type and annotations, filtered by artifact type, in pages.
type c19Remote struct {
	oras.GraphTarget
	page int
}

func (r *c19Remote) Referrers(ctx context.Context, desc ocispec.Descriptor, artifactType string, fn func(referrers []ocispec.Descriptor) error) error {
	preds, err := r.GraphTarget.Predecessors(ctx, desc)
	if err != nil {
		return err
	}
	var all []ocispec.Descriptor
	for _, node := range preds {
		if node.MediaType != c19ImageMT {
			continue
		}
		data, err := content.FetchAll(ctx, r.GraphTarget, node)
		if err != nil {
			return err
		}
		var m ocispec.Manifest
		if err := json.Unmarshal(data, &m); err != nil {
			return err
		}
		if m.Subject == nil || m.Subject.Digest != desc.Digest {
			continue
		}
		node.ArtifactType = m.ArtifactType
		if node.ArtifactType == "" {
			node.ArtifactType = m.Config.MediaType
		}
		node.Annotations = m.Annotations
		if artifactType != "" && node.ArtifactType != artifactType {
			continue
		}
		all = append(all, node)
	}
	if len(all) == 0 {
		return fn(nil)
	}
	for i := 0; i < len(all); i += r.page {
		end := i + r.page
		if end > len(all) {
			end = len(all)
		}
		if err := fn(all[i:end]); err != nil {
			return err
		}
	}
	return nil
}

// c19Logging wraps oras' real in-memory store natively so that fetches can be observed there as well.
type c19Logging struct {
	*memory.Store
	fetched []digest.Digest
}

func (l *c19Logging) Fetch(ctx context.Context, target ocispec.Descriptor) (io.ReadCloser, error) {
	l.fetched = append(l.fetched, target.Digest)
	return l.Store.Fetch(ctx, target)
}

// ---- harness ----------------------------------------------------------------------------------------

type c19Pushed struct {
	subject  int
	media    string
	blob     []byte
	ann      map[string]string
	manifest ocispec.Descriptor
	legacy   bool
}

func c19Desc(d ocispec.Descriptor) vr.J {
	return vr.JObj("mediaType", vr.JStr(d.MediaType), "digest", vr.JStr(string(d.Digest)), "size", vr.JNum(d.Size))
}

// VsymC19 explores push histories and hostile referrers.
func VsymC19() {
	nPush := vr.Param("pushes", 3)
	ctx := context.Background()
	var target oras.GraphTarget
	var mem *memory.Store
	var logging *c19Logging
	if vr.Symbolic() {
		c19S = &c19Store{}
		target = c19S
	} else {
		mem = memory.New()
		logging = &c19Logging{Store: mem}
		target = logging
	}
	fetched := func() []digest.Digest {
		if vr.Symbolic() {
			return c19S.fetched
		}
		return logging.fetched
	}
	resetFetched := func() {
		if vr.Symbolic() {
			c19S.fetched = nil
		} else {
			logging.fetched = nil
		}
	}
	// the listing route: a store that only answers Predecessors (OCI layout, memory), or a registry that speaks
	// the referrers API and delivers the referrers in pages
	remote := vr.Choice("referrersAPI", 2) == 1
	if remote {
		target = &c19Remote{GraphTarget: target, page: []int{1, 2, 100}[vr.Choice("referrersPage", 3)]}
	}
	repo := NewRepository(target)
	// inject stores a hand-built document as a node and returns its descriptor (declared size = actual unless given)
	inject := func(mediaType string, doc vr.J, refs []digest.Digest, declared int64) ocispec.Descriptor {
		data := vr.JSONBytes(doc)
		if vr.Symbolic() {
			size := int64(len(data))
			if declared > 0 {
				size = declared
			}
			return c19S.add(mediaType, data, size, refs)
		}
		if declared > 0 {
			vr.SkipNative() // a real store does not accept a descriptor whose size differs from the content
		}
		d := content.NewDescriptorFromBytes(mediaType, data)
		if err := mem.Push(ctx, d, bytes.NewReader(data)); err != nil {
			panic("harness: " + err.Error())
		}
		return d
	}
	blobOf := func(tag string) ocispec.Descriptor {
		d, err := oras.PushBytes(ctx, target, c19JWS, []byte(tag))
		if err != nil {
			panic("harness: " + err.Error())
		}
		return d
	}
	// two subjects that agree in some fields
	subjA := ocispec.Descriptor{MediaType: c19ImageMT, Digest: digest.Digest("sha256:aaaaaaaaaaaaaaaaaaaaaaaaaaaaaaaaaaaaaaaaaaaaaaaaaaaaaaaaaaaaaaaa"), Size: 100}
	subjB := subjA
	// a registry's referrers API knows an artifact by its digest alone: descriptors that share a digest and
	// differ elsewhere are asked of the route that compares whole descriptors
	subjBKind := 0
	if !remote {
		subjBKind = vr.Choice("subjectB", 3)
	}
	switch subjBKind {
	case 0:
		subjB.Digest = digest.Digest("sha256:bbbbbbbbbbbbbbbbbbbbbbbbbbbbbbbbbbbbbbbbbbbbbbbbbbbbbbbbbbbbbbbb")
	case 1:
		subjB.Size = 101 // same digest, another size
	case 2:
		subjB.MediaType = "application/vnd.oci.image.index.v1+json" // same digest, another media type
	}
	subjects := []ocispec.Descriptor{subjA, subjB}
	var pushed []*c19Pushed
	for i := 0; i < nPush; i++ {
		p := &c19Pushed{subject: vr.Choice("pushSubject", 2), media: []string{c19JWS, c19COSE}[vr.Choice("pushMedia", 2)], blob: []byte{'e', 'n', 'v', byte('0' + i)}}
		// as notation.SignOCI does, the created annotation is always supplied (oras adds one otherwise)
		p.ann = map[string]string{"org.opencontainers.image.created": "2023-11-14T22:13:20Z"}
		nAnn := 2
		if i == 0 {
			nAnn = 3 // the empty value is drawn for the first push only
		}
		switch vr.Choice("pushAnnotations", nAnn) {
		case 1:
			p.ann["k"] = string([]byte{'v', byte('0' + i)})
		case 2:
			p.ann["k"] = "" // an annotation whose value is empty is still an annotation
		}
		blobDesc, manDesc, err := repo.PushSignature(ctx, p.media, p.blob, subjects[p.subject], p.ann)
		vr.Assert(err == nil, "pushing a signature succeeds")
		if err != nil {
			return
		}
		vr.Assert(blobDesc.MediaType == p.media && blobDesc.Size == int64(len(p.blob)), "the blob descriptor returned describes the pushed envelope")
		p.manifest = manDesc
		pushed = append(pushed, p)
	}
	// one foreign or hostile referrer of subject A
	cfg := vr.JObj("mediaType", vr.JStr(ArtifactTypeNotation), "digest", vr.JStr(string(ocispec.DescriptorEmptyJSON.Digest)), "size", vr.JNum(2))
	hostile := 0
	if !remote {
		// what a hostile referrer may look like is asked of the route that reads the manifests itself
		hostile = vr.Choice("foreignReferrer", 12)
	}
	var hostileDesc ocispec.Descriptor
	hostileListed, hostileFetchable := false, false
	var hostileBlob ocispec.Descriptor
	refsA := []digest.Digest{subjA.Digest}
	switch hostile {
	case 1: // another artifact type
		b := blobOf("other-type")
		other := vr.JObj("mediaType", vr.JStr("application/vnd.example.sbom"), "digest", vr.JStr(string(ocispec.DescriptorEmptyJSON.Digest)), "size", vr.JNum(2))
		hostileDesc = inject(c19ImageMT, vr.JObj("schemaVersion", vr.JNum(2), "mediaType", vr.JStr(c19ImageMT), "config", other, "layers", vr.JArr(c19Desc(b)), "subject", c19Desc(subjA)), refsA, 0)
	case 11: // another artifact type by its config, with the notation type written into the artifactType field
		b := blobOf("other-type-field")
		other := vr.JObj("mediaType", vr.JStr("application/vnd.example.sbom"), "digest", vr.JStr(string(ocispec.DescriptorEmptyJSON.Digest)), "size", vr.JNum(2))
		hostileDesc = inject(c19ImageMT, vr.JObj("schemaVersion", vr.JNum(2), "mediaType", vr.JStr(c19ImageMT), "artifactType", vr.JStr(ArtifactTypeNotation), "config", other, "layers", vr.JArr(c19Desc(b)), "subject", c19Desc(subjA)), refsA, 0)
	case 2: // a legacy artifact manifest of the notation type: a signature in the old layout
		b := blobOf("legacy")
		hostileBlob = b
		hostileDesc = inject(c19ArtifactMT, vr.JObj("mediaType", vr.JStr(c19ArtifactMT), "artifactType", vr.JStr(ArtifactTypeNotation), "blobs", vr.JArr(c19Desc(b)), "subject", c19Desc(subjA)), refsA, 0)
		hostileListed, hostileFetchable = true, true
	case 3: // subject differing in size only
		b := blobOf("near-subject")
		near := subjA
		near.Size = 99
		hostileDesc = inject(c19ImageMT, vr.JObj("schemaVersion", vr.JNum(2), "mediaType", vr.JStr(c19ImageMT), "config", cfg, "layers", vr.JArr(c19Desc(b)), "subject", c19Desc(near)), refsA, 0)
	case 4: // no layer
		hostileDesc = inject(c19ImageMT, vr.JObj("schemaVersion", vr.JNum(2), "mediaType", vr.JStr(c19ImageMT), "config", cfg, "layers", vr.JArr(), "subject", c19Desc(subjA)), refsA, 0)
		hostileListed = true
	case 5: // two layers
		b1, b2 := blobOf("first"), blobOf("second")
		hostileDesc = inject(c19ImageMT, vr.JObj("schemaVersion", vr.JNum(2), "mediaType", vr.JStr(c19ImageMT), "config", cfg, "layers", vr.JArr(c19Desc(b1), c19Desc(b2)), "subject", c19Desc(subjA)), refsA, 0)
		hostileListed = true
	case 6: // null subject, pointing at A through a layer only
		b := blobOf("no-subject")
		hostileDesc = inject(c19ImageMT, vr.JObj("schemaVersion", vr.JNum(2), "mediaType", vr.JStr(c19ImageMT), "config", cfg, "layers", vr.JArr(c19Desc(b), c19Desc(subjA)), "subject", vr.JNull()), refsA, 0)
	case 7: // a blob declared larger than the cap
		b := blobOf("huge")
		b.Size = maxBlobSizeLimit + 1
		hostileBlob = b
		hostileDesc = inject(c19ImageMT, vr.JObj("schemaVersion", vr.JNum(2), "mediaType", vr.JStr(c19ImageMT), "config", cfg, "layers", vr.JArr(c19Desc(b)), "subject", c19Desc(subjA)), refsA, 0)
		hostileListed = true
	case 8: // a manifest declared larger than the cap
		b := blobOf("big-manifest")
		hostileDesc = inject(c19ImageMT, vr.JObj("schemaVersion", vr.JNum(2), "mediaType", vr.JStr(c19ImageMT), "config", cfg, "layers", vr.JArr(c19Desc(b)), "subject", c19Desc(subjA)), refsA, maxManifestSizeLimit+1)
	case 10: // a legacy artifact manifest declared larger than the manifest cap
		b := blobOf("big-legacy")
		hostileDesc = inject(c19ArtifactMT, vr.JObj("mediaType", vr.JStr(c19ArtifactMT), "artifactType", vr.JStr(ArtifactTypeNotation), "blobs", vr.JArr(c19Desc(b)), "subject", c19Desc(subjA)), refsA, maxManifestSizeLimit+1)
	case 9: // legacy artifact manifest with two blobs
		b1, b2 := blobOf("l-first"), blobOf("l-second")
		hostileDesc = inject(c19ArtifactMT, vr.JObj("mediaType", vr.JStr(c19ArtifactMT), "artifactType", vr.JStr(ArtifactTypeNotation), "blobs", vr.JArr(c19Desc(b1), c19Desc(b2)), "subject", c19Desc(subjA)), refsA, 0)
		hostileListed = true
	}

	// ---- listing ----------------------------------------------------------------------------------
	annotated := vr.Choice("listWithAnnotatedDescriptor", 2) == 1
	for si, subj := range subjects {
		if si == 1 && content.Equal(subjA, subjB) {
			continue
		}
		// the same artifact named by a descriptor that is content-equal but carries other annotations
		// (a descriptor resolved from a tag carries index annotations, one resolved by digest does not)
		if annotated {
			subj.Annotations = map[string]string{"org.opencontainers.image.ref.name": "v1"}
			subj.ArtifactType = "application/vnd.example"
		}
		var listed []ocispec.Descriptor
		err := repo.ListSignatures(ctx, subj, func(l []ocispec.Descriptor) error {
			listed = append(listed, l...)
			return nil
		})
		if (hostile == 8 || hostile == 10) && si == 1 && subjB.Digest == subjA.Digest {
			// the store model indexes referrers by digest only: whether the oversized referrer of A shows up
			// for a subject that merely shares A's digest is left open
			continue
		}
		if (hostile == 8 || hostile == 10) && si == 0 {
			vr.Assert(err != nil, "an oversized referrer manifest is refused")
			for _, f := range fetched() {
				vr.Assert(f != hostileDesc.Digest, "an oversized referrer manifest is refused before its content is fetched")
			}
			vr.Reach("oversized manifest refused")
			continue
		}
		vr.Assert(err == nil, "listing succeeds")
		want := 0
		for _, p := range pushed {
			if p.subject != si {
				continue
			}
			want++
			n := 0
			for _, l := range listed {
				if l.Digest == p.manifest.Digest {
					n++
					vr.Assert(l.ArtifactType == ArtifactTypeNotation && len(l.Annotations) == len(p.ann) && l.Annotations["k"] == p.ann["k"] && l.Annotations["org.opencontainers.image.created"] == "2023-11-14T22:13:20Z", "a listed signature manifest carries the notation artifact type and the pushed annotations")
				}
			}
			vr.Assert(n == 1, "every signature pushed for the artifact is listed exactly once")
		}
		if si == 0 && hostileListed {
			want++
		}
		vr.Assert(len(listed) == want, "nothing else is listed: no signature of another artifact, no other artifact type, no subject that merely shares a field")
		if si == 0 && hostile != 0 {
			found := false
			for _, l := range listed {
				if l.Digest == hostileDesc.Digest {
					found = true
				}
			}
			vr.Assert(found == hostileListed, "a foreign referrer is listed iff it is a notation-typed manifest whose subject equals the artifact")
		}
		if want > 0 {
			vr.Reach("signatures listed")
		}
	}
	// ---- fetching ------------------------------------------------------------------------------------
	for _, p := range pushed {
		blob, bd, err := repo.FetchSignatureBlob(ctx, p.manifest)
		vr.Assert(err == nil && string(blob) == string(p.blob) && bd.MediaType == p.media && bd.Size == int64(len(p.blob)), "fetching a pushed signature yields the identical envelope bytes and media type")
		vr.Reach("round trip")
	}
	if hostile == 8 || hostile == 10 {
		// fetched by its descriptor (not through a listing): an image manifest or a legacy artifact manifest above
		// the manifest cap is refused before its content is fetched
		resetFetched()
		blob, _, err := repo.FetchSignatureBlob(ctx, hostileDesc)
		vr.Assert(err != nil && blob == nil, "a signature manifest above the manifest cap - image manifest or legacy artifact manifest - is refused when fetched by descriptor")
		for _, f := range fetched() {
			vr.Assert(f != hostileDesc.Digest, "an oversized manifest is refused before its content is fetched")
		}
	}
	if hostile != 0 && hostile != 8 && hostile != 10 {
		resetFetched()
		blob, _, err := repo.FetchSignatureBlob(ctx, hostileDesc)
		switch hostile {
		case 2:
			vr.Assert(err == nil && string(blob) == "legacy", "a legacy artifact manifest with one blob is a fetchable signature")
		case 4, 5, 9:
			vr.Assert(err != nil && blob == nil, "a referrer that does not carry exactly one blob is refused")
			vr.Reach("blob count refused")
		case 7:
			vr.Assert(err != nil && blob == nil, "a signature blob declared larger than the cap is refused")
			for _, f := range fetched() {
				vr.Assert(f != hostileBlob.Digest, "an oversized blob is refused before it is fetched")
			}
			vr.Reach("oversized blob refused")
		}
		_ = hostileFetchable
	}
	// a manifest descriptor of another media type, or oversized, is refused before any fetch
	resetFetched()
	_, _, e1 := repo.FetchSignatureBlob(ctx, ocispec.Descriptor{MediaType: "application/vnd.oci.image.index.v1+json", Digest: subjA.Digest, Size: 10})
	_, _, e2 := repo.FetchSignatureBlob(ctx, ocispec.Descriptor{MediaType: c19ImageMT, Digest: subjA.Digest, Size: maxManifestSizeLimit + 1})
	vr.Assert(e1 != nil && e2 != nil, "manifest descriptors of another media type or above the cap are refused")
	vr.Assert(len(fetched()) == 0, "... before anything is fetched")
}

func init() { vsymHarnesses["VsymC19"] = VsymC19 }
