//go:build verif

package registry

import (
	"testing"

	vr "github.com/notaryproject/notation-go/internal/zzvr"
)

func TestVsymReplay(t *testing.T) {
	if err := vr.ReplayMain(vsymHarnesses); err != nil {
		t.Fatal(err)
	}
}
