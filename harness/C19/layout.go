//go:build verif

package registry

import (
	"context"
	"os"

	vr "github.com/notaryproject/notation-go/internal/zzvr"
	"github.com/notaryproject/notation-go/internal/zzvr/fskit"
	ocispec "github.com/opencontainers/image-spec/specs-go/v1"
	"oras.land/oras-go/v2"
	"oras.land/oras-go/v2/content/oci"
)

//vsym:stub oras.land/oras-go/v2/content/oci.New = c19OCINew

// c19OCINew: oci.New as documented - a store on the directory that saves its index on every push and cleans
// up dangling blobs on delete (the store's own code is outside the encoding).
func c19OCINew(root string) (*oci.Store, error) {
	return &oci.Store{AutoSaveIndex: true, AutoGC: true}, nil
}

// VsymC19Layout: a repository on an OCI layout directory. What one handle pushes must be there for the next
// handle on the same directory - under the engine: the store is left in the mode in which it saves its index
// on every push; natively: push through one handle, list and fetch through a fresh one.
func VsymC19Layout() {
	base := fskit.Root()
	defer fskit.Cleanup()
	layout := base + "/layout"
	if err := os.MkdirAll(layout, 0o755); err != nil {
		panic("harness: " + err.Error())
	}
	_, ferr := NewOCIRepository(base+"/missing", RepositoryOptions{})
	vr.Assert(ferr != nil, "a layout path that does not exist is refused")
	writer, err := NewOCIRepository(layout, RepositoryOptions{})
	vr.Assert(err == nil && writer != nil, "a repository on an existing directory is created")
	if err != nil {
		return
	}
	rc, ok := writer.(*repositoryClient)
	vr.Assert(ok, "harness: repository client")
	if !ok {
		return
	}
	st, ok := rc.GraphTarget.(*oci.Store)
	vr.Assert(ok && st != nil, "the repository works on an OCI layout store")
	if !ok || st == nil {
		return
	}
	vr.Assert(st.AutoSaveIndex, "the layout store saves its index on every push: what is pushed through this handle is on disk for the next one")
	vr.Reach("layout repository")
	if vr.Symbolic() {
		return
	}
	// natively, for real: push through one handle, read back through another
	ctx := context.Background()
	tool, _ := oci.New(layout)
	artifact, aerr := oras.PackManifest(ctx, tool, oras.PackManifestVersion1_1, "application/vnd.example.thing", oras.PackManifestOptions{
		ManifestAnnotations: map[string]string{ocispec.AnnotationCreated: "2024-01-01T00:00:00Z"}})
	if aerr != nil {
		panic("harness: " + aerr.Error())
	}
	subject := ocispec.Descriptor{MediaType: artifact.MediaType, Digest: artifact.Digest, Size: artifact.Size}
	writer2, _ := NewOCIRepository(layout, RepositoryOptions{})
	env := []byte(`{"payload":"one","protected":"x","signature":"s1"}`)
	_, man, perr := writer2.PushSignature(ctx, "application/jose+json", env, subject, map[string]string{ocispec.AnnotationCreated: "2024-02-01T10:00:00Z"})
	vr.Assert(perr == nil, "pushing a signature into the layout succeeds")
	reader, _ := NewOCIRepository(layout, RepositoryOptions{})
	var listed []ocispec.Descriptor
	lerr := reader.ListSignatures(ctx, subject, func(l []ocispec.Descriptor) error {
		listed = append(listed, l...)
		return nil
	})
	found := lerr == nil && len(listed) == 1 && listed[0].Digest == man.Digest
	vr.Assert(found, "the layout store saves its index on every push: what is pushed through this handle is on disk for the next one")
	if found {
		blob, _, gerr := reader.FetchSignatureBlob(ctx, listed[0])
		vr.Assert(gerr == nil && string(blob) == string(env), "... and fetches back as the identical envelope")
	}
}

func init() { vsymHarnesses["VsymC19Layout"] = VsymC19Layout }
