package main

import (
	"fmt"
	"math/rand"
	"os"
)

// selftest: model conformance of engine intrinsics against the real implementations on
// generated concrete cases (run by setup_cmd).

var selftestPatterns = []string{
	`^[a-zA-Z0-9_.-]+$`,
	`^(0|[1-9]\d*)\.(0|[1-9]\d*)\.(0|[1-9]\d*)(?:-((?:0|[1-9]\d*|\d*[a-zA-Z-][0-9a-zA-Z-]*)(?:\.(?:0|[1-9]\d*|\d*[a-zA-Z-][0-9a-zA-Z-]*))*))?(?:\+([0-9a-zA-Z-]+(?:\.[0-9a-zA-Z-]+)*))?$`,
	`^(?:[a-zA-Z0-9]|[a-zA-Z0-9][a-zA-Z0-9-]*[a-zA-Z0-9])(?:(?:\.(?:[a-zA-Z0-9]|[a-zA-Z0-9][a-zA-Z0-9-]*[a-zA-Z0-9]))+)?(?::[0-9]+)?$`,
	`^[a-z0-9]+(?:(?:(?:[._]|__|[-]*)[a-z0-9]+)+)?(?:(?:/[a-z0-9]+(?:(?:(?:[._]|__|[-]*)[a-z0-9]+)+)?)+)?$`,
	`^[a-z0-9]+(?:(?:[._]|__|[-]*)[a-z0-9]+)*(?:/[a-z0-9]+(?:(?:[._]|__|[-]*)[a-z0-9]+)*)*$`,
	`^[\w][\w.-]{0,127}$`,
	`[a-z0-9]+(?:[.+_-][a-z0-9]+)*:[a-zA-Z0-9=_-]+`,
	`^[a-f0-9]{4}$`,
	`a.c`,
	`(?i)ab+c$`,
	`(?i)^[a-z0-9_.-]+$`,
	`(?i)^[ks]+$`,
	`^[^a-z]+$`,
	`\x{FFFD}`,
	`^\pL+$`,
	`é.`,
	`^[\x{80}-\x{7FF}]+$`,
	`[\x{10000}-\x{10FFFF}]$`,
}

func selftestRegex() int {
	fails := 0
	w := &Worker{tc: NewTermCtx(), regexCache: map[string]*compiledRegex{}}
	ex := &Exec{w: w, tc: w.tc}
	rng := rand.New(rand.NewSource(1))
	alpha := []byte("aZ09._-/:+=*@ \n\x00\xc3\xa9b1")
	total := 0
	for _, pat := range selftestPatterns {
		cr, err := w.compileRegex(pat)
		if err != nil {
			fmt.Println("selftest: cannot compile", pat, err)
			return 1
		}
		const capN = 7
		tc := w.tc
		n := tc.Var("n", 64)
		b := make([]*Term, capN)
		for i := range b {
			b[i] = tc.Var(fmt.Sprintf("b%d", i), 8)
		}
		f := ex.regexMatch(cr, Str{sym: &SymStr{n: n, b: b}})
		for it := 0; it < 4000; it++ {
			ln := rng.Intn(capN + 1)
			bs := make([]byte, ln)
			m := map[string]uint64{"n": uint64(ln)}
			for i := range bs {
				bs[i] = alpha[rng.Intn(len(alpha))]
				if rng.Intn(4) == 0 {
					bs[i] = byte(rng.Intn(256))
				}
			}
			// whole runes of every width (and their prefixes, when cut by the length) at random places
			if rng.Intn(2) == 0 && ln > 0 {
				wide := []string{"\u212a", "\u017f", "\u00e9", "\u07ff", "\u0800", "\ud7ff", "\ue000", "\ufffd", "\U00010000", "\U0010ffff", "\xed\xa0\x80", "\xf4\x90\x80\x80", "\xc0\x80", "\xe0\x9f\xbf", "\xf0\x8f\xbf\xbf", "\u0130", "\u0131", "\uff21"}
				for k := rng.Intn(3); k >= 0; k-- {
					copy(bs[rng.Intn(ln):], wide[rng.Intn(len(wide))])
				}
			}
			for i := 0; i < capN; i++ {
				if i < ln {
					m[fmt.Sprintf("b%d", i)] = uint64(bs[i])
				} else {
					m[fmt.Sprintf("b%d", i)] = uint64(rng.Intn(256))
				}
			}
			got := tc.Eval(f, m, map[*Term]uint64{}) == 1
			want := cr.re.MatchString(string(bs))
			total++
			if got != want {
				fails++
				if fails < 10 {
					fmt.Printf("selftest regex MISMATCH pattern %q input %q: model %v real %v\n", pat, string(bs), got, want)
				}
			}
		}
	}
	fmt.Printf("selftest regex: %d cases, %d mismatches\n", total, fails)
	return fails
}

func cmdSelftest(args []string) int {
	fails := selftestRegex()
	fails += selftestStrings()
	if len(args) == 0 || args[0] != "--no-solvers" {
		fails += crossCheck("C14", "VsymC14", 4, map[string]int{"writers": 2, "readers": 1, "urls": 1})
		fails += crossCheck("C05", "VsymC05Final", 150, nil)
	}
	if fails > 0 {
		fmt.Fprintln(os.Stderr, "selftest FAILED")
		return 1
	}
	fmt.Println("selftest ok")
	return 0
}

// selftestStrings checks the symbolic string primitives against package strings on random inputs.
func selftestStrings() int {
	w := &Worker{tc: NewTermCtx()}
	ex := &Exec{w: w, tc: w.tc}
	tc := w.tc
	rng := rand.New(rand.NewSource(2))
	const capN = 5
	mkSym := func(name string) (Str, func(m map[string]uint64, s string)) {
		n := tc.Var(name+".n", 64)
		b := make([]*Term, capN)
		for i := range b {
			b[i] = tc.Var(fmt.Sprintf("%s.%d", name, i), 8)
		}
		return Str{sym: &SymStr{n: n, b: b}}, func(m map[string]uint64, s string) {
			m[name+".n"] = uint64(len(s))
			for i := 0; i < capN; i++ {
				if i < len(s) {
					m[fmt.Sprintf("%s.%d", name, i)] = uint64(s[i])
				} else {
					m[fmt.Sprintf("%s.%d", name, i)] = uint64(rng.Intn(256))
				}
			}
		}
	}
	a, setA := mkSym("a")
	b, setB := mkSym("b")
	type tcase struct {
		name string
		f    *Term
		real func(x, y string) uint64
	}
	b2u := func(v bool) uint64 {
		if v {
			return 1
		}
		return 0
	}
	idx := func(i int) uint64 { return uint64(int64(i)) }
	cat := ex.strConcat(a, b)
	catN, catB := ex.symParts(cat)
	cases := []tcase{
		{"eq", ex.strEq(a, b), func(x, y string) uint64 { return b2u(x == y) }},
		{"less", ex.strLess(a, b, false), func(x, y string) uint64 { return b2u(x < y) }},
		{"lesseq", ex.strLess(a, b, true), func(x, y string) uint64 { return b2u(x <= y) }},
		{"index", ex.strIndexOf(a, b, false), func(x, y string) uint64 { return idx(stringsIndex(x, y)) }},
		{"lastindex", ex.strIndexOf(a, b, true), func(x, y string) uint64 { return idx(stringsLastIndex(x, y)) }},
		{"hasprefix", ex.strHasPrefix(a, b), func(x, y string) uint64 { return b2u(len(x) >= len(y) && x[:len(y)] == y) }},
		{"hassuffix", ex.strHasSuffix(a, b), func(x, y string) uint64 { return b2u(len(x) >= len(y) && x[len(x)-len(y):] == y) }},
		{"equalfold", ex.strEqualFoldASCII(a, b), func(x, y string) uint64 { return b2u(asciiFoldEq(x, y)) }},
		{"concat.len", catN, func(x, y string) uint64 { return uint64(len(x + y)) }},
	}
	for k := 0; k < 2*capN; k++ {
		k := k
		cases = append(cases, tcase{fmt.Sprintf("concat.byte%d", k), tc.ZExt(catB[k], 64), func(x, y string) uint64 {
			s := x + y
			if k < len(s) {
				return uint64(s[k])
			}
			return ^uint64(0) // don't care
		}})
	}
	alpha := "ab/A."
	fails, total := 0, 0
	for it := 0; it < 4000; it++ {
		gen := func() string {
			ln := rng.Intn(capN + 1)
			if rng.Intn(3) == 0 {
				ln = rng.Intn(3)
			}
			bs := make([]byte, ln)
			for i := range bs {
				bs[i] = alpha[rng.Intn(len(alpha))]
			}
			return string(bs)
		}
		x, y := gen(), gen()
		m := map[string]uint64{}
		setA(m, x)
		setB(m, y)
		memo := map[*Term]uint64{}
		for _, c := range cases {
			want := c.real(x, y)
			if want == ^uint64(0) && c.name != "index" && c.name != "lastindex" {
				continue
			}
			got := tc.Eval(c.f, m, memo)
			total++
			if got != want {
				fails++
				if fails < 10 {
					fmt.Printf("selftest strings MISMATCH %s(%q,%q): model %d real %d\n", c.name, x, y, int64(got), int64(want))
				}
			}
		}
	}
	fmt.Printf("selftest strings: %d cases, %d mismatches\n", total, fails)
	return fails
}

func stringsIndex(s, sep string) int {
	for i := 0; i+len(sep) <= len(s); i++ {
		if s[i:i+len(sep)] == sep {
			return i
		}
	}
	return -1
}

func stringsLastIndex(s, sep string) int {
	for i := len(s) - len(sep); i >= 0; i-- {
		if s[i:i+len(sep)] == sep {
			return i
		}
	}
	return -1
}

func asciiFoldEq(x, y string) bool {
	if len(x) != len(y) {
		return false
	}
	lo := func(c byte) byte {
		if c >= 'A' && c <= 'Z' {
			return c + 32
		}
		return c
	}
	for i := 0; i < len(x); i++ {
		if lo(x[i]) != lo(y[i]) {
			return false
		}
	}
	return true
}
