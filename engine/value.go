package main

import (
	"fmt"
	"go/types"
	"strings"

	"golang.org/x/tools/go/ssa"
)

// Value representations
//
//	bool, integers           *Term (Bool / BV of the type's width)
//	float32/64, complex      float64 (concrete only)
//	string                   Str
//	pointer                  *Value (nil pointer = (*Value)(nil))
//	struct                   Struct
//	array                    Array
//	slice                    Slice
//	map                      *Map
//	interface                Iface
//	func                     *Closure
//	tuple                    Tuple
//	chan                     *Chan (unsupported beyond nil)
type Value = any

type Struct []Value
type Array []Value
type Tuple []Value

type Str struct {
	s   string
	sym *SymStr
}

type SymStr struct {
	n      *Term   // length (BV64), 0 <= n <= len(b)
	b      []*Term // bytes (BV8)
	opaque bool    // content must not be inspected
	abs    any     // abstract document (JSON model) carried by the bytes
	note   string
}

type Slice struct {
	a   []Value // window [0:cap]; nil for the nil slice
	n   *Term   // length (BV64)
	abs any     // abstract document carried by a []byte
}

type Map struct {
	keys []Value
	vals []Value
	live []bool
	idx  map[any]int // concrete hashable keys -> index
	cnt  int
}

type Iface struct {
	t types.Type // dynamic type (nil for nil interface)
	v Value
}

type Closure struct {
	fn  *ssa.Function
	env []Value
	// native intrinsic closure (engine-provided function value)
	native func(ex *Exec, args []Value) Value
}

type Chan struct{}

func mkStr(s string) Str { return Str{s: s} }

func (s Str) String() string {
	if s.sym == nil {
		return fmt.Sprintf("%q", s.s)
	}
	if s.sym.opaque {
		return "<opaque:" + s.sym.note + ">"
	}
	return fmt.Sprintf("<sym str cap %d len %s>", len(s.sym.b), s.sym.n)
}

// ---------------------------------------------------------------------------
// type helpers

func widthOf(t types.Type) Sort {
	switch b := t.Underlying().(type) {
	case *types.Basic:
		switch b.Kind() {
		case types.Bool, types.UntypedBool:
			return 0
		case types.Int8, types.Uint8:
			return 8
		case types.Int16, types.Uint16:
			return 16
		case types.Int32, types.Uint32, types.UntypedRune:
			return 32
		case types.Int, types.Uint, types.Int64, types.Uint64, types.Uintptr, types.UntypedInt:
			return 64
		}
	}
	panic(fmt.Sprintf("widthOf: not an integer/bool type: %s", t))
}

func isSigned(t types.Type) bool {
	if b, ok := t.Underlying().(*types.Basic); ok {
		return b.Info()&types.IsUnsigned == 0
	}
	return true
}

func isInteger(t types.Type) bool {
	if b, ok := t.Underlying().(*types.Basic); ok {
		return b.Info()&types.IsInteger != 0
	}
	return false
}

func isBoolean(t types.Type) bool {
	if b, ok := t.Underlying().(*types.Basic); ok {
		return b.Info()&types.IsBoolean != 0
	}
	return false
}

func isString(t types.Type) bool {
	if b, ok := t.Underlying().(*types.Basic); ok {
		return b.Info()&types.IsString != 0
	}
	return false
}

func isFloat(t types.Type) bool {
	if b, ok := t.Underlying().(*types.Basic); ok {
		return b.Info()&(types.IsFloat|types.IsComplex) != 0
	}
	return false
}

func (ex *Exec) zero(t types.Type) Value {
	tc := ex.tc
	switch u := t.Underlying().(type) {
	case *types.Basic:
		switch {
		case u.Kind() == types.UnsafePointer:
			return (*Value)(nil)
		case u.Info()&types.IsBoolean != 0:
			return tc.False
		case u.Info()&types.IsInteger != 0:
			return tc.BV(0, widthOf(u))
		case u.Info()&types.IsString != 0:
			return Str{}
		case u.Info()&(types.IsFloat|types.IsComplex) != 0:
			return float64(0)
		case u.Kind() == types.UntypedNil:
			return nil
		}
	case *types.Pointer:
		return (*Value)(nil)
	case *types.Struct:
		s := make(Struct, u.NumFields())
		for i := range s {
			s[i] = ex.zero(u.Field(i).Type())
		}
		return s
	case *types.Array:
		n := int(u.Len())
		if n > 1<<16 {
			ex.unsupported(fmt.Sprintf("array too large: %s", t))
		}
		a := make(Array, n)
		if n > 0 {
			z := ex.zero(u.Elem())
			for i := range a {
				a[i] = copyVal(z)
			}
		}
		return a
	case *types.Slice:
		return Slice{n: tc.BV(0, 64)}
	case *types.Map:
		return (*Map)(nil)
	case *types.Interface:
		return Iface{}
	case *types.Signature:
		return (*Closure)(nil)
	case *types.Chan:
		return (*Chan)(nil)
	case *types.Tuple:
		tp := make(Tuple, u.Len())
		for i := range tp {
			tp[i] = ex.zero(u.At(i).Type())
		}
		return tp
	case *types.TypeParam:
		ex.unsupported("zero of type parameter")
	}
	panic(fmt.Sprintf("zero: unhandled type %s (%T)", t, t.Underlying()))
}

// copyVal copies aggregate values (structs and arrays have value semantics).
func copyVal(v Value) Value {
	switch v := v.(type) {
	case Struct:
		n := make(Struct, len(v))
		for i, x := range v {
			n[i] = copyVal(x)
		}
		return n
	case Array:
		n := make(Array, len(v))
		for i, x := range v {
			n[i] = copyVal(x)
		}
		return n
	}
	return v
}

// store writes v into *addr preserving the identity of sub-locations.
func store(addr *Value, v Value) {
	switch v := v.(type) {
	case Struct:
		if lhs, ok := (*addr).(Struct); ok && len(lhs) == len(v) {
			for i := range lhs {
				store(&lhs[i], v[i])
			}
			return
		}
		*addr = copyVal(v)
	case Array:
		if lhs, ok := (*addr).(Array); ok && len(lhs) == len(v) {
			for i := range lhs {
				store(&lhs[i], v[i])
			}
			return
		}
		*addr = copyVal(v)
	default:
		*addr = v
	}
}

func load(addr *Value) Value { return copyVal(*addr) }

// ---------------------------------------------------------------------------
// Map operations live in mapops.go; equality in ops.go

func describe(v Value) string {
	var sb strings.Builder
	seen := map[*Value]bool{}
	var rec func(v Value, d int)
	rec = func(v Value, d int) {
		if d > 5 {
			sb.WriteString("…")
			return
		}
		switch v := v.(type) {
		case nil:
			sb.WriteString("nil")
		case *Term:
			sb.WriteString(v.String())
		case Str:
			sb.WriteString(v.String())
		case float64:
			fmt.Fprintf(&sb, "%g", v)
		case *Value:
			if v == nil {
				sb.WriteString("nilptr")
				return
			}
			if seen[v] {
				sb.WriteString("&<cycle>")
				return
			}
			seen[v] = true
			sb.WriteString("&")
			rec(*v, d+1)
		case Struct:
			sb.WriteString("{")
			for i, x := range v {
				if i > 0 {
					sb.WriteString(", ")
				}
				rec(x, d+1)
			}
			sb.WriteString("}")
		case Array:
			fmt.Fprintf(&sb, "[%d]…", len(v))
		case Slice:
			if v.a == nil {
				sb.WriteString("nilslice")
				return
			}
			fmt.Fprintf(&sb, "slice(len %s)[", v.n)
			if v.n.IsConst() {
				for i := 0; i < int(v.n.val) && i < 8; i++ {
					if i > 0 {
						sb.WriteString(", ")
					}
					rec(v.a[i], d+1)
				}
			}
			sb.WriteString("]")
		case *Map:
			if v == nil {
				sb.WriteString("nilmap")
				return
			}
			sb.WriteString("map[")
			first := true
			for i := range v.keys {
				if !v.live[i] {
					continue
				}
				if !first {
					sb.WriteString(", ")
				}
				first = false
				rec(v.keys[i], d+1)
				sb.WriteString(": ")
				rec(v.vals[i], d+1)
			}
			sb.WriteString("]")
		case Iface:
			if v.t == nil {
				sb.WriteString("nil-iface")
				return
			}
			sb.WriteString("iface(" + v.t.String() + ": ")
			rec(v.v, d+1)
			sb.WriteString(")")
		case *Closure:
			if v == nil {
				sb.WriteString("nilfunc")
			} else if v.fn != nil {
				sb.WriteString("func " + v.fn.String())
			} else {
				sb.WriteString("func <native>")
			}
		case Tuple:
			sb.WriteString("(")
			for i, x := range v {
				if i > 0 {
					sb.WriteString(", ")
				}
				rec(x, d+1)
			}
			sb.WriteString(")")
		default:
			fmt.Fprintf(&sb, "%T", v)
		}
	}
	rec(v, 0)
	return sb.String()
}
