package main

import (
	"encoding/json"
	"flag"
	"fmt"
	"os"
	"path/filepath"
	"runtime"
	"sort"
	"strconv"
	"strings"
	"time"
)

type compiledRegexPlaceholder struct{}

func verifDir() string {
	if d := os.Getenv("VERIF_DIR"); d != "" {
		return d
	}
	// binary lives in /verif/bin
	exe, err := os.Executable()
	if err == nil {
		d := filepath.Dir(filepath.Dir(exe))
		if _, err := os.Stat(filepath.Join(d, "properties.jsonl")); err == nil {
			return d
		}
	}
	return "/verif"
}

func repoDir() string {
	if d := os.Getenv("VERIF_REPO"); d != "" {
		return d
	}
	return "/repo"
}

func main() {
	if len(os.Args) < 2 {
		fmt.Fprintln(os.Stderr, "usage: vsym run|check|replay|selftest ...")
		os.Exit(2)
	}
	switch os.Args[1] {
	case "run":
		cmdRun(os.Args[2:])
	case "check":
		os.Exit(cmdCheck(os.Args[2:]))
	case "replay":
		os.Exit(cmdReplay(os.Args[2:]))
	case "selftest":
		os.Exit(cmdSelftest(os.Args[2:]))
	default:
		fmt.Fprintln(os.Stderr, "unknown command", os.Args[1])
		os.Exit(2)
	}
}

func baseOverlay(vd, rd string) map[string]string {
	ov := map[string]string{}
	ents, _ := os.ReadDir(filepath.Join(vd, "rt"))
	for _, e := range ents {
		if strings.HasSuffix(e.Name(), ".go") {
			ov[filepath.Join(rd, "internal/zzvr", e.Name())] = filepath.Join(vd, "rt", e.Name())
		}
	}
	return ov
}

func cmdRun(args []string) {
	fs := flag.NewFlagSet("run", flag.ExitOnError)
	ovf := fs.String("overlay", "", "comma separated virt=real (virt relative to repo, real relative to verif dir)")
	pkg := fs.String("pkg", "", "package path (relative to module, e.g. verifier)")
	entry := fs.String("entry", "", "entry function")
	workers := fs.Int("workers", runtime.NumCPU(), "workers")
	tier := fs.Int("tier", 0, "tier")
	verbose := fs.Bool("v", false, "verbose")
	debug := fs.Bool("debug", false, "debug (engine panics propagate)")
	smtlog := fs.String("smtlog", "", "write worker 0 SMT to file")
	unwind := fs.Int("unwind", 64, "unwinding bound")
	maxPaths := fs.Int("maxpaths", 0, "stop after n paths")
	params := fs.String("params", "", "k=v,k=v")
	stubs := fs.String("stubs", "", "target=pkg.Func,... (~ = module path)")
	solver := fs.String("solver", "", "z3-new|z3|cvc5")
	fs.Parse(args)
	vd, rd := verifDir(), repoDir()
	ov := baseOverlay(vd, rd)
	for _, kv := range strings.Split(*ovf, ",") {
		if kv == "" {
			continue
		}
		p := strings.SplitN(kv, "=", 2)
		ov[filepath.Join(rd, p[0])] = filepath.Join(vd, p[1])
	}
	pkgPath := repoModule
	if *pkg != "" && *pkg != "." {
		pkgPath += "/" + *pkg
	}
	t0 := time.Now()
	P, err := LoadProgram(rd, ov, []string{pkgPath})
	if err != nil {
		fmt.Fprintln(os.Stderr, "load:", err)
		os.Exit(2)
	}
	fmt.Fprintf(os.Stderr, "loaded in %.1fs\n", time.Since(t0).Seconds())
	P.tier = *tier
	if *solver != "" {
		P.solverKind = *solver
	}
	P.verbose = *verbose
	P.debug = *debug
	P.smtLog = *smtlog
	P.unwind = *unwind
	for _, kv := range strings.Split(*params, ",") {
		if kv == "" {
			continue
		}
		p := strings.SplitN(kv, "=", 2)
		n, _ := strconv.Atoi(p[1])
		P.params[p[0]] = n
	}
	for _, kv := range strings.Split(*stubs, ",") {
		if kv == "" {
			continue
		}
		p := strings.SplitN(kv, "=", 2)
		P.stubs[strings.ReplaceAll(p[0], "~", repoModule)] = strings.ReplaceAll(p[1], "~", repoModule)
	}
	fn := P.findFunc(pkgPath, *entry)
	if fn == nil {
		fmt.Fprintln(os.Stderr, "entry not found:", pkgPath, *entry)
		os.Exit(2)
	}
	e := NewExplorer(P, fn, *entry)
	e.maxPaths = *maxPaths
	t1 := time.Now()
	e.Run(*workers)
	printSummary(e, time.Since(t1))
}

func printSummary(e *Explorer, d time.Duration) {
	fmt.Printf("harness %s: paths=%d forks=%d steps=%d maxdepth=%d wall=%.2fs\n", e.name, e.paths, e.forks, e.steps, e.maxDepthSeen, d.Seconds())
	fmt.Printf("  ends: %v\n", e.ends)
	fmt.Printf("  asserts: %d checked, %d unsat; solver: %d queries (%d sat %d unsat %d unknown %d errors) %.2fs\n", e.assertsTotal, e.assertsUnsat, e.stats.Queries, e.stats.Sat, e.stats.Unsat, e.stats.Unknown, e.stats.Errors, e.stats.Time.Seconds())
	var rl []string
	for l, n := range e.reach {
		rl = append(rl, fmt.Sprintf("%s:%d", l, n))
	}
	sort.Strings(rl)
	fmt.Printf("  reach: %v\n", rl)
	if e.stopped != "" {
		fmt.Printf("  STOPPED: %s\n", e.stopped)
	}
	var ms []string
	for m, n := range e.endMsgs {
		ms = append(ms, fmt.Sprintf("  [%d×] %s", n, m))
	}
	sort.Strings(ms)
	for _, m := range ms {
		fmt.Println(m)
	}
	for _, v := range e.violations {
		b, _ := json.Marshal(v.Draws)
		fmt.Printf("  VIOLATION-CANDIDATE %s [%s] key=%q\n    draws=%s\n", v.Label, v.Kind, v.Key, b)
		if v.Detail != "" {
			fmt.Printf("    detail: %s\n", firstLines(v.Detail, 10))
		}
		for _, n := range v.Notes {
			fmt.Printf("    note: %s\n", n)
		}
	}
}

// cmdReplay re-runs one replay file natively against the real build of the current tree.
// Exit 1 when the recorded violation reproduces, 0 when it does not, 2 on errors.
func cmdReplay(args []string) int {
	if len(args) < 2 {
		fmt.Fprintln(os.Stderr, "usage: vsym replay <ID> <replay.json>")
		return 2
	}
	id, path := args[0], args[1]
	vd, rd := verifDir(), repoDir()
	sb, err := os.ReadFile(filepath.Join(vd, "harness", id, "spec.json"))
	if err != nil {
		fmt.Fprintln(os.Stderr, err)
		return 2
	}
	var spec Spec
	if err := json.Unmarshal(sb, &spec); err != nil {
		fmt.Fprintln(os.Stderr, "spec:", err)
		return 2
	}
	rb, err := os.ReadFile(path)
	if err != nil {
		fmt.Fprintln(os.Stderr, err)
		return 2
	}
	var rf struct {
		Harness string `json:"harness"`
		Label   string `json:"label"`
		Kind    string `json:"kind"`
	}
	if err := json.Unmarshal(rb, &rf); err != nil {
		fmt.Fprintln(os.Stderr, "replay file:", err)
		return 2
	}
	pkg, found, native := "", false, false
	for _, h := range spec.Harnesses {
		if h.Entry == rf.Harness {
			pkg, found, native = h.Pkg, true, h.Native
		}
	}
	if !found {
		fmt.Fprintf(os.Stderr, "harness %s is not part of %s\n", rf.Harness, id)
		return 2
	}
	if !native {
		fmt.Printf("harness %s has no native mode: its counterexamples stand on the solver's verdict through contract stubs.\nrecorded: kind=%s label=%q\nvalues of the symbolic inputs (draw order):\n", rf.Harness, rf.Kind, rf.Label)
		var full struct {
			Draws []struct {
				Tag   string          `json:"tag"`
				Text  string          `json:"text"`
				Value json.RawMessage `json:"value"`
			} `json:"draws"`
		}
		json.Unmarshal(rb, &full)
		for _, d := range full.Draws {
			v := string(d.Value)
			if d.Text != "" {
				v = d.Text
			}
			fmt.Printf("  %s = %s\n", d.Tag, v)
		}
		return 0
	}
	ov := baseOverlay(vd, rd)
	testOv := map[string]string{}
	for virt, real := range spec.Files {
		if strings.HasSuffix(virt, "_test.go") {
			testOv[filepath.Join(rd, virt)] = filepath.Join(vd, real)
			continue
		}
		ov[filepath.Join(rd, virt)] = filepath.Join(vd, real)
	}
	tmp, _ := os.MkdirTemp("", "vsym-replay-")
	defer os.RemoveAll(tmp)
	abs, _ := filepath.Abs(path)
	results, err := runNative(vd, rd, tmp, pkg, ov, testOv, []string{abs})
	if err != nil {
		fmt.Fprintln(os.Stderr, "native replay failed:", firstLines(err.Error(), 30))
		return 2
	}
	r := results[abs]
	fmt.Printf("harness=%s recorded: kind=%s label=%q\nnative: failed=%v panicked=%v %s reached=%v notes=%v diverged=%q skipped=%v\n",
		rf.Harness, rf.Kind, rf.Label, r.Failed, r.Panicked, firstLines(r.PanicVal, 5), r.Reached, r.Notes, r.Diverged, r.Skipped)
	repro := false
	if rf.Kind == "panic" {
		repro = r.Panicked
	} else {
		for _, f := range r.Failed {
			if f == rf.Label {
				repro = true
			}
		}
	}
	if repro {
		fmt.Printf("VIOLATION property=%s replay=%s\n", id, path)
		return 1
	}
	fmt.Println("the recorded violation does not reproduce on this tree")
	return 0
}
