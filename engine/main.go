package main

import (
	"encoding/json"
	"flag"
	"fmt"
	"os"
	"path/filepath"
	"runtime"
	"sort"
	"strconv"
	"strings"
	"time"
)

type compiledRegexPlaceholder struct{}

func verifDir() string {
	if d := os.Getenv("VERIF_DIR"); d != "" {
		return d
	}
	// binary lives in /verif/bin
	exe, err := os.Executable()
	if err == nil {
		d := filepath.Dir(filepath.Dir(exe))
		if _, err := os.Stat(filepath.Join(d, "properties.jsonl")); err == nil {
			return d
		}
	}
	return "/verif"
}

func repoDir() string {
	if d := os.Getenv("VERIF_REPO"); d != "" {
		return d
	}
	return "/repo"
}

func main() {
	if len(os.Args) < 2 {
		fmt.Fprintln(os.Stderr, "usage: vsym run|check|replay|selftest ...")
		os.Exit(2)
	}
	switch os.Args[1] {
	case "run":
		cmdRun(os.Args[2:])
	case "check":
		os.Exit(cmdCheck(os.Args[2:]))
	case "selftest":
		os.Exit(cmdSelftest(os.Args[2:]))
	default:
		fmt.Fprintln(os.Stderr, "unknown command", os.Args[1])
		os.Exit(2)
	}
}

func baseOverlay(vd, rd string) map[string]string {
	ov := map[string]string{}
	ents, _ := os.ReadDir(filepath.Join(vd, "rt"))
	for _, e := range ents {
		if strings.HasSuffix(e.Name(), ".go") {
			ov[filepath.Join(rd, "internal/zzvr", e.Name())] = filepath.Join(vd, "rt", e.Name())
		}
	}
	return ov
}

func cmdRun(args []string) {
	fs := flag.NewFlagSet("run", flag.ExitOnError)
	ovf := fs.String("overlay", "", "comma separated virt=real (virt relative to repo, real relative to verif dir)")
	pkg := fs.String("pkg", "", "package path (relative to module, e.g. verifier)")
	entry := fs.String("entry", "", "entry function")
	workers := fs.Int("workers", runtime.NumCPU(), "workers")
	tier := fs.Int("tier", 0, "tier")
	verbose := fs.Bool("v", false, "verbose")
	debug := fs.Bool("debug", false, "debug (engine panics propagate)")
	smtlog := fs.String("smtlog", "", "write worker 0 SMT to file")
	unwind := fs.Int("unwind", 64, "unwinding bound")
	maxPaths := fs.Int("maxpaths", 0, "stop after n paths")
	params := fs.String("params", "", "k=v,k=v")
	stubs := fs.String("stubs", "", "target=pkg.Func,... (~ = module path)")
	solver := fs.String("solver", "", "z3-new|z3|cvc5")
	fs.Parse(args)
	vd, rd := verifDir(), repoDir()
	ov := baseOverlay(vd, rd)
	for _, kv := range strings.Split(*ovf, ",") {
		if kv == "" {
			continue
		}
		p := strings.SplitN(kv, "=", 2)
		ov[filepath.Join(rd, p[0])] = filepath.Join(vd, p[1])
	}
	pkgPath := repoModule
	if *pkg != "" && *pkg != "." {
		pkgPath += "/" + *pkg
	}
	t0 := time.Now()
	P, err := LoadProgram(rd, ov, []string{pkgPath})
	if err != nil {
		fmt.Fprintln(os.Stderr, "load:", err)
		os.Exit(2)
	}
	fmt.Fprintf(os.Stderr, "loaded in %.1fs\n", time.Since(t0).Seconds())
	P.tier = *tier
	if *solver != "" {
		P.solverKind = *solver
	}
	P.verbose = *verbose
	P.debug = *debug
	P.smtLog = *smtlog
	P.unwind = *unwind
	for _, kv := range strings.Split(*params, ",") {
		if kv == "" {
			continue
		}
		p := strings.SplitN(kv, "=", 2)
		n, _ := strconv.Atoi(p[1])
		P.params[p[0]] = n
	}
	for _, kv := range strings.Split(*stubs, ",") {
		if kv == "" {
			continue
		}
		p := strings.SplitN(kv, "=", 2)
		P.stubs[strings.ReplaceAll(p[0], "~", repoModule)] = strings.ReplaceAll(p[1], "~", repoModule)
	}
	fn := P.findFunc(pkgPath, *entry)
	if fn == nil {
		fmt.Fprintln(os.Stderr, "entry not found:", pkgPath, *entry)
		os.Exit(2)
	}
	e := NewExplorer(P, fn, *entry)
	e.maxPaths = *maxPaths
	t1 := time.Now()
	e.Run(*workers)
	printSummary(e, time.Since(t1))
}

func printSummary(e *Explorer, d time.Duration) {
	fmt.Printf("harness %s: paths=%d forks=%d steps=%d maxdepth=%d wall=%.2fs\n", e.name, e.paths, e.forks, e.steps, e.maxDepthSeen, d.Seconds())
	fmt.Printf("  ends: %v\n", e.ends)
	fmt.Printf("  asserts: %d checked, %d unsat; solver: %d queries (%d sat %d unsat %d unknown %d errors) %.2fs\n", e.assertsTotal, e.assertsUnsat, e.stats.Queries, e.stats.Sat, e.stats.Unsat, e.stats.Unknown, e.stats.Errors, e.stats.Time.Seconds())
	var rl []string
	for l, n := range e.reach {
		rl = append(rl, fmt.Sprintf("%s:%d", l, n))
	}
	sort.Strings(rl)
	fmt.Printf("  reach: %v\n", rl)
	if e.stopped != "" {
		fmt.Printf("  STOPPED: %s\n", e.stopped)
	}
	var ms []string
	for m, n := range e.endMsgs {
		ms = append(ms, fmt.Sprintf("  [%d×] %s", n, m))
	}
	sort.Strings(ms)
	for _, m := range ms {
		fmt.Println(m)
	}
	for _, v := range e.violations {
		b, _ := json.Marshal(v.Draws)
		fmt.Printf("  VIOLATION-CANDIDATE %s [%s] key=%q\n    draws=%s\n", v.Label, v.Kind, v.Key, b)
		if v.Detail != "" {
			fmt.Printf("    detail: %s\n", firstLines(v.Detail, 10))
		}
		for _, n := range v.Notes {
			fmt.Printf("    note: %s\n", n)
		}
	}
}
