package main

// Path exploration by re-execution: a path is identified by its sequence of decisions.

import (
	"fmt"
	"go/types"
	"os"
	"sort"
	"strings"
	"sync"
	"time"

	"golang.org/x/tools/go/ssa"
)

type decision struct {
	choice  int
	payload uint64
	hasPay  bool
}

type Draw struct {
	Tag  string  `json:"tag"`
	Kind string  `json:"kind"` // bool,int,str,bytes,choice
	Vars []*Term `json:"-"`
	// for choice draws the concrete value
	Val   any `json:"value"`
	Cap   int `json:"cap,omitempty"`
	Width int `json:"-"`
}

type LogEvent struct {
	Kind string
	Args []Value
}

type Violation struct {
	Harness  string           `json:"harness"`
	Label    string           `json:"label"`
	Kind     string           `json:"kind"` // assert | panic
	Draws    []map[string]any `json:"draws"`
	Decision []int            `json:"decisions"`
	Detail   string           `json:"detail,omitempty"`
	Notes    []string         `json:"notes,omitempty"`
	Key      string           `json:"finding_key,omitempty"`

	native      bool
	nativeState string
	nativeInfo  string
	replayPath  string
}

type PathResult struct {
	End       string
	Msg       string
	Steps     int
	Decisions int
}

type Exec struct {
	jsonUseNumber bool // a json.Decoder with UseNumber is decoding
	w       *Worker
	tc      *TermCtx
	sol     *Solver
	prefix  []decision
	common  int // number of leading decisions already on the solver stack
	trace   []decision
	pc      []*Term
	globals map[*ssa.Global]*Value
	inited  map[*ssa.Package]bool
	draws   []Draw
	drawSeq map[string]int
	glog    []LogEvent
	notes   []string
	reached map[string]bool
	steps   int
	depth   int
	cur     *frame
	ghost   map[string]Value
	initing int

	findKey string
	absSeq  int
	// per-path expectation flags
	expectPanic bool
}

type Worker struct {
	id             int
	P              *Program
	exp            *Explorer
	tc             *TermCtx
	sol            *Solver
	stack          []decision // decisions on the solver stack (above base level 1)
	fresh          bool
	implCache      map[[2]any]bool
	intrCache      map[*ssa.Function]intrinsicFn
	stubCache      map[*ssa.Function]*ssa.Function
	denyCache      map[*ssa.Function]bool
	sharedGlob     map[*ssa.Global]*Value
	sharedInited   map[*ssa.Package]bool
	regexCache     map[string]*compiledRegex
	jsonFieldCache map[*types.Struct][]jsonField
	funcsSeen      map[*ssa.Function]int
}

type Explorer struct {
	P        *Program
	entry    *ssa.Function
	name     string
	mu       sync.Mutex
	cond     *sync.Cond
	pending  [][]decision
	active   int
	done     bool
	maxPaths int

	// results
	paths        int
	ends         map[string]int
	endMsgs      map[string]int
	violations   []*Violation
	violSeen     map[string]bool
	steps        int64
	forks        int
	reach        map[string]int
	samples      []map[string]any
	funcs        map[string]int
	stats        SolverStats
	assertsTotal int
	assertsUnsat int
	unknownFeas  int
	maxDepthSeen int
	stopped      string
	deadline     time.Time
	witnesses    []witnessCand // candidate pool, sorted by key (see runPath)
	wantWitness  int
	witnessSeen  int
}

// witnessPoolFactor: candidates kept per witness wanted (natively skipped candidates do not count).
const witnessPoolFactor = 4

type witnessCand struct {
	key uint64
	rec map[string]any
}

// witnessKey hashes a decision trace (FNV-1a, then a finaliser) together with the run's seed.
func witnessKey(seed int64, trace []decision) uint64 {
	h := uint64(14695981039346656037)
	mix := func(v uint64) {
		for i := 0; i < 8; i++ {
			h ^= v & 0xff
			h *= 1099511628211
			v >>= 8
		}
	}
	mix(uint64(seed))
	for _, d := range trace {
		mix(uint64(d.choice))
		if d.hasPay {
			mix(d.payload)
		}
	}
	h ^= h >> 33
	h *= 0xff51afd7ed558ccd
	h ^= h >> 33
	h *= 0xc4ceb9fe1a85ec53
	h ^= h >> 33
	return h
}

func NewExplorer(P *Program, entry *ssa.Function, name string) *Explorer {
	e := &Explorer{P: P, entry: entry, name: name, ends: map[string]int{}, endMsgs: map[string]int{}, violSeen: map[string]bool{}, reach: map[string]int{}, funcs: map[string]int{}}
	e.cond = sync.NewCond(&e.mu)
	e.pending = [][]decision{nil}
	return e
}

func (e *Explorer) take() ([]decision, bool) {
	e.mu.Lock()
	defer e.mu.Unlock()
	for {
		if e.stopped != "" {
			return nil, false
		}
		if len(e.pending) > 0 {
			p := e.pending[len(e.pending)-1]
			e.pending = e.pending[:len(e.pending)-1]
			e.active++
			return p, true
		}
		if e.active == 0 {
			e.cond.Broadcast()
			return nil, false
		}
		e.cond.Wait()
	}
}

func (e *Explorer) finish() {
	e.mu.Lock()
	e.active--
	if e.active == 0 && len(e.pending) == 0 {
		e.cond.Broadcast()
	}
	e.mu.Unlock()
}

func (e *Explorer) addPending(p []decision) {
	e.mu.Lock()
	e.pending = append(e.pending, p)
	e.forks++
	e.cond.Signal()
	e.mu.Unlock()
}

func (e *Explorer) Run(workers int) {
	var wg sync.WaitGroup
	for i := 0; i < workers; i++ {
		wg.Add(1)
		go func(id int) {
			defer wg.Done()
			w := e.newWorker(id)
			defer func() { w.sol.Close() }()
			for {
				p, ok := e.take()
				if !ok {
					break
				}
				w.runPath(p)
				e.finish()
			}
			e.mu.Lock()
			st := w.sol.stats
			e.stats.Sat += st.Sat
			e.stats.Unsat += st.Unsat
			e.stats.Unknown += st.Unknown
			e.stats.Errors += st.Errors
			e.stats.Queries += st.Queries
			e.stats.Time += st.Time
			for f, n := range w.funcsSeen {
				e.funcs[f.String()] += n
			}
			e.mu.Unlock()
		}(i)
	}
	wg.Wait()
}

func (e *Explorer) newWorker(id int) *Worker {
	sol, err := NewSolver(e.P.solverKind, e.P.solverTimeoutMs)
	if err != nil {
		fmt.Fprintf(os.Stderr, "cannot start solver: %v\n", err)
		os.Exit(2)
	}
	if e.P.smtLog != "" && id == 0 {
		f, _ := os.Create(e.P.smtLog)
		sol.log = f
	}
	w := &Worker{id: id, P: e.P, exp: e, tc: NewTermCtx(), sol: sol, fresh: true,
		implCache: map[[2]any]bool{}, intrCache: map[*ssa.Function]intrinsicFn{}, stubCache: map[*ssa.Function]*ssa.Function{},
		denyCache: map[*ssa.Function]bool{}, sharedGlob: map[*ssa.Global]*Value{}, sharedInited: map[*ssa.Package]bool{},
		regexCache: map[string]*compiledRegex{}, jsonFieldCache: map[*types.Struct][]jsonField{}, funcsSeen: map[*ssa.Function]int{}}
	sol.Push() // base level 1
	return w
}

func (ex *Exec) noteFunc(fn *ssa.Function) { ex.w.funcsSeen[fn]++ }

func (w *Worker) runPath(prefix []decision) {
	e := w.exp
	// align solver stack with prefix
	common := 0
	if w.fresh {
		common = -1
	} else {
		for common < len(w.stack) && common < len(prefix) && w.stack[common] == prefix[common] {
			common++
		}
		// a prefix that is entirely on the stack would mean re-running an already explored path
		w.sol.PopTo(1 + common)
		w.stack = w.stack[:common]
	}
	w.fresh = false
	ex := &Exec{w: w, tc: w.tc, sol: w.sol, prefix: prefix, common: common, globals: map[*ssa.Global]*Value{}, inited: map[*ssa.Package]bool{},
		drawSeq: map[string]int{}, reached: map[string]bool{}, ghost: map[string]Value{}}
	res := PathResult{}
	func() {
		defer func() {
			r := recover()
			switch r := r.(type) {
			case nil:
				res.End = "complete"
			case pathEnd:
				switch r.kind {
				case endInfeasible:
					res.End = "infeasible"
				case endUnsupported:
					res.End = "unsupported"
				case endUnwind:
					res.End = "unwind"
				case endBudget:
					res.End = "budget"
				case endStop:
					res.End = "complete"
				}
				res.Msg = r.msg
			case solverDead:
				res.End = "solver-timeout"
				res.Msg = r.msg
				// restart the solver; the worker starts from a clean stack
				old := w.sol
				e.mu.Lock()
				e.stats.Sat += old.stats.Sat
				e.stats.Unsat += old.stats.Unsat
				e.stats.Unknown += old.stats.Unknown
				e.stats.Errors += old.stats.Errors
				e.stats.Queries += old.stats.Queries
				e.stats.Time += old.stats.Time
				e.mu.Unlock()
				old.Close()
				ns, err := NewSolver(e.P.solverKind, e.P.solverTimeoutMs)
				if err != nil {
					panic(err)
				}
				ns.Push()
				w.sol = ns
				w.stack = nil
				w.fresh = true
			case *goPanic:
				res.End = "panic"
				res.Msg = ex.panicMessage(r)
				if ex.expectPanic {
					res.End = "complete"
				} else {
					ex.reportPanic(r)
				}
			default:
				// engine bug: report with context and treat as unsupported
				res.End = "engine-error"
				res.Msg = fmt.Sprintf("%v%s", r, ex.where())
				if e.P.debug {
					panic(r)
				}
			}
		}()
		var args []Value
		ex.callFunction(e.entry, args, nil, nil)
	}()
	res.Steps = ex.steps
	res.Decisions = len(ex.trace)
	if res.End == "complete" && e.wantWitness > 0 {
		// Witness candidates are the complete paths with the smallest hash of (seed, decision trace): the choice
		// does not depend on the order in which workers finish paths or in which alternatives are taken, and it
		// is spread over the whole path tree. The pool is larger than the number of witnesses wanted because a
		// harness may declare a drawn case not realisable natively (vr.SkipNative): the native side replays the
		// candidates in hash order until wantWitness of them ran (rt/replay.go), so that cases skipped natively
		// do not use up the quota.
		key := witnessKey(e.P.seed, ex.trace)
		pool := e.wantWitness * witnessPoolFactor
		e.mu.Lock()
		e.witnessSeen++
		take := len(e.witnesses) < pool || key < e.witnesses[len(e.witnesses)-1].key
		e.mu.Unlock()
		if take {
			if m, ok := ex.currentModel(); ok {
				var reached []string
				for l := range ex.reached {
					reached = append(reached, l)
				}
				sort.Strings(reached)
				wrec := map[string]any{"draws": ex.modelDraws(m), "reached": reached, "notes": append([]string(nil), ex.notes...)}
				e.mu.Lock()
				i := sort.Search(len(e.witnesses), func(i int) bool { return e.witnesses[i].key >= key })
				e.witnesses = append(e.witnesses, witnessCand{})
				copy(e.witnesses[i+1:], e.witnesses[i:])
				e.witnesses[i] = witnessCand{key: key, rec: wrec}
				if len(e.witnesses) > pool {
					e.witnesses = e.witnesses[:pool]
				}
				e.mu.Unlock()
			}
		}
	}
	e.mu.Lock()
	e.paths++
	e.ends[res.End]++
	if res.Msg != "" && res.End != "complete" && res.End != "infeasible" {
		m := res.End + ": " + firstLines(res.Msg, 6)
		e.endMsgs[m]++
	}
	e.steps += int64(ex.steps)
	if len(ex.trace) > e.maxDepthSeen {
		e.maxDepthSeen = len(ex.trace)
	}
	if res.End == "complete" {
		for l := range ex.reached {
			e.reach[l]++
		}
		if len(e.samples) < e.P.maxSamples {
			e.samples = append(e.samples, ex.sample(res))
		}
	}
	if e.maxPaths > 0 && e.paths >= e.maxPaths && e.stopped == "" {
		e.stopped = fmt.Sprintf("path limit %d reached", e.maxPaths)
		e.cond.Broadcast()
	}
	if !e.deadline.IsZero() && time.Now().After(e.deadline) && e.stopped == "" {
		e.stopped = "time limit reached"
		e.cond.Broadcast()
	}
	e.mu.Unlock()
	if e.P.verbose {
		fmt.Fprintf(os.Stderr, "[w%d] path %v -> %s %s (steps %d)\n", w.id, choices(ex.trace), res.End, firstLines(res.Msg, 12), ex.steps)
		for _, n := range ex.notes {
			fmt.Fprintf(os.Stderr, "      note: %s\n", n)
		}
	}
}

func firstLines(s string, n int) string {
	lines := strings.Split(s, "\n")
	if len(lines) > n {
		lines = lines[:n]
	}
	return strings.Join(lines, "\n")
}

func choices(ds []decision) []int {
	r := make([]int, len(ds))
	for i, d := range ds {
		r[i] = d.choice
	}
	return r
}

// sendOK reports whether assertions made now must be sent to the solver (they are not yet on its stack).
func (ex *Exec) sendOK() bool { return len(ex.trace) > ex.common }

func (ex *Exec) assume(c *Term) {
	if c.IsTrue() {
		return
	}
	if c.IsFalse() {
		panic(pathEnd{endInfeasible, "assumption false"})
	}
	ex.pc = append(ex.pc, c)
	if ex.sendOK() {
		ex.sol.Assert(c)
	}
}

// decide chooses among mutually exclusive alternatives. Returns the index chosen on this path.
func (ex *Exec) decide(conds []*Term, why string) int {
	return ex.decideP(conds, nil, why)
}

func (ex *Exec) decideP(conds []*Term, payloads []uint64, why string) int {
	if ex.initing > 0 {
		panic(fmt.Sprintf("symbolic decision during package initialisation (%s)%s", why, ex.where()))
	}
	k := len(ex.trace)
	w := ex.w
	if k < len(ex.prefix) {
		d := ex.prefix[k]
		if d.choice >= len(conds) {
			panic(fmt.Sprintf("replay divergence: decision %d has %d alternatives, prefix wants %d (%s)%s", k, len(conds), d.choice, why, ex.where()))
		}
		ex.trace = append(ex.trace, d)
		ex.pc = append(ex.pc, conds[d.choice])
		if k >= ex.common {
			ex.sol.Push()
			ex.sol.Assert(conds[d.choice])
			w.stack = append(w.stack, d)
		}
		return d.choice
	}
	// new decision: feasibility of each alternative
	if len(conds) > 64 && w.P.verbose {
		fmt.Fprintf(os.Stderr, "wide decision (%d alternatives) %s%s\n", len(conds), why, ex.where())
	}
	var feas []int
	for i, c := range conds {
		if c.IsFalse() {
			continue
		}
		if c.IsTrue() {
			feas = append(feas, i)
			continue
		}
		switch ex.sol.CheckWith(c) {
		case Sat:
			feas = append(feas, i)
		case Unknown:
			feas = append(feas, i)
			w.exp.mu.Lock()
			w.exp.unknownFeas++
			w.exp.mu.Unlock()
		}
	}
	if len(feas) == 0 {
		panic(pathEnd{endInfeasible, "no feasible alternative at " + why})
	}
	// optional shuffle by seed: rotate the order in which alternatives are taken
	if w.P.seed != 0 && len(feas) > 1 {
		r := int((uint64(w.P.seed)*2654435761 + uint64(k)*40503) % uint64(len(feas)))
		feas = append(feas[r:], feas[:r]...)
	}
	mk := func(i int) decision {
		d := decision{choice: i}
		if payloads != nil {
			d.payload = payloads[i]
			d.hasPay = true
		}
		return d
	}
	for _, i := range feas[1:] {
		np := make([]decision, k+1)
		copy(np, ex.trace)
		np[k] = mk(i)
		w.exp.addPending(np)
	}
	d := mk(feas[0])
	ex.trace = append(ex.trace, d)
	ex.pc = append(ex.pc, conds[d.choice])
	ex.sol.Push()
	ex.sol.Assert(conds[d.choice])
	w.stack = append(w.stack, d)
	return d.choice
}

// concretizeAny picks a feasible value v of t and forks on t == v / t != v. The value is recorded
// in the decision so that re-execution is deterministic.
func (ex *Exec) concretizeAny(t *Term, why string) uint64 {
	tc := ex.tc
	for {
		k := len(ex.trace)
		var v uint64
		if k < len(ex.prefix) && ex.prefix[k].hasPay {
			v = ex.prefix[k].payload
		} else {
			// ask the solver for a value
			probe := tc.Var(fmt.Sprintf("probe#%d", k), t.sort)
			ex.sol.Push()
			ex.sol.Assert(tc.Eq(probe, t))
			r := ex.sol.Check()
			if r != Sat {
				ex.sol.Pop()
				if r == Unsat {
					panic(pathEnd{endInfeasible, "path infeasible at concretisation"})
				}
				ex.unsupported("solver unknown at concretisation " + why)
			}
			m := ex.sol.Model([]*Term{probe})
			ex.sol.Pop()
			v = m[probe.name]
		}
		eq := tc.Eq(t, tc.BV(v, t.sort))
		if ex.decideP([]*Term{eq, tc.Not(eq)}, []uint64{v, v}, "concretize-"+why) == 0 {
			return v
		}
	}
}

// ---------------------------------------------------------------------------
// assertions and reporting

func (ex *Exec) modelDraws(m map[string]uint64) []map[string]any {
	var out []map[string]any
	for _, d := range ex.draws {
		rec := map[string]any{"tag": d.Tag, "kind": d.Kind}
		switch d.Kind {
		case "bool":
			rec["value"] = m[d.Vars[0].name] == 1
		case "int":
			rec["value"] = sext(m[d.Vars[0].name], Sort(d.Width))
		case "uint":
			rec["value"] = m[d.Vars[0].name]
		case "str", "bytes":
			n := int(m[d.Vars[0].name])
			if n > d.Cap {
				n = d.Cap
			}
			bs := make([]int, n)
			pr := make([]byte, n)
			for i := 0; i < n; i++ {
				bs[i] = int(m[d.Vars[1+i].name] & 0xff)
				pr[i] = byte(bs[i])
			}
			rec["value"] = bs
			rec["text"] = fmt.Sprintf("%q", string(pr))
			rec["cap"] = d.Cap
		case "opaque":
			rec["value"] = []int64{int64(m[d.Vars[0].name]), int64(m[d.Vars[1].name])}
		case "choice":
			rec["value"] = d.Val
		}
		out = append(out, rec)
	}
	return out
}

func (ex *Exec) allDrawVars() []*Term {
	var vs []*Term
	for _, d := range ex.draws {
		vs = append(vs, d.Vars...)
	}
	return vs
}

func (ex *Exec) checkAssert(c *Term, label string) {
	e := ex.w.exp
	if len(ex.trace) < len(ex.prefix) {
		// replay region: this assertion was already decided by the path that spawned this prefix
		ex.assume(c)
		return
	}
	e.mu.Lock()
	e.assertsTotal++
	e.mu.Unlock()
	if c.IsTrue() {
		e.mu.Lock()
		e.assertsUnsat++
		e.mu.Unlock()
		return
	}
	neg := ex.tc.Not(c)
	ex.sol.Push()
	ex.sol.Assert(neg)
	r := ex.sol.Check()
	switch r {
	case Unsat:
		ex.sol.Pop()
		e.mu.Lock()
		e.assertsUnsat++
		e.mu.Unlock()
	case Sat:
		m := ex.sol.Model(ex.allDrawVars())
		ex.sol.Pop()
		ex.reportViolation("assert", label, m, "")
	default:
		ex.sol.Pop()
		e.mu.Lock()
		e.ends["assert-unknown"]++
		e.endMsgs["assert-unknown: "+label]++
		e.mu.Unlock()
	}
	// continue under the assumption that the assertion holds
	ex.assume(c)
}

func (ex *Exec) currentModel() (map[string]uint64, bool) {
	r := ex.sol.Check()
	if r != Sat {
		return nil, false
	}
	return ex.sol.Model(ex.allDrawVars()), true
}

func (ex *Exec) panicMessage(p *goPanic) string {
	msg := describe(p.val)
	if iv, ok := p.val.(Iface); ok && iv.t != nil {
		if s, ok := iv.v.(Str); ok {
			if cs, ok := ex.strConcrete(s); ok {
				msg = cs
			}
		}
	}
	return msg + p.site
}

func (ex *Exec) reportPanic(p *goPanic) {
	m, ok := ex.currentModel()
	if !ok {
		return // infeasible or unknown path
	}
	msg := ex.panicMessage(p)
	label := "no-panic: " + firstLines(msg, 3)
	ex.reportViolation("panic", label, m, msg)
}

func (ex *Exec) reportViolation(kind, label string, m map[string]uint64, detail string) {
	e := ex.w.exp
	v := &Violation{Harness: e.name, Label: label, Kind: kind, Draws: ex.modelDraws(m), Decision: choices(ex.trace), Detail: detail, Notes: append([]string(nil), ex.notes...), Key: ex.findKey}
	key := kind + "|" + label + "|" + ex.findKey
	e.mu.Lock()
	defer e.mu.Unlock()
	if e.violSeen[key] {
		return
	}
	e.violSeen[key] = true
	e.violations = append(e.violations, v)
}

func (ex *Exec) sample(res PathResult) map[string]any {
	s := map[string]any{"decisions": choices(ex.trace), "steps": res.Steps, "end": res.End}
	var pcs []string
	for i, c := range ex.pc {
		if i >= 12 {
			pcs = append(pcs, "…")
			break
		}
		str := c.String()
		if len(str) > 160 {
			str = str[:160] + "…"
		}
		pcs = append(pcs, str)
	}
	s["path_condition"] = pcs
	var reached []string
	for l := range ex.reached {
		reached = append(reached, l)
	}
	sort.Strings(reached)
	s["reached"] = reached
	if len(ex.notes) > 0 {
		s["notes"] = ex.notes
	}
	var dr []string
	for _, d := range ex.draws {
		if d.Kind == "choice" {
			dr = append(dr, fmt.Sprintf("%s=%v", d.Tag, d.Val))
		} else {
			dr = append(dr, d.Tag+":"+d.Kind)
		}
	}
	s["draws"] = dr
	return s
}
