package main

// Bounded symbolic strings: concrete capacity, symbolic length and bytes.

func (ex *Exec) opaqueStr(note string) Str {
	return Str{sym: &SymStr{opaque: true, note: note, n: ex.tc.BV(0, 64)}}
}

func (ex *Exec) checkOpaque(s Str, what string) {
	if s.sym != nil && s.sym.opaque {
		ex.unsupported("opaque string (" + s.sym.note + ") inspected by " + what)
	}
}

// symParts returns length term and byte terms (cap = len(bytes)).
func (ex *Exec) symParts(s Str) (*Term, []*Term) {
	if s.sym != nil {
		return s.sym.n, s.sym.b
	}
	b := make([]*Term, len(s.s))
	for i := 0; i < len(s.s); i++ {
		b[i] = ex.tc.BV(uint64(s.s[i]), 8)
	}
	return ex.tc.BV(uint64(len(s.s)), 64), b
}

// normStr returns a concrete Str when the symbolic parts are all constant.
func (ex *Exec) normStr(n *Term, b []*Term, abs any) Str {
	if n.IsConst() && abs == nil {
		ln := int(n.val)
		allc := true
		for i := 0; i < ln; i++ {
			if !b[i].IsConst() {
				allc = false
				break
			}
		}
		if allc {
			bs := make([]byte, ln)
			for i := range bs {
				bs[i] = byte(b[i].val)
			}
			return Str{s: string(bs)}
		}
		b = b[:ln]
	}
	return Str{sym: &SymStr{n: n, b: b, abs: abs}}
}

func (ex *Exec) strConcrete(s Str) (string, bool) {
	if s.sym == nil {
		return s.s, true
	}
	if s.sym.opaque {
		return "", false
	}
	if !s.sym.n.IsConst() {
		return "", false
	}
	ln := int(s.sym.n.val)
	bs := make([]byte, ln)
	for i := 0; i < ln; i++ {
		if !s.sym.b[i].IsConst() {
			return "", false
		}
		bs[i] = byte(s.sym.b[i].val)
	}
	return string(bs), true
}

func (ex *Exec) strLen(s Str) *Term {
	if s.sym == nil {
		return ex.tc.BV(uint64(len(s.s)), 64)
	}
	ex.checkOpaque(s, "len")
	return s.sym.n
}

func (ex *Exec) strCap(s Str) int {
	if s.sym == nil {
		return len(s.s)
	}
	return len(s.sym.b)
}

// strByte returns the byte at concrete position i (i < cap required).
func (ex *Exec) strByte(s Str, i int) *Term {
	if s.sym == nil {
		return ex.tc.BV(uint64(s.s[i]), 8)
	}
	ex.checkOpaque(s, "index")
	return s.sym.b[i]
}

func (ex *Exec) strIndex(s Str, idx *Term) *Term {
	tc := ex.tc
	ex.checkOpaque(s, "index")
	n := ex.strLen(s)
	ex.boundsCheck(idx, n, "string")
	c := ex.strCap(s)
	if idx.IsConst() {
		return ex.strByte(s, int(idx.val))
	}
	if c == 0 {
		panic(pathEnd{endInfeasible, "index into empty string"})
	}
	r := ex.strByte(s, c-1)
	for i := c - 2; i >= 0; i-- {
		r = tc.Ite(tc.Eq(idx, tc.BV(uint64(i), 64)), ex.strByte(s, i), r)
	}
	return r
}

func (ex *Exec) strEq(a, b Str) *Term {
	tc := ex.tc
	if a.sym == nil && b.sym == nil {
		return tc.Bool(a.s == b.s)
	}
	if a.sym != nil && a.sym == b.sym {
		return tc.True // identical object (also for opaque strings)
	}
	ex.checkOpaque(a, "==")
	ex.checkOpaque(b, "==")
	if a.sym == nil {
		a, b = b, a
	}
	// a symbolic
	if b.sym == nil {
		if len(b.s) > len(a.sym.b) {
			return tc.False
		}
		r := tc.Eq(a.sym.n, tc.BV(uint64(len(b.s)), 64))
		for i := 0; i < len(b.s) && !r.IsFalse(); i++ {
			r = tc.And(r, tc.Eq(a.sym.b[i], tc.BV(uint64(b.s[i]), 8)))
		}
		return r
	}
	if a.sym == b.sym {
		return tc.True
	}
	r := tc.Eq(a.sym.n, b.sym.n)
	m := len(a.sym.b)
	if len(b.sym.b) < m {
		m = len(b.sym.b)
		// lengths beyond the smaller capacity are impossible for b
		r = tc.And(r, tc.Ule(a.sym.n, tc.BV(uint64(m), 64)))
	} else if len(b.sym.b) > m {
		r = tc.And(r, tc.Ule(b.sym.n, tc.BV(uint64(m), 64)))
	}
	for i := 0; i < m && !r.IsFalse(); i++ {
		in := tc.Ult(tc.BV(uint64(i), 64), a.sym.n)
		r = tc.And(r, tc.Implies(in, tc.Eq(a.sym.b[i], b.sym.b[i])))
	}
	return r
}

func (ex *Exec) strLess(a, b Str, orEq bool) *Term {
	tc := ex.tc
	if a.sym == nil && b.sym == nil {
		if orEq {
			return tc.Bool(a.s <= b.s)
		}
		return tc.Bool(a.s < b.s)
	}
	ex.checkOpaque(a, "<")
	ex.checkOpaque(b, "<")
	na, ba := ex.symParts(a)
	nb, bb := ex.symParts(b)
	var lenCmp *Term
	if orEq {
		lenCmp = tc.Ule(na, nb)
	} else {
		lenCmp = tc.Ult(na, nb)
	}
	m := len(ba)
	if len(bb) < m {
		m = len(bb)
	}
	res := lenCmp
	for i := m - 1; i >= 0; i-- {
		k := tc.BV(uint64(i), 64)
		end := tc.Or(tc.Ule(na, k), tc.Ule(nb, k))
		res = tc.Ite(end, lenCmp, tc.Ite(tc.Ult(ba[i], bb[i]), tc.True, tc.Ite(tc.Ult(bb[i], ba[i]), tc.False, res)))
	}
	return res
}

func (ex *Exec) strConcat(a, b Str) Str {
	tc := ex.tc
	if a.sym == nil && b.sym == nil {
		return Str{s: a.s + b.s}
	}
	if (a.sym != nil && a.sym.opaque) || (b.sym != nil && b.sym.opaque) {
		return ex.opaqueStr("concat")
	}
	if a.sym == nil && a.s == "" {
		return b
	}
	if b.sym == nil && b.s == "" {
		return a
	}
	na, ba := ex.symParts(a)
	nb, bb := ex.symParts(b)
	n := tc.Add(na, nb)
	if na.IsConst() {
		la := int(na.val)
		out := make([]*Term, 0, la+len(bb))
		out = append(out, ba[:la]...)
		out = append(out, bb...)
		return ex.normStr(n, out, nil)
	}
	ca, cb := len(ba), len(bb)
	out := make([]*Term, ca+cb)
	zero := tc.BV(0, 8)
	for k := 0; k < ca+cb; k++ {
		// value if k >= na: b[k-na]
		sel := zero
		for v := 0; v <= ca && v <= k; v++ {
			j := k - v
			if j >= cb {
				continue
			}
			sel = tc.Ite(tc.Eq(na, tc.BV(uint64(v), 64)), bb[j], sel)
		}
		if k < ca {
			out[k] = tc.Ite(tc.Ult(tc.BV(uint64(k), 64), na), ba[k], sel)
		} else {
			out[k] = sel
		}
	}
	return ex.normStr(n, out, nil)
}

func (ex *Exec) strSlice(s Str, lo, hi *Term) Str {
	tc := ex.tc
	ex.checkOpaque(s, "slice")
	if lo == nil {
		lo = tc.BV(0, 64)
	}
	n := ex.strLen(s)
	if hi == nil {
		hi = n
	}
	if s.sym == nil && lo.IsConst() && hi.IsConst() {
		l, h := int(lo.Int64()), int(hi.Int64())
		if l < 0 || h < l || h > len(s.s) {
			ex.goPanicStr("runtime error: slice bounds out of range (string)")
		}
		return Str{s: s.s[l:h]}
	}
	okc := tc.And(tc.Ule(lo, hi), tc.Ule(hi, n))
	if okc.IsFalse() {
		ex.goPanicStr("runtime error: slice bounds out of range (string)")
	}
	if !okc.IsConst() {
		if ex.decide([]*Term{okc, tc.Not(okc)}, "strslice-bounds") == 1 {
			ex.goPanicStr("runtime error: slice bounds out of range (string)")
		}
	}
	_, b := ex.symParts(s)
	if !lo.IsConst() && len(b) <= 24 {
		// symbolic offset: merged shift (no fork). r[k] = b[lo+k]
		c := len(b)
		out := make([]*Term, c)
		zero := tc.BV(0, 8)
		for k := 0; k < c; k++ {
			r := zero
			for v := c - 1 - k; v >= 0; v-- {
				r = tc.Ite(tc.Eq(lo, tc.BV(uint64(v), 64)), b[v+k], r)
			}
			out[k] = r
		}
		return ex.normStr(tc.Sub(hi, lo), out, nil)
	}
	l := ex.concretizeRange(lo, 0, len(b), "strslice-lo")
	var abs any
	if s.sym != nil && l == 0 && hi == n {
		abs = s.sym.abs
	}
	return ex.normStr(tc.Sub(hi, tc.BV(uint64(l), 64)), b[l:], abs)
}

func (ex *Exec) strToByteSlice(s Str) Slice {
	tc := ex.tc
	ex.checkOpaque(s, "[]byte()")
	n, b := ex.symParts(s)
	a := make([]Value, len(b))
	for i := range b {
		a[i] = b[i]
	}
	var abs any
	if s.sym != nil {
		abs = s.sym.abs
	}
	_ = tc
	return Slice{a: a, n: n, abs: abs}
}

func (ex *Exec) byteSliceToStr(sl Slice) Str {
	tc := ex.tc
	b := make([]*Term, len(sl.a))
	for i := range b {
		if t, ok := sl.a[i].(*Term); ok {
			b[i] = t
		} else {
			b[i] = tc.BV(0, 8)
		}
	}
	if sl.a == nil {
		return Str{}
	}
	return ex.normStr(sl.n, b, sl.abs)
}

// --- search primitives used by the strings/bytes intrinsics -----------------

// matchAt: does sep occur in s at concrete position p?
func (ex *Exec) matchAt(ns *Term, bs []*Term, nsep *Term, bsep []*Term, p int) *Term {
	tc := ex.tc
	// p + nsep <= ns
	r := tc.Ule(tc.Add(tc.BV(uint64(p), 64), nsep), ns)
	for j := 0; j < len(bsep) && !r.IsFalse(); j++ {
		in := tc.Ult(tc.BV(uint64(j), 64), nsep)
		if in.IsFalse() {
			break
		}
		if p+j >= len(bs) {
			// sep longer than what fits: only possible if j >= nsep
			r = tc.And(r, tc.Not(in))
			break
		}
		r = tc.And(r, tc.Implies(in, tc.Eq(bs[p+j], bsep[j])))
	}
	return r
}

func (ex *Exec) strIndexOf(s, sep Str, last bool) *Term {
	tc := ex.tc
	ex.checkOpaque(s, "Index")
	ex.checkOpaque(sep, "Index")
	ns, bs := ex.symParts(s)
	nsep, bsep := ex.symParts(sep)
	res := tc.BV(^uint64(0), 64)
	if !last {
		for p := len(bs); p >= 0; p-- {
			res = tc.Ite(ex.matchAt(ns, bs, nsep, bsep, p), tc.BV(uint64(p), 64), res)
		}
	} else {
		for p := 0; p <= len(bs); p++ {
			res = tc.Ite(ex.matchAt(ns, bs, nsep, bsep, p), tc.BV(uint64(p), 64), res)
		}
	}
	return res
}

func (ex *Exec) strHasPrefix(s, p Str) *Term {
	ns, bs := ex.symParts(s)
	np, bp := ex.symParts(p)
	return ex.matchAt(ns, bs, np, bp, 0)
}

func (ex *Exec) strHasSuffix(s, suf Str) *Term {
	tc := ex.tc
	ns, bs := ex.symParts(s)
	nf, bf := ex.symParts(suf)
	r := tc.False
	for off := 0; off <= len(bs); off++ {
		at := tc.Eq(tc.Sub(ns, nf), tc.BV(uint64(off), 64))
		if at.IsFalse() {
			continue
		}
		r = tc.Or(r, tc.And(at, ex.matchAt(ns, bs, nf, bf, off)))
	}
	return tc.And(tc.Ule(nf, ns), r)
}

// strIndexByte: first (or last) index of byte c in s.
func (ex *Exec) strIndexByte(s Str, c *Term, last bool) *Term {
	tc := ex.tc
	ex.checkOpaque(s, "IndexByte")
	ns, bs := ex.symParts(s)
	res := tc.BV(^uint64(0), 64)
	hit := func(p int) *Term {
		return tc.And(tc.Ult(tc.BV(uint64(p), 64), ns), tc.Eq(bs[p], c))
	}
	if !last {
		for p := len(bs) - 1; p >= 0; p-- {
			res = tc.Ite(hit(p), tc.BV(uint64(p), 64), res)
		}
	} else {
		for p := 0; p < len(bs); p++ {
			res = tc.Ite(hit(p), tc.BV(uint64(p), 64), res)
		}
	}
	return res
}

// strIndexAny: index of the first (last) byte of s that is one of the ASCII bytes of the concrete set chars, -1 if none.
func (ex *Exec) strIndexAny(s Str, chars string, last bool) *Term {
	tc := ex.tc
	ex.checkOpaque(s, "IndexAny")
	ns, bs := ex.symParts(s)
	res := tc.BV(^uint64(0), 64)
	hit := func(p int) *Term {
		in := tc.False
		for i := 0; i < len(chars); i++ {
			in = tc.Or(in, tc.Eq(bs[p], tc.BV(uint64(chars[i]), 8)))
		}
		return tc.And(tc.Ult(tc.BV(uint64(p), 64), ns), in)
	}
	if !last {
		for p := len(bs) - 1; p >= 0; p-- {
			res = tc.Ite(hit(p), tc.BV(uint64(p), 64), res)
		}
	} else {
		for p := 0; p < len(bs); p++ {
			res = tc.Ite(hit(p), tc.BV(uint64(p), 64), res)
		}
	}
	return res
}

// newSymStr creates a fresh symbolic string with the given capacity.
func (ex *Exec) newSymStr(tag string, capacity int) (Str, []*Term) {
	tc := ex.tc
	n := tc.Var(tag+".len", 64)
	ex.assume(tc.Ule(n, tc.BV(uint64(capacity), 64)))
	vars := []*Term{n}
	b := make([]*Term, capacity)
	for i := range b {
		b[i] = tc.Var(tag+"."+itoa(i), 8)
		tc.ClearDomain(b[i]) // a domain recorded by an earlier path of this worker does not apply to this draw
		vars = append(vars, b[i])
	}
	return Str{sym: &SymStr{n: n, b: b}}, vars
}

func itoa(i int) string {
	if i == 0 {
		return "0"
	}
	neg := i < 0
	if neg {
		i = -i
	}
	var buf [20]byte
	p := len(buf)
	for i > 0 {
		p--
		buf[p] = byte('0' + i%10)
		i /= 10
	}
	if neg {
		p--
		buf[p] = '-'
	}
	return string(buf[p:])
}
