package main

// encoding/json modelled over abstract documents: a []byte / string value may carry a JNode tree
// whose leaves are ordinary symbolic values. Marshal builds the tree from the Go type, Unmarshal
// decodes it type-directed (exact key match, else ASCII case-insensitive; later duplicate wins;
// unknown keys ignored; null leaves non-nullable targets untouched; kind mismatch yields
// *UnmarshalTypeError after decoding the rest).

import (
	"bytes"
	"encoding/base64"
	"encoding/json"
	"fmt"
	"go/types"
	"reflect"
	"sort"
	"strings"

	"golang.org/x/tools/go/ssa"
)

type JKind int

const (
	JObj JKind = iota
	JArr
	JStr
	JNum
	JBool
	JNull
	JBad
	JBytes
	JTrail // elems[0] followed by trailing non-whitespace bytes: a syntax error for Unmarshal, one value for a Decoder
)

type JNode struct {
	kind    JKind
	keys    []Str
	vals    []*JNode
	elems   []*JNode
	s       Str
	n       *Term
	f       float64
	isFloat bool
	b       *Term
	bytes   Slice
}

func (n *JNode) concrete(ex *Exec) bool {
	switch n.kind {
	case JObj:
		for i := range n.keys {
			if _, ok := ex.strConcrete(n.keys[i]); !ok {
				return false
			}
			if !n.vals[i].concrete(ex) {
				return false
			}
		}
	case JArr:
		for _, e := range n.elems {
			if !e.concrete(ex) {
				return false
			}
		}
	case JStr:
		_, ok := ex.strConcrete(n.s)
		return ok
	case JNum:
		return n.isFloat || n.n.IsConst()
	case JBool:
		return n.b.IsConst()
	case JBytes:
		_, ok := ex.strConcrete(ex.byteSliceToStr(n.bytes))
		return ok && n.bytes.abs == nil
	case JBad, JTrail:
		return false
	}
	return true
}

// render writes the JSON text of a fully concrete node.
func (n *JNode) render(ex *Exec, sb *bytes.Buffer) {
	switch n.kind {
	case JObj:
		sb.WriteByte('{')
		for i := range n.keys {
			if i > 0 {
				sb.WriteByte(',')
			}
			k, _ := ex.strConcrete(n.keys[i])
			kb, _ := json.Marshal(k)
			sb.Write(kb)
			sb.WriteByte(':')
			n.vals[i].render(ex, sb)
		}
		sb.WriteByte('}')
	case JArr:
		sb.WriteByte('[')
		for i, e := range n.elems {
			if i > 0 {
				sb.WriteByte(',')
			}
			e.render(ex, sb)
		}
		sb.WriteByte(']')
	case JStr:
		s, _ := ex.strConcrete(n.s)
		b, _ := json.Marshal(s)
		sb.Write(b)
	case JNum:
		if n.isFloat {
			b, _ := json.Marshal(n.f)
			sb.Write(b)
		} else {
			fmt.Fprintf(sb, "%d", n.n.Int64())
		}
	case JBool:
		if n.b.val == 1 {
			sb.WriteString("true")
		} else {
			sb.WriteString("false")
		}
	case JNull:
		sb.WriteString("null")
	case JBytes:
		s, _ := ex.strConcrete(ex.byteSliceToStr(n.bytes))
		b, _ := json.Marshal([]byte(s))
		sb.Write(b)
	}
}

// jsonBytes wraps a node as a []byte value.
func (ex *Exec) jsonBytes(n *JNode) Slice {
	tc := ex.tc
	if n.concrete(ex) {
		var sb bytes.Buffer
		n.render(ex, &sb)
		sl := ex.strToByteSlice(mkStr(sb.String()))
		sl.abs = n
		return sl
	}
	// abstract bytes: non-empty, content not inspectable
	ex.absSeq++
	ln := tc.Var(fmt.Sprintf("jsonlen#%d", ex.absSeq), 64)
	ex.assume(tc.And(tc.Ule(tc.BV(2, 64), ln), tc.Ule(ln, tc.BV(1<<20, 64))))
	return Slice{a: []Value{}, n: ln, abs: n}
}

// parseJSONText parses concrete JSON text into a node (nil on syntax error).
func (ex *Exec) parseJSONText(text string) *JNode {
	dec := json.NewDecoder(strings.NewReader(text))
	dec.UseNumber()
	n, err := ex.parseJSONValue(dec)
	if err != nil {
		return nil
	}
	// trailing data is a syntax error for Unmarshal
	if _, err := dec.Token(); err == nil || err.Error() != "EOF" {
		return nil
	}
	return n
}

func (ex *Exec) parseJSONValue(dec *json.Decoder) (*JNode, error) {
	tc := ex.tc
	tok, err := dec.Token()
	if err != nil {
		return nil, err
	}
	switch t := tok.(type) {
	case json.Delim:
		switch t {
		case '{':
			n := &JNode{kind: JObj}
			for dec.More() {
				kt, err := dec.Token()
				if err != nil {
					return nil, err
				}
				v, err := ex.parseJSONValue(dec)
				if err != nil {
					return nil, err
				}
				n.keys = append(n.keys, mkStr(kt.(string)))
				n.vals = append(n.vals, v)
			}
			if _, err := dec.Token(); err != nil {
				return nil, err
			}
			return n, nil
		case '[':
			n := &JNode{kind: JArr}
			for dec.More() {
				v, err := ex.parseJSONValue(dec)
				if err != nil {
					return nil, err
				}
				n.elems = append(n.elems, v)
			}
			if _, err := dec.Token(); err != nil {
				return nil, err
			}
			return n, nil
		}
		return nil, fmt.Errorf("unexpected delimiter")
	case string:
		return &JNode{kind: JStr, s: mkStr(t)}, nil
	case json.Number:
		if i, err := t.Int64(); err == nil {
			return &JNode{kind: JNum, n: tc.BV(uint64(i), 64)}, nil
		}
		f, err := t.Float64()
		if err != nil {
			return nil, err
		}
		return &JNode{kind: JNum, f: f, isFloat: true}, nil
	case bool:
		return &JNode{kind: JBool, b: tc.Bool(t)}, nil
	case nil:
		return &JNode{kind: JNull}, nil
	}
	return nil, fmt.Errorf("unexpected token")
}

// nodeOfBytes returns the document carried by a []byte value: its abstract node, or the parse of
// its concrete text. ok=false means a syntax error; unsupported if the bytes are symbolic.
func (ex *Exec) nodeOfBytes(sl Slice) (*JNode, bool) {
	if n, ok := sl.abs.(*JNode); ok {
		if n.kind == JBad || n.kind == JTrail {
			return nil, false
		}
		return n, true
	}
	s, ok := ex.strConcrete(ex.byteSliceToStr(sl))
	if !ok {
		ex.unsupported("json: decoding symbolic bytes that carry no abstract document")
	}
	n := ex.parseJSONText(s)
	return n, n != nil
}

// ---------------------------------------------------------------------------
// struct fields

type jsonField struct {
	name      string
	index     []int
	omitEmpty bool
	typ       types.Type
	asString  bool
}

func jsonFields(t *types.Struct, prefix []int, out *[]jsonField, seen map[string]int, depth int) {
	for i := 0; i < t.NumFields(); i++ {
		f := t.Field(i)
		tag := reflect.StructTag(t.Tag(i)).Get("json")
		if tag == "-" {
			continue
		}
		name, opts, _ := strings.Cut(tag, ",")
		idx := append(append([]int{}, prefix...), i)
		if f.Anonymous() && name == "" {
			ft := f.Type()
			if p, ok := ft.Underlying().(*types.Pointer); ok {
				ft = p.Elem()
			}
			if st, ok := ft.Underlying().(*types.Struct); ok {
				jsonFields(st, idx, out, seen, depth+1)
				continue
			}
		}
		if !f.Exported() {
			continue
		}
		if name == "" {
			name = f.Name()
		}
		if d, dup := seen[name]; dup && d <= depth {
			continue
		}
		seen[name] = depth
		*out = append(*out, jsonField{name: name, index: idx, omitEmpty: strings.Contains(","+opts+",", ",omitempty,"), typ: f.Type(), asString: strings.Contains(","+opts+",", ",string,")})
	}
}

func (w *Worker) fieldsOf(t *types.Struct) []jsonField {
	if f, ok := w.jsonFieldCache[t]; ok {
		return f
	}
	var out []jsonField
	jsonFields(t, nil, &out, map[string]int{}, 0)
	w.jsonFieldCache[t] = out
	return out
}

// fieldValue walks an index path through (pointer-)embedded structs. Returns ok=false on a nil embedded pointer.
func fieldValue(v Struct, t *types.Struct, index []int) (Value, bool) {
	cur := v
	ct := t
	for k, i := range index {
		fv := cur[i]
		if k == len(index)-1 {
			return fv, true
		}
		ft := ct.Field(i).Type()
		if _, isPtr := ft.Underlying().(*types.Pointer); isPtr {
			p := fv.(*Value)
			if p == nil {
				return nil, false
			}
			cur = (*p).(Struct)
			ct = ft.Underlying().(*types.Pointer).Elem().Underlying().(*types.Struct)
		} else {
			cur = fv.(Struct)
			ct = ft.Underlying().(*types.Struct)
		}
	}
	return nil, false
}

// fieldAddr returns the address of the field, allocating nil embedded pointers on the way.
func (ex *Exec) fieldAddr(p *Value, t *types.Struct, index []int) *Value {
	cur := p
	ct := t
	for k, i := range index {
		st := (*cur).(Struct)
		fa := &st[i]
		if k == len(index)-1 {
			return fa
		}
		ft := ct.Field(i).Type()
		if pt, isPtr := ft.Underlying().(*types.Pointer); isPtr {
			pp := (*fa).(*Value)
			if pp == nil {
				pp = new(Value)
				*pp = ex.zero(pt.Elem())
				*fa = pp
			}
			cur = pp
			ct = pt.Elem().Underlying().(*types.Struct)
		} else {
			cur = fa
			ct = ft.Underlying().(*types.Struct)
		}
	}
	return nil
}

func (ex *Exec) methodOf(t types.Type, name string) *ssa.Function {
	ms := ex.w.P.prog.MethodSets.MethodSet(t)
	for i := 0; i < ms.Len(); i++ {
		if ms.At(i).Obj().Name() == name {
			return ex.w.P.prog.MethodValue(ms.At(i))
		}
	}
	return nil
}

func isMarshalSig(fn *ssa.Function) bool {
	sig := fn.Signature
	return sig.Params().Len() == 0 && sig.Results().Len() == 2
}

// ---------------------------------------------------------------------------
// Marshal

func (ex *Exec) jsonErr(msg string) Value { return ex.errorString(mkStr("json: " + msg)) }

// jsonEncode returns the node for v of static type t, or an error value.
func (ex *Exec) jsonEncode(v Value, t types.Type, addressable bool) (*JNode, Value) {
	tc := ex.tc
	// Marshaler
	if _, isIface := t.Underlying().(*types.Interface); !isIface {
		var m *ssa.Function
		recv := v
		if m = ex.methodOf(t, "MarshalJSON"); m != nil && isMarshalSig(m) {
			if p, isPtr := v.(*Value); isPtr && p == nil {
				if _, ok := t.Underlying().(*types.Pointer); ok {
					return &JNode{kind: JNull}, nil
				}
			}
		} else if _, isPtr := t.Underlying().(*types.Pointer); !isPtr && addressable {
			if m = ex.methodOf(types.NewPointer(t), "MarshalJSON"); m != nil && isMarshalSig(m) {
				cell := new(Value)
				*cell = copyVal(v)
				recv = cell
			} else {
				m = nil
			}
		} else {
			m = nil
		}
		if m != nil {
			res := ex.callFunction(m, []Value{recv}, nil, nil).(Tuple)
			if e := res[1].(Iface); e.t != nil {
				return nil, e
			}
			n, ok := ex.nodeOfBytes(res[0].(Slice))
			if !ok {
				return nil, ex.jsonErr("error calling MarshalJSON: invalid JSON")
			}
			return n, nil
		}
		if m = ex.methodOf(t, "MarshalText"); m != nil && isMarshalSig(m) {
			res := ex.callFunction(m, []Value{v}, nil, nil).(Tuple)
			if e := res[1].(Iface); e.t != nil {
				return nil, e
			}
			return &JNode{kind: JStr, s: ex.byteSliceToStr(res[0].(Slice))}, nil
		}
	}
	switch u := t.Underlying().(type) {
	case *types.Basic:
		switch {
		case u.Info()&types.IsString != 0:
			s := v.(Str)
			ex.checkOpaque(s, "json.Marshal")
			return &JNode{kind: JStr, s: s}, nil
		case u.Info()&types.IsBoolean != 0:
			return &JNode{kind: JBool, b: v.(*Term)}, nil
		case u.Info()&types.IsInteger != 0:
			return &JNode{kind: JNum, n: ex.toInt64(v.(*Term), t)}, nil
		case u.Info()&types.IsFloat != 0:
			f := v.(float64)
			if f == float64(int64(f)) {
				return &JNode{kind: JNum, n: tc.BV(uint64(int64(f)), 64)}, nil
			}
			return &JNode{kind: JNum, f: f, isFloat: true}, nil
		}
	case *types.Pointer:
		p := v.(*Value)
		if p == nil {
			return &JNode{kind: JNull}, nil
		}
		return ex.jsonEncode(*p, u.Elem(), true)
	case *types.Interface:
		iv := v.(Iface)
		if iv.t == nil {
			return &JNode{kind: JNull}, nil
		}
		return ex.jsonEncode(iv.v, iv.t, false)
	case *types.Struct:
		n := &JNode{kind: JObj}
		sv := v.(Struct)
		for _, f := range ex.w.fieldsOf(u) {
			fv, ok := fieldValue(sv, u, f.index)
			if !ok {
				continue
			}
			if f.omitEmpty && ex.jsonIsEmpty(fv, f.typ) {
				continue
			}
			fn, err := ex.jsonEncode(fv, f.typ, addressable)
			if err != nil {
				return nil, err
			}
			if f.asString {
				ex.unsupported("json: ,string option")
			}
			n.keys = append(n.keys, mkStr(f.name))
			n.vals = append(n.vals, fn)
		}
		return n, nil
	case *types.Map:
		m := v.(*Map)
		if m == nil {
			return &JNode{kind: JNull}, nil
		}
		n := &JNode{kind: JObj}
		type kv struct {
			k Str
			v *JNode
		}
		var items []kv
		allConc := true
		for i := range m.keys {
			if !m.live[i] {
				continue
			}
			var ks Str
			switch k := m.keys[i].(type) {
			case Str:
				ks = k
			case *Term:
				if !k.IsConst() {
					ex.unsupported("json: symbolic integer map key")
				}
				ks = mkStr(fmt.Sprint(k.Int64()))
			default:
				return nil, ex.jsonErr("unsupported map key type")
			}
			if _, ok := ex.strConcrete(ks); !ok {
				allConc = false
			}
			en, err := ex.jsonEncode(m.vals[i], u.Elem(), false)
			if err != nil {
				return nil, err
			}
			items = append(items, kv{ks, en})
		}
		if allConc {
			sort.SliceStable(items, func(i, j int) bool { return items[i].k.s < items[j].k.s })
		}
		for _, it := range items {
			n.keys = append(n.keys, it.k)
			n.vals = append(n.vals, it.v)
		}
		return n, nil
	case *types.Slice:
		sl := v.(Slice)
		if sl.a == nil {
			return &JNode{kind: JNull}, nil
		}
		if b, ok := u.Elem().Underlying().(*types.Basic); ok && b.Kind() == types.Byte {
			return &JNode{kind: JBytes, bytes: sl}, nil
		}
		ln := ex.concretizeRange(sl.n, 0, len(sl.a), "json-slice-len")
		n := &JNode{kind: JArr}
		for i := 0; i < ln; i++ {
			en, err := ex.jsonEncode(sl.a[i], u.Elem(), true)
			if err != nil {
				return nil, err
			}
			n.elems = append(n.elems, en)
		}
		return n, nil
	case *types.Array:
		n := &JNode{kind: JArr}
		for _, e := range v.(Array) {
			en, err := ex.jsonEncode(e, u.Elem(), addressable)
			if err != nil {
				return nil, err
			}
			n.elems = append(n.elems, en)
		}
		return n, nil
	case *types.Signature, *types.Chan:
		return nil, ex.jsonErr("unsupported type: " + t.String())
	}
	ex.unsupported("json.Marshal of " + t.String())
	return nil, nil
}

func (ex *Exec) jsonIsEmpty(v Value, t types.Type) bool {
	tc := ex.tc
	forkT := func(c *Term, why string) bool {
		if c.IsConst() {
			return c.val == 1
		}
		return ex.decide([]*Term{c, tc.Not(c)}, why) == 0
	}
	switch x := v.(type) {
	case *Term:
		if x.sort == 0 {
			return forkT(tc.Not(x), "omitempty-bool")
		}
		return forkT(tc.Eq(x, tc.BV(0, x.sort)), "omitempty-int")
	case Str:
		ex.checkOpaque(x, "json omitempty")
		return forkT(tc.Eq(ex.strLen(x), tc.BV(0, 64)), "omitempty-str")
	case float64:
		return x == 0
	case *Value:
		return x == nil
	case Iface:
		return x.t == nil
	case *Map:
		return x == nil || x.cnt == 0
	case Slice:
		return forkT(tc.Eq(x.n, tc.BV(0, 64)), "omitempty-slice")
	case Array:
		return len(x) == 0
	}
	return false
}

// ---------------------------------------------------------------------------
// Unmarshal

type jsonDecState struct {
	saved Value // first *UnmarshalTypeError
}

func (ex *Exec) jsonTypeError(st *jsonDecState, what string, t types.Type) {
	if st.saved != nil {
		return
	}
	p := ex.w.P.ssaPkgs["encoding/json"]
	et := p.Type("UnmarshalTypeError").Type()
	z := ex.zero(et).(Struct)
	z[fieldIndex(et, "Value")] = mkStr(what)
	z[fieldIndex(et, "Field")] = mkStr(t.String())
	cell := new(Value)
	*cell = z
	st.saved = Iface{t: types.NewPointer(et), v: cell}
}

func (ex *Exec) jsonSyntaxError() Value {
	p := ex.w.P.ssaPkgs["encoding/json"]
	et := p.Type("SyntaxError").Type()
	z := ex.zero(et).(Struct)
	z[0] = mkStr("invalid character looking for beginning of value")
	cell := new(Value)
	*cell = z
	return Iface{t: types.NewPointer(et), v: cell}
}

func kindName(k JKind) string {
	return [...]string{"object", "array", "string", "number", "bool", "null", "bad", "string"}[k]
}

func (ex *Exec) jsonDecode(n *JNode, target *Value, t types.Type, st *jsonDecState) Value {
	tc := ex.tc
	// Unmarshaler (pointer receiver)
	if _, isIface := t.Underlying().(*types.Interface); !isIface {
		var pt types.Type = types.NewPointer(t)
		recv := target
		if p, isPtr := t.Underlying().(*types.Pointer); isPtr {
			// *T target: method set of *T itself
			elemT := p.Elem()
			if n.kind != JNull {
				if m := ex.methodOf(t, "UnmarshalJSON"); m != nil && m.Signature.Params().Len() == 1 {
					pp := (*target).(*Value)
					if pp == nil {
						pp = new(Value)
						*pp = ex.zero(elemT)
						*target = pp
					}
					recv = pp
					res := ex.callFunction(m, []Value{recv, ex.jsonBytes(n)}, nil, nil)
					if e := res.(Iface); e.t != nil {
						return e
					}
					return nil
				}
			}
		} else if m := ex.methodOf(pt, "UnmarshalJSON"); m != nil && m.Signature.Params().Len() == 1 {
			res := ex.callFunction(m, []Value{recv, ex.jsonBytes(n)}, nil, nil)
			if e := res.(Iface); e.t != nil {
				return e
			}
			return nil
		} else if m := ex.methodOf(pt, "UnmarshalText"); m != nil && n.kind == JStr {
			res := ex.callFunction(m, []Value{recv, ex.strToByteSlice(n.s)}, nil, nil)
			if e := res.(Iface); e.t != nil {
				return e
			}
			return nil
		}
	}
	if n.kind == JNull {
		switch t.Underlying().(type) {
		case *types.Pointer, *types.Map, *types.Slice, *types.Interface:
			*target = ex.zero(t)
		}
		return nil
	}
	switch u := t.Underlying().(type) {
	case *types.Pointer:
		pp := (*target).(*Value)
		if pp == nil {
			pp = new(Value)
			*pp = ex.zero(u.Elem())
			*target = pp
		}
		return ex.jsonDecode(n, pp, u.Elem(), st)
	case *types.Interface:
		if u.NumMethods() != 0 {
			iv := (*target).(Iface)
			if iv.t != nil {
				if p, ok := iv.v.(*Value); ok && p != nil {
					if pt, ok := iv.t.Underlying().(*types.Pointer); ok {
						return ex.jsonDecode(n, p, pt.Elem(), st)
					}
				}
			}
			ex.jsonTypeError(st, kindName(n.kind), t)
			return nil
		}
		// json decodes into an existing non-nil pointer held by the interface
		if iv := (*target).(Iface); iv.t != nil {
			if p, ok := iv.v.(*Value); ok && p != nil {
				if pt, ok := iv.t.Underlying().(*types.Pointer); ok {
					return ex.jsonDecode(n, p, pt.Elem(), st)
				}
			}
		}
		*target = ex.jsonDecodeAny(n)
		return nil
	case *types.Struct:
		if n.kind != JObj {
			ex.jsonTypeError(st, kindName(n.kind), t)
			return nil
		}
		fields := ex.w.fieldsOf(u)
		for i := range n.keys {
			fi := ex.jsonMatchField(n.keys[i], fields)
			if fi < 0 {
				continue
			}
			f := fields[fi]
			fa := ex.fieldAddr(target, u, f.index)
			if f.asString {
				ex.unsupported("json: ,string option")
			}
			if err := ex.jsonDecode(n.vals[i], fa, f.typ, st); err != nil {
				return err
			}
		}
		return nil
	case *types.Map:
		if n.kind != JObj {
			ex.jsonTypeError(st, kindName(n.kind), t)
			return nil
		}
		if !isString(u.Key()) {
			ex.unsupported("json: map with non-string key")
		}
		m := (*target).(*Map)
		if m == nil {
			m = newMap()
			*target = m
		}
		for i := range n.keys {
			cell := new(Value)
			*cell = ex.zero(u.Elem())
			if err := ex.jsonDecode(n.vals[i], cell, u.Elem(), st); err != nil {
				return err
			}
			ex.mapInsert(m, n.keys[i], *cell)
		}
		return nil
	case *types.Slice:
		if b, ok := u.Elem().Underlying().(*types.Basic); ok && b.Kind() == types.Byte {
			switch n.kind {
			case JBytes:
				src := n.bytes
				cp := make([]Value, len(src.a))
				copy(cp, src.a)
				*target = Slice{a: cp, n: src.n, abs: src.abs}
				return nil
			case JStr:
				s, ok := ex.strConcrete(n.s)
				if !ok {
					ex.unsupported("json: base64 decoding of a symbolic string")
				}
				dec, err := base64.StdEncoding.DecodeString(s)
				if err != nil {
					return ex.jsonErr("illegal base64 data")
				}
				sl := ex.strToByteSlice(mkStr(string(dec)))
				if sl.a == nil {
					sl.a = []Value{}
				}
				*target = sl
				return nil
			}
			if n.kind != JArr {
				ex.jsonTypeError(st, kindName(n.kind), t)
				return nil
			}
		}
		if n.kind != JArr {
			ex.jsonTypeError(st, kindName(n.kind), t)
			return nil
		}
		a := make([]Value, len(n.elems))
		for i, e := range n.elems {
			a[i] = ex.zero(u.Elem())
			if err := ex.jsonDecode(e, &a[i], u.Elem(), st); err != nil {
				return err
			}
		}
		*target = Slice{a: a, n: tc.BV(uint64(len(a)), 64)}
		return nil
	case *types.Array:
		if n.kind != JArr {
			ex.jsonTypeError(st, kindName(n.kind), t)
			return nil
		}
		arr := (*target).(Array)
		for i := range arr {
			if i < len(n.elems) {
				if err := ex.jsonDecode(n.elems[i], &arr[i], u.Elem(), st); err != nil {
					return err
				}
			} else {
				store(&arr[i], ex.zero(u.Elem()))
			}
		}
		return nil
	case *types.Basic:
		switch {
		case u.Info()&types.IsString != 0:
			if n.kind == JStr {
				*target = n.s
				return nil
			}
			if n.kind == JBytes {
				ex.unsupported("json: base64 text of symbolic bytes decoded into a string")
			}
		case u.Info()&types.IsBoolean != 0:
			if n.kind == JBool {
				*target = n.b
				return nil
			}
		case u.Info()&types.IsInteger != 0:
			if n.kind == JNum && !n.isFloat {
				w := widthOf(u)
				v := n.n
				// range check
				var inRange *Term
				if isSigned(u) {
					if w == 64 {
						inRange = tc.True
					} else {
						lo := tc.BV(uint64(-(int64(1) << (w - 1))), 64)
						hi := tc.BV(uint64((int64(1)<<(w-1))-1), 64)
						inRange = tc.And(tc.Sle(lo, v), tc.Sle(v, hi))
					}
				} else {
					if w == 64 {
						inRange = tc.Sle(tc.BV(0, 64), v)
					} else {
						inRange = tc.And(tc.Sle(tc.BV(0, 64), v), tc.Sle(v, tc.BV(mask(w), 64)))
					}
				}
				ok := true
				if inRange.IsFalse() {
					ok = false
				} else if !inRange.IsConst() {
					ok = ex.decide([]*Term{inRange, tc.Not(inRange)}, "json-int-range") == 0
				}
				if ok {
					*target = tc.Extract(v, w)
					return nil
				}
				ex.jsonTypeError(st, "number", t)
				return nil
			}
		case u.Info()&types.IsFloat != 0:
			if n.kind == JNum {
				if n.isFloat {
					*target = n.f
					return nil
				}
				if n.n.IsConst() {
					*target = float64(n.n.Int64())
					return nil
				}
				ex.unsupported("json: symbolic number into float")
			}
		}
		ex.jsonTypeError(st, kindName(n.kind), t)
		return nil
	}
	ex.unsupported("json.Unmarshal into " + t.String())
	return nil
}

func (ex *Exec) namedType(pkg, name string) types.Type {
	return ex.w.P.ssaPkgs[pkg].Type(name).Type()
}

var (
	anyType       = types.NewInterfaceType(nil, nil)
	mapStrAnyType = types.NewMap(types.Typ[types.String], anyType)
	sliceAnyType  = types.NewSlice(anyType)
)

func (ex *Exec) jsonDecodeAny(n *JNode) Iface {
	tc := ex.tc
	switch n.kind {
	case JObj:
		m := newMap()
		for i := range n.keys {
			ex.mapInsert(m, n.keys[i], ex.jsonDecodeAny(n.vals[i]))
		}
		return Iface{t: mapStrAnyType, v: m}
	case JArr:
		a := make([]Value, len(n.elems))
		for i, e := range n.elems {
			a[i] = ex.jsonDecodeAny(e)
		}
		return Iface{t: sliceAnyType, v: Slice{a: a, n: tc.BV(uint64(len(a)), 64)}}
	case JStr:
		return Iface{t: types.Typ[types.String], v: n.s}
	case JBytes:
		ex.unsupported("json: base64 text of bytes decoded into interface{}")
	case JNum:
		if ex.jsonUseNumber {
			ex.unsupported("json: number decoded into interface{} by a Decoder with UseNumber (json.Number)")
		}
		if n.isFloat {
			return Iface{t: types.Typ[types.Float64], v: n.f}
		}
		if n.n.IsConst() {
			return Iface{t: types.Typ[types.Float64], v: float64(n.n.Int64())}
		}
		// symbolic number in an interface{}: keep an opaque float placeholder
		return Iface{t: types.Typ[types.Float64], v: symFloat{n.n}}
	case JBool:
		return Iface{t: types.Typ[types.Bool], v: n.b}
	}
	return Iface{}
}

// symFloat is a float64 whose value is the integer term n (only carried around, never computed with).
type symFloat struct{ n *Term }

// jsonMatchField picks the struct field for an object key: exact match first, then ASCII
// case-insensitive; forks when the key is symbolic.
func (ex *Exec) jsonMatchField(key Str, fields []jsonField) int {
	tc := ex.tc
	if ks, ok := ex.strConcrete(key); ok {
		for i, f := range fields {
			if f.name == ks {
				return i
			}
		}
		for i, f := range fields {
			if strings.EqualFold(f.name, ks) && asciiOnly(ks) {
				return i
			}
		}
		for i, f := range fields {
			if strings.EqualFold(f.name, ks) {
				return i
			}
		}
		return -1
	}
	ex.checkOpaque(key, "json key")
	var conds []*Term
	var idx []int
	anyExact := tc.False
	exact := make([]*Term, len(fields))
	for i, f := range fields {
		exact[i] = ex.strEq(key, mkStr(f.name))
		anyExact = tc.Or(anyExact, exact[i])
	}
	for i := range fields {
		if !exact[i].IsFalse() {
			conds = append(conds, exact[i])
			idx = append(idx, i)
		}
	}
	noneBefore := tc.Not(anyExact)
	for i, f := range fields {
		fold := tc.And(noneBefore, ex.strEqualFoldASCII(key, mkStr(f.name)))
		if !fold.IsFalse() {
			conds = append(conds, fold)
			idx = append(idx, i)
		}
		noneBefore = tc.And(noneBefore, tc.Not(ex.strEqualFoldASCII(key, mkStr(f.name))))
	}
	conds = append(conds, noneBefore)
	idx = append(idx, -1)
	return idx[ex.decide(conds, "json-field")]
}

func asciiOnly(s string) bool {
	for i := 0; i < len(s); i++ {
		if s[i] >= 0x80 {
			return false
		}
	}
	return true
}

// ---------------------------------------------------------------------------

func (ex *Exec) jsonUnmarshal(data Slice, target Iface) Value {
	n, ok := ex.nodeOfBytes(data)
	if !ok {
		return ex.jsonSyntaxError()
	}
	if target.t == nil {
		return ex.jsonErr("Unmarshal(nil)")
	}
	pt, isPtr := target.t.Underlying().(*types.Pointer)
	if !isPtr || target.v.(*Value) == nil {
		return ex.jsonErr("Unmarshal(non-pointer or nil)")
	}
	st := &jsonDecState{}
	if err := ex.jsonDecode(n, target.v.(*Value), pt.Elem(), st); err != nil {
		return err
	}
	if st.saved != nil {
		return st.saved
	}
	return Iface{}
}

func init() {
	reg("encoding/json.Marshal", func(ex *Exec, fn *ssa.Function, a []Value) Value {
		iv := a[0].(Iface)
		var n *JNode
		if iv.t == nil {
			n = &JNode{kind: JNull}
		} else {
			var err Value
			n, err = ex.jsonEncode(iv.v, iv.t, false)
			if err != nil {
				return Tuple{Slice{n: ex.tc.BV(0, 64)}, err}
			}
		}
		return Tuple{ex.jsonBytes(n), Iface{}}
	})
	reg("encoding/json.MarshalIndent", func(ex *Exec, fn *ssa.Function, a []Value) Value {
		return intrinsics["encoding/json.Marshal"](ex, fn, a[:1])
	})
	reg("encoding/json.Unmarshal", func(ex *Exec, fn *ssa.Function, a []Value) Value {
		r := ex.jsonUnmarshal(a[0].(Slice), a[1].(Iface))
		if r == nil {
			return Iface{}
		}
		return r
	})
	// json.NewDecoder(r).Decode(v): the first JSON value of the reader's bytes; what follows it is left unread.
	// The decoder object is a cell holding the reader and the number of values decoded so far.
	reg("encoding/json.NewDecoder", func(ex *Exec, fn *ssa.Function, a []Value) Value {
		cell := new(Value)
		*cell = Struct{a[0], ex.tc.BV(0, 64), ex.tc.False}
		return cell
	})
	// UseNumber: numbers decoded into interface{} become json.Number (typed targets are not affected)
	reg("(*encoding/json.Decoder).UseNumber", func(ex *Exec, fn *ssa.Function, a []Value) Value {
		cell := a[0].(*Value)
		st := (*cell).(Struct)
		*cell = Struct{st[0], st[1], ex.tc.True}
		return nil
	})
	reg("(*encoding/json.Decoder).Decode", func(ex *Exec, fn *ssa.Function, a []Value) Value {
		cell := a[0].(*Value)
		st := (*cell).(Struct)
		rd := st[0].(Iface)
		used := st[1].(*Term).val
		var data Slice
		got := false
		if rd.t != nil {
			switch rd.t.String() {
			case "*bytes.Reader":
				if p, ok := rd.v.(*Value); ok && p != nil {
					data, got = (*p).(Struct)[0].(Slice), true
				}
			case "*strings.Reader":
				if p, ok := rd.v.(*Value); ok && p != nil {
					data, got = ex.strToByteSlice((*p).(Struct)[0].(Str)), true
				}
			case "*os.File":
				// a file of the harness' file-system model: its bytes are asked from the model
				if fp := ex.w.P.ssaPkgs[vrPkgPath+"/fskit"]; fp != nil {
					if fb := fp.Func("FileBytes"); fb != nil {
						if sl, ok := ex.callFunction(fb, []Value{rd.v}, nil, nil).(Slice); ok {
							data, got = sl, true
						}
					}
				}
			}
		}
		if !got {
			ex.unsupported("json.Decoder over a reader other than *bytes.Reader / *strings.Reader")
		}
		*cell = Struct{st[0], ex.tc.BV(used+1, 64), st[2]}
		ex.jsonUseNumber = st[2].(*Term).IsTrue()
		defer func() { ex.jsonUseNumber = false }()
		var n *JNode
		if an, ok := data.abs.(*JNode); ok {
			switch {
			case an.kind == JBad:
				return ex.jsonSyntaxError()
			case an.kind == JTrail && used == 0:
				n = an.elems[0]
			case used > 0:
				if an.kind == JTrail {
					return ex.jsonSyntaxError() // the trailing bytes are not a value
				}
				return ex.errorString(mkStr("EOF"))
			default:
				n = an
			}
		} else {
			text, ok := ex.strConcrete(ex.byteSliceToStr(data))
			if !ok {
				ex.unsupported("json.Decoder over symbolic bytes that carry no abstract document")
			}
			dec := json.NewDecoder(strings.NewReader(text))
			dec.UseNumber()
			for i := uint64(0); i <= used; i++ {
				v, err := ex.parseJSONValue(dec)
				if err != nil {
					if err.Error() == "EOF" {
						return ex.errorString(mkStr("EOF"))
					}
					return ex.jsonSyntaxError()
				}
				n = v
			}
		}
		target := a[1].(Iface)
		if target.t == nil {
			return ex.jsonErr("Unmarshal(nil)")
		}
		pt, isPtr := target.t.Underlying().(*types.Pointer)
		if !isPtr || target.v.(*Value) == nil {
			return ex.jsonErr("Unmarshal(non-pointer or nil)")
		}
		dst := &jsonDecState{}
		if err := ex.jsonDecode(n, target.v.(*Value), pt.Elem(), dst); err != nil {
			return err
		}
		if dst.saved != nil {
			return dst.saved
		}
		return Iface{}
	})
	reg("encoding/json.Valid", func(ex *Exec, fn *ssa.Function, a []Value) Value {
		_, ok := ex.nodeOfBytes(a[0].(Slice))
		return ex.tc.Bool(ok)
	})
	reg("(*encoding/json.SyntaxError).Error", func(ex *Exec, fn *ssa.Function, a []Value) Value {
		return mkStr("invalid character looking for beginning of value")
	})
	reg("(*encoding/json.UnmarshalTypeError).Error", func(ex *Exec, fn *ssa.Function, a []Value) Value {
		s := (*a[0].(*Value)).(Struct)
		v, _ := ex.strConcrete(s[0].(Str))
		return mkStr("json: cannot unmarshal " + v + " into Go value")
	})

	// harness-side construction of documents
	vr := vrPkgPath + "."
	jt := types.Typ[types.UnsafePointer]
	wrap := func(n *JNode) Value { return Struct{Iface{t: jt, v: n}} }
	unwrap := func(v Value) *JNode { return v.(Struct)[0].(Iface).v.(*JNode) }
	reg(vr+"JObj", func(ex *Exec, fn *ssa.Function, a []Value) Value {
		args := varargs(a[0])
		n := &JNode{kind: JObj}
		for i := 0; i+1 < len(args); i += 2 {
			k := args[i].(Iface).v.(Str)
			n.keys = append(n.keys, k)
			n.vals = append(n.vals, unwrap(args[i+1].(Iface).v))
		}
		return wrap(n)
	})
	reg(vr+"JArr", func(ex *Exec, fn *ssa.Function, a []Value) Value {
		n := &JNode{kind: JArr}
		for _, e := range varargs(a[0]) {
			n.elems = append(n.elems, unwrap(e))
		}
		return wrap(n)
	})
	reg(vr+"JStr", func(ex *Exec, fn *ssa.Function, a []Value) Value { return wrap(&JNode{kind: JStr, s: a[0].(Str)}) })
	reg(vr+"JNum", func(ex *Exec, fn *ssa.Function, a []Value) Value { return wrap(&JNode{kind: JNum, n: a[0].(*Term)}) })
	reg(vr+"JBool", func(ex *Exec, fn *ssa.Function, a []Value) Value { return wrap(&JNode{kind: JBool, b: a[0].(*Term)}) })
	reg(vr+"JNull", func(ex *Exec, fn *ssa.Function, a []Value) Value { return wrap(&JNode{kind: JNull}) })
	reg(vr+"JBad", func(ex *Exec, fn *ssa.Function, a []Value) Value { return wrap(&JNode{kind: JBad}) })
	reg(vr+"JTrailing", func(ex *Exec, fn *ssa.Function, a []Value) Value {
		return wrap(&JNode{kind: JTrail, elems: []*JNode{unwrap(a[0])}})
	})
	reg(vr+"JBytesVal", func(ex *Exec, fn *ssa.Function, a []Value) Value {
		return wrap(&JNode{kind: JBytes, bytes: a[0].(Slice)})
	})
	reg(vr+"JSONBytes", func(ex *Exec, fn *ssa.Function, a []Value) Value {
		n := unwrap(a[0])
		if n.kind == JBad || n.kind == JTrail {
			ex.absSeq++
			ln := ex.tc.Var(fmt.Sprintf("jsonlen#%d", ex.absSeq), 64)
			ex.assume(ex.tc.And(ex.tc.Ule(ex.tc.BV(1, 64), ln), ex.tc.Ule(ln, ex.tc.BV(1<<20, 64))))
			return Slice{a: []Value{}, n: ln, abs: n}
		}
		return ex.jsonBytes(n)
	})
	// JSONDoc: the document carried by bytes produced by the code under test (for oracles)
	reg(vr+"JSONEqual", func(ex *Exec, fn *ssa.Function, a []Value) Value {
		x, okx := ex.nodeOfBytes(a[0].(Slice))
		y := unwrap(a[1])
		if !okx {
			return ex.tc.False
		}
		return ex.jsonNodeEq(x, y)
	})
}

// jsonNodeEq: structural equality of two documents (object member order ignored; keys compared
// pairwise, so symbolic keys are supported when both sides have the same number of members).
func (ex *Exec) jsonNodeEq(x, y *JNode) *Term {
	tc := ex.tc
	if x.kind == JBytes && y.kind == JStr || x.kind == JStr && y.kind == JBytes {
		ex.unsupported("json: comparing base64 bytes with a string")
	}
	if x.kind != y.kind {
		return tc.False
	}
	switch x.kind {
	case JObj:
		if len(x.keys) != len(y.keys) {
			return tc.False
		}
		// every member of x has an equal member in y (keys are unique on each side)
		r := tc.True
		for i := range x.keys {
			m := tc.False
			for j := range y.keys {
				ke := ex.strEq(x.keys[i], y.keys[j])
				if ke.IsFalse() {
					continue
				}
				m = tc.Or(m, tc.And(ke, ex.jsonNodeEq(x.vals[i], y.vals[j])))
			}
			r = tc.And(r, m)
			if r.IsFalse() {
				break
			}
		}
		return r
	case JArr:
		if len(x.elems) != len(y.elems) {
			return tc.False
		}
		r := tc.True
		for i := range x.elems {
			r = tc.And(r, ex.jsonNodeEq(x.elems[i], y.elems[i]))
		}
		return r
	case JStr:
		return ex.strEq(x.s, y.s)
	case JNum:
		if x.isFloat || y.isFloat {
			return tc.Bool(x.isFloat && y.isFloat && x.f == y.f)
		}
		return tc.Eq(x.n, y.n)
	case JBool:
		return tc.Eq(x.b, y.b)
	case JBytes:
		return ex.strEq(ex.byteSliceToStr(x.bytes), ex.byteSliceToStr(y.bytes))
	}
	return tc.True
}
