package main

// Models of dependency functions that are not encodable from their SSA.

import (
	"net/url"

	"golang.org/x/tools/go/ssa"
)

func init() {
	// oras registry.Reference.ValidateRegistry uses net/url; for concrete registries evaluate natively.
	reg("(oras.land/oras-go/v2/registry.Reference).ValidateRegistry", func(ex *Exec, fn *ssa.Function, a []Value) Value {
		r := a[0].(Struct)
		regS, ok := ex.strConcrete(r[0].(Str))
		if !ok {
			ex.unsupported("ValidateRegistry on a symbolic registry name")
		}
		if uri, err := url.ParseRequestURI("dummy://" + regS); err != nil || uri.Host == "" || uri.Host != regS {
			return ex.errorString(mkStr("invalid reference: invalid registry \"" + regS + "\""))
		}
		return Iface{}
	})
	// crypto.Hash.Available: the hashes linked into every binary that imports crypto/x509
	reg("(crypto.Hash).Available", func(ex *Exec, fn *ssa.Function, a []Value) Value {
		tc := ex.tc
		h := a[0].(*Term)
		r := tc.False
		for _, k := range []uint64{2, 3, 4, 5, 6, 7, 14, 15} { // MD5, SHA1, SHA224, SHA256, SHA384, SHA512, SHA512_224, SHA512_256
			r = tc.Or(r, tc.Eq(h, tc.BV(k, h.sort)))
		}
		return r
	})
}
