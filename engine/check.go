package main

import (
	"bufio"
	"crypto/sha256"
	"encoding/hex"
	"encoding/json"
	"flag"
	"fmt"
	"os"
	"os/exec"
	"path/filepath"
	"runtime"
	"sort"
	"strconv"
	"strings"
	"time"
)

type HarnessSpec struct {
	Entry     string            `json:"entry"`
	Pkg       string            `json:"pkg"`
	Native    bool              `json:"native"`
	Reach     []string          `json:"reach"`
	Unwind    int               `json:"unwind"`
	Quick     map[string]int    `json:"quick"`
	Thorough  map[string]int    `json:"thorough"`
	OnlyTier  string            `json:"only_tier"`
	MaxSteps  int               `json:"max_steps"`
	Solver    string            `json:"solver"`
	Stubs     map[string]string `json:"stubs"` // target function -> harness function (pkg-relative "pkg.Func")
	Note      string            `json:"note"`
	Witnesses int               `json:"witnesses"` // >0: replay this many complete paths natively (default 3 quick / 8 thorough); see explore.go on how they are chosen
	// EngineOnly: assertions over something only the engine's environment model observes (e.g. the writers
	// handed to a process); the native side of the harness never evaluates them
	EngineOnly []string `json:"engine_only"`
}

type Spec struct {
	Property    string            `json:"property"`
	Files       map[string]string `json:"files"`
	Harnesses   []HarnessSpec     `json:"harnesses"`
	Bounds      map[string]string `json:"bounds"`
	Assumptions []string          `json:"assumptions"`
	Outside     []string          `json:"outside"`
	Technique   string            `json:"technique"`
	Extra       []ExtraCheck      `json:"extra"`
}

// ExtraCheck: an additional command (e.g. BMC stage, end-to-end driver) that is part of the check.
type ExtraCheck struct {
	Name string   `json:"name"`
	Cmd  []string `json:"cmd"`
}

type knownFinding struct {
	property, key, text string
}

func loadKnownFindings(vd string) []knownFinding {
	var out []knownFinding
	f, err := os.Open(filepath.Join(vd, "known_findings.txt"))
	if err != nil {
		return nil
	}
	defer f.Close()
	sc := bufio.NewScanner(f)
	for sc.Scan() {
		line := strings.TrimSpace(sc.Text())
		if !strings.HasPrefix(line, "finding:") {
			continue
		}
		rest := strings.TrimSpace(strings.TrimPrefix(line, "finding:"))
		fs := strings.Fields(rest)
		kf := knownFinding{}
		var txt []string
		for _, w := range fs {
			switch {
			case strings.HasPrefix(w, "property=") && kf.property == "":
				kf.property = strings.TrimPrefix(w, "property=")
			case strings.HasPrefix(w, "key=") && kf.key == "":
				kf.key = strings.TrimPrefix(w, "key=")
			default:
				txt = append(txt, w)
			}
		}
		kf.text = strings.Join(txt, " ")
		out = append(out, kf)
	}
	return out
}

func fileHash(path string) string {
	b, err := os.ReadFile(path)
	if err != nil {
		return ""
	}
	h := sha256.Sum256(b)
	return hex.EncodeToString(h[:6])
}

type harnessReport struct {
	Entry        string           `json:"harness"`
	Paths        int              `json:"paths"`
	Ends         map[string]int   `json:"path_ends"`
	Forks        int              `json:"forks"`
	Steps        int64            `json:"ssa_instructions_executed"`
	MaxDepth     int              `json:"max_decision_depth"`
	Asserts      int              `json:"assertion_queries"`
	AssertsUnsat int              `json:"assertion_queries_unsat"`
	Queries      map[string]int   `json:"solver_queries"`
	SolverTime   float64          `json:"solver_time_s"`
	Wall         float64          `json:"wall_s"`
	Reach        map[string]int   `json:"reach"`
	ReachMissing []string         `json:"reach_missing"`
	Inconclusive map[string]int   `json:"inconclusive_reasons,omitempty"`
	Params       map[string]int   `json:"params"`
	Violations   int              `json:"violation_candidates"`
	UnknownFeas  int              `json:"feasibility_unknown"`
	Stopped      string           `json:"stopped,omitempty"`
	Samples      []map[string]any `json:"-"`
	Funcs        map[string]int   `json:"-"`
}

func cmdCheck(args []string) int {
	if len(args) < 1 {
		fmt.Fprintln(os.Stderr, "usage: vsym check <ID> [--tier quick|thorough]")
		return 2
	}
	id := args[0]
	fs := flag.NewFlagSet("check", flag.ExitOnError)
	tierF := fs.String("tier", "", "quick|thorough")
	workers := fs.Int("workers", 0, "workers")
	only := fs.String("only", "", "run only this harness entry")
	verbose := fs.Bool("v", false, "verbose")
	noNative := fs.Bool("no-native", false, "skip native replays")
	fs.Parse(args[1:])
	tier := *tierF
	if tier == "" {
		tier = os.Getenv("VERIF_TIER")
	}
	if tier != "thorough" {
		tier = "quick"
	}
	seed := int64(0)
	if s := os.Getenv("VERIF_SEED"); s != "" {
		seed, _ = strconv.ParseInt(s, 10, 64)
	}
	if *workers == 0 {
		*workers = runtime.NumCPU()
	}
	vd, rd := verifDir(), repoDir()
	start := time.Now()
	specPath := filepath.Join(vd, "harness", id, "spec.json")
	sb, err := os.ReadFile(specPath)
	if err != nil {
		fmt.Fprintln(os.Stderr, err)
		return 2
	}
	var spec Spec
	if err := json.Unmarshal(sb, &spec); err != nil {
		fmt.Fprintln(os.Stderr, "spec:", err)
		return 2
	}
	ov := baseOverlay(vd, rd)
	testOv := map[string]string{}
	for virt, real := range spec.Files {
		if strings.HasSuffix(virt, "_test.go") {
			testOv[filepath.Join(rd, virt)] = filepath.Join(vd, real)
			continue
		}
		ov[filepath.Join(rd, virt)] = filepath.Join(vd, real)
	}
	pkgSet := map[string]bool{}
	for _, h := range spec.Harnesses {
		p := repoModule
		if h.Pkg != "" && h.Pkg != "." {
			p += "/" + h.Pkg
		}
		pkgSet[p] = true
	}
	var patterns []string
	for p := range pkgSet {
		patterns = append(patterns, p)
	}
	sort.Strings(patterns)

	ev := &evidenceBuilder{id: id, tier: tier, seed: seed, spec: &spec, vd: vd, rd: rd}
	inconclusive := []string{}

	var reports []*harnessReport
	var allViol []*Violation
	var witnesses []witnessRec
	if len(spec.Harnesses) > 0 {
		P, err := LoadProgram(rd, ov, patterns)
		// a harness file that no longer compiles against the tree (it calls an internal function whose
		// signature changed, say) is dropped - its harnesses end as inconclusive - and the others still run
		for try := 0; err != nil && try < 4; try++ {
			le, ok := err.(*LoadError)
			if !ok {
				break
			}
			dropped := 0
			for _, f := range le.Files {
				if _, isOv := ov[f]; isOv && !strings.Contains(ov[f], "/harness/common/") && !strings.Contains(ov[f], "kit/") {
					fmt.Printf("INCONCLUSIVE property=%s reason=harness-file-dropped:%s (does not compile against the tree)\n", id, strings.TrimPrefix(ov[f], vd+"/"))
					inconclusive = append(inconclusive, "harness-file-dropped:"+strings.TrimPrefix(ov[f], vd+"/"))
					delete(ov, f)
					dropped++
				}
			}
			if dropped == 0 {
				break
			}
			P, err = LoadProgram(rd, ov, patterns)
		}
		if err != nil {
			// a tree the harness no longer compiles against is inconclusive, not a violation
			fmt.Printf("INCONCLUSIVE property=%s reason=load-failed: %v\n", id, err)
			ev.loadError = err.Error()
			ev.write(nil, nil, 0, 0, time.Since(start), []string{"load-failed"})
			return 0
		}
		P.seed = seed
		P.verbose = *verbose
		fileStubs := P.stubs
		if tier == "thorough" {
			P.tier = 1
			P.solverTimeoutMs = 60000
		}
		for _, h := range spec.Harnesses {
			if *only != "" && h.Entry != *only {
				continue
			}
			if h.OnlyTier != "" && h.OnlyTier != tier {
				continue
			}
			pkgPath := repoModule
			if h.Pkg != "" && h.Pkg != "." {
				pkgPath += "/" + h.Pkg
			}
			fn := P.findFunc(pkgPath, h.Entry)
			if fn == nil {
				fmt.Printf("INCONCLUSIVE property=%s reason=entry-not-found:%s\n", id, h.Entry)
				inconclusive = append(inconclusive, "entry-not-found:"+h.Entry)
				continue
			}
			P.params = map[string]int{}
			pm := h.Quick
			if tier == "thorough" && h.Thorough != nil {
				pm = h.Thorough
			}
			for k, v := range pm {
				P.params[k] = v
			}
			P.solverKind = envOr("VSYM_SOLVER", "z3-new")
			if h.Solver != "" {
				P.solverKind = h.Solver
			}
			P.unwind = 64
			if h.Unwind > 0 {
				P.unwind = h.Unwind
			}
			P.maxSteps = 20_000_000
			if h.MaxSteps > 0 {
				P.maxSteps = h.MaxSteps
			}
			P.stubs = map[string]string{}
			for k, v := range fileStubs {
				P.stubs[k] = v
			}
			for target, hf := range h.Stubs {
				t := strings.ReplaceAll(target, "~", repoModule)
				P.stubs[t] = strings.ReplaceAll(hf, "~", repoModule)
			}
			e := NewExplorer(P, fn, h.Entry)
			// wall-clock budget per harness: a tree on which the exploration explodes ends as inconclusive
			// ("stopped") instead of running on
			budget := 480
			if tier == "thorough" {
				budget = 2400
			}
			if b, err := strconv.Atoi(os.Getenv("VSYM_BUDGET_S")); err == nil && b > 0 {
				budget = b
			}
			e.deadline = time.Now().Add(time.Duration(budget) * time.Second)
			if h.Native && !*noNative {
				e.wantWitness = 3
				if tier == "thorough" {
					e.wantWitness = 8
				}
				if h.Witnesses > 0 {
					e.wantWitness = h.Witnesses
				}
			}
			t1 := time.Now()
			e.Run(*workers)
			rep := &harnessReport{Entry: h.Entry, Paths: e.paths, Ends: e.ends, Forks: e.forks, Steps: e.steps, MaxDepth: e.maxDepthSeen,
				Asserts: e.assertsTotal, AssertsUnsat: e.assertsUnsat, SolverTime: e.stats.Time.Seconds(), Wall: time.Since(t1).Seconds(),
				Reach: e.reach, Params: P.params, Violations: len(e.violations), UnknownFeas: e.unknownFeas, Stopped: e.stopped,
				Queries: map[string]int{"total": e.stats.Queries, "sat": e.stats.Sat, "unsat": e.stats.Unsat, "unknown": e.stats.Unknown, "errors": e.stats.Errors},
				Samples: e.samples, Funcs: e.funcs, Inconclusive: map[string]int{}}
			for _, l := range h.Reach {
				if e.reach[l] == 0 {
					rep.ReachMissing = append(rep.ReachMissing, l)
				}
			}
			for k, n := range e.ends {
				if k != "complete" && k != "infeasible" && k != "panic" {
					rep.Inconclusive[k] += n
				}
			}
			if e.stats.Errors > 0 {
				rep.Inconclusive["solver-errors"] += e.stats.Errors
			}
			if e.unknownFeas > 0 {
				rep.Inconclusive["feasibility-unknown"] += e.unknownFeas
			}
			if e.stopped != "" {
				rep.Inconclusive["stopped"]++
			}
			reports = append(reports, rep)
			fmt.Printf("[%s/%s] paths=%d (complete %d, infeasible %d) forks=%d ssa-instr=%d asserts=%d/%d unsat queries=%d solver=%.1fs wall=%.1fs\n",
				id, h.Entry, e.paths, e.ends["complete"], e.ends["infeasible"], e.forks, e.steps, e.assertsUnsat, e.assertsTotal, e.stats.Queries, e.stats.Time.Seconds(), rep.Wall)
			var ms []string
			for m, n := range e.endMsgs {
				ms = append(ms, fmt.Sprintf("    [%d×] %s", n, m))
			}
			sort.Strings(ms)
			for _, m := range ms {
				fmt.Println(m)
			}
			for k, n := range rep.Inconclusive {
				fmt.Printf("INCONCLUSIVE property=%s harness=%s reason=%s count=%d\n", id, h.Entry, k, n)
				inconclusive = append(inconclusive, h.Entry+":"+k)
			}
			if len(rep.ReachMissing) > 0 {
				fmt.Printf("INCONCLUSIVE property=%s harness=%s reason=vacuous missing-reach=%v\n", id, h.Entry, rep.ReachMissing)
				inconclusive = append(inconclusive, h.Entry+":vacuous")
			}
			for _, v := range e.violations {
				v.native = h.Native
				allViol = append(allViol, v)
			}
			for _, w := range e.witnesses {
				witnesses = append(witnesses, witnessRec{harness: h.Entry, rec: w.rec, pkg: h.Pkg, want: e.wantWitness})
			}
		}
	}

	// write replay files
	os.MkdirAll(filepath.Join(vd, "replays"), 0o755)
	tierN := 0
	if tier == "thorough" {
		tierN = 1
	}
	type pendingReplay struct {
		path    string
		viol    *Violation
		witness *witnessRec
		pkg     string
	}
	var pend []pendingReplay
	harnessPkg := map[string]string{}
	harnessParams := map[string]map[string]int{}
	for _, h := range spec.Harnesses {
		harnessPkg[h.Entry] = h.Pkg
		pm := h.Quick
		if tier == "thorough" && h.Thorough != nil {
			pm = h.Thorough
		}
		harnessParams[h.Entry] = pm
	}
	for i, v := range allViol {
		path := filepath.Join(vd, "replays", fmt.Sprintf("%s-%s-%d.json", id, v.Harness, i))
		rf := map[string]any{"property": id, "harness": v.Harness, "label": v.Label, "kind": v.Kind, "draws": v.Draws, "tier": tierN,
			"params": harnessParams[v.Harness], "finding_key": v.Key, "detail": v.Detail, "notes": v.Notes, "decisions": v.Decision}
		b, _ := json.MarshalIndent(rf, "", " ")
		os.WriteFile(path, b, 0o644)
		v.replayPath = path
		if v.native && !*noNative {
			pend = append(pend, pendingReplay{path: path, viol: v, pkg: harnessPkg[v.Harness]})
		}
	}
	tmp, _ := os.MkdirTemp("", "vsym-")
	defer os.RemoveAll(tmp)
	for i := range witnesses {
		w := &witnesses[i]
		path := filepath.Join(tmp, fmt.Sprintf("w-%s-%d.json", w.harness, i))
		rf := map[string]any{"property": id, "harness": w.harness, "label": "", "kind": "witness", "draws": w.rec["draws"], "tier": tierN, "params": harnessParams[w.harness], "want": w.want}
		b, _ := json.Marshal(rf)
		os.WriteFile(path, b, 0o644)
		w.path = path
		pend = append(pend, pendingReplay{path: path, witness: w, pkg: w.pkg})
	}

	// native replays, one go test per package
	validated, mismatches := 0, 0
	if len(pend) > 0 {
		byPkg := map[string][]pendingReplay{}
		for _, p := range pend {
			byPkg[p.pkg] = append(byPkg[p.pkg], p)
		}
		for pkg, list := range byPkg {
			var files []string
			for _, p := range list {
				files = append(files, p.path)
			}
			results, err := runNative(vd, rd, tmp, pkg, ov, testOv, files)
			if err != nil {
				fmt.Printf("INCONCLUSIVE property=%s reason=native-replay-failed: %v\n", id, firstLines(err.Error(), 30))
				inconclusive = append(inconclusive, "native-replay-failed")
				for _, p := range list {
					if p.viol != nil {
						p.viol.nativeState = "error"
					}
				}
				continue
			}
			for _, p := range list {
				r, ok := results[p.path]
				if !ok {
					continue
				}
				if p.viol != nil {
					confirmed := false
					if p.viol.Kind == "panic" {
						confirmed = r.Panicked
					} else {
						for _, f := range r.Failed {
							if f == p.viol.Label {
								confirmed = true
							}
						}
					}
					if confirmed {
						p.viol.nativeState = "confirmed"
					} else if r.Skipped {
						// the counterexample cannot be realised against the real environment (e.g. an instant equal
						// to the real clock): it stands on the solver's verdict
						p.viol.nativeState = "not-realisable-natively"
					} else if p.viol.Kind != "panic" && !r.Panicked && r.Diverged == "" && !containsStr(r.Evaluated, p.viol.Label) && engineOnlyLabel(&spec, p.viol.Harness, p.viol.Label) {
						// the native side of the harness never evaluates this assertion (it is over something only the
						// engine's environment model can observe, e.g. the writers handed to a process): the violation
						// stands on the solver's verdict
						p.viol.nativeState = "not-observable-natively"
					} else {
						p.viol.nativeState = "mismatch"
						p.viol.nativeInfo = fmt.Sprintf("native: failed=%v panicked=%v(%s) diverged=%q", r.Failed, r.Panicked, r.PanicVal, r.Diverged)
					}
				} else if r.Skipped {
					// the harness declared the case not realisable natively
				} else {
					exp := p.witness.rec
					okW := !r.Panicked && len(r.Failed) == 0 && r.Diverged == ""
					er, _ := exp["reached"].([]string)
					if okW && !sameSet(er, r.Reached) {
						okW = false
					}
					en, _ := exp["notes"].([]string)
					if okW && strings.Join(en, "\x00") != strings.Join(r.Notes, "\x00") {
						okW = false
					}
					if okW {
						validated++
					} else {
						mismatches++
						fmt.Printf("MODEL-MISMATCH property=%s harness=%s witness: engine reached=%v notes=%v; native reached=%v notes=%v failed=%v panicked=%v(%s) diverged=%q\n",
							id, p.witness.harness, er, en, r.Reached, r.Notes, r.Failed, r.Panicked, firstLines(r.PanicVal, 3), r.Diverged)
						b, _ := os.ReadFile(p.path)
						keep := filepath.Join(vd, "replays", fmt.Sprintf("%s-mismatch-%s.json", id, p.witness.harness))
						os.WriteFile(keep, b, 0o644)
					}
				}
			}
		}
	}
	if mismatches > 0 {
		inconclusive = append(inconclusive, "model-mismatch")
	}

	// extra checks
	extraViol := 0
	var extraReports []map[string]any
	for _, x := range spec.Extra {
		rep, code := runExtra(vd, rd, id, tier, seed, x)
		extraReports = append(extraReports, rep)
		if code == 1 {
			extraViol++
		} else if code != 0 {
			inconclusive = append(inconclusive, "extra:"+x.Name)
		}
	}

	// verdict
	known := loadKnownFindings(vd)
	exit := 0
	nViol := 0
	for _, v := range allViol {
		switch v.nativeState {
		case "mismatch":
			fmt.Printf("MODEL-MISMATCH property=%s harness=%s label=%q %s replay=%s\n", id, v.Harness, v.Label, v.nativeInfo, v.replayPath)
			inconclusive = append(inconclusive, "model-mismatch")
			continue
		case "error":
			continue
		}
		matched := false
		for _, k := range known {
			if k.property == id && k.key != "" && k.key == v.Key {
				fmt.Printf("KNOWN-FINDING: property=%s %s (key=%s, %s)\n", id, k.text, k.key, v.Label)
				matched = true
				break
			}
		}
		if matched {
			continue
		}
		nViol++
		conf := ""
		if v.nativeState == "confirmed" {
			conf = " (reproduced natively)"
		}
		fmt.Printf("VIOLATION property=%s replay=%s\n", id, v.replayPath)
		fmt.Printf("  harness=%s kind=%s label=%q key=%q%s\n", v.Harness, v.Kind, v.Label, v.Key, conf)
		if v.Detail != "" {
			fmt.Printf("  detail: %s\n", firstLines(v.Detail, 8))
		}
		exit = 1
	}
	if extraViol > 0 {
		exit = 1
		nViol += extraViol
	}
	ev.extra = extraReports
	ev.write(reports, allViol, validated, nViol, time.Since(start), inconclusive)
	if exit == 0 && len(inconclusive) == 0 {
		fmt.Printf("PASS property=%s tier=%s wall=%.1fs\n", id, tier, time.Since(start).Seconds())
	} else if exit == 0 {
		fmt.Printf("NO-VIOLATION-BUT-INCONCLUSIVE property=%s tier=%s reasons=%v\n", id, tier, inconclusive)
	}
	return exit
}

func sameSet(a, b []string) bool {
	m := map[string]bool{}
	for _, x := range a {
		m[x] = true
	}
	n := map[string]bool{}
	for _, x := range b {
		n[x] = true
	}
	if len(m) != len(n) {
		return false
	}
	for x := range m {
		if !n[x] {
			return false
		}
	}
	return true
}

type witnessRec struct {
	harness string
	pkg     string
	rec     map[string]any
	path    string
	want    int // candidates of one harness are replayed in order until this many ran natively (not skipped)
}

type nativeResult struct {
	File     string   `json:"file"`
	Harness  string   `json:"harness"`
	Failed   []string `json:"failed"`
	Evaluated []string `json:"evaluated"`
	Reached  []string `json:"reached"`
	Notes    []string `json:"notes"`
	Panicked bool     `json:"panicked"`
	PanicVal string   `json:"panic_value"`
	Diverged string   `json:"diverged"`
	Missing  bool     `json:"missing_harness"`
	Skipped  bool     `json:"skipped"`
}

func goEnv() []string {
	return append(os.Environ(), "GOFLAGS=-mod=mod", "GOPROXY=off", "GOSUMDB=off", "GOTOOLCHAIN=local")
}

func runNative(vd, rd, tmp, pkg string, ov, testOv map[string]string, files []string) (map[string]nativeResult, error) {
	rep := map[string]string{}
	for k, v := range ov {
		rep[k] = v
	}
	for k, v := range testOv {
		rep[k] = v
	}
	ob, _ := json.Marshal(map[string]any{"Replace": rep})
	ovPath := filepath.Join(tmp, "overlay-"+strings.ReplaceAll(pkg, "/", "_")+".json")
	os.WriteFile(ovPath, ob, 0o644)
	listPath := filepath.Join(tmp, "list-"+strings.ReplaceAll(pkg, "/", "_")+".txt")
	os.WriteFile(listPath, []byte(strings.Join(files, "\n")+"\n"), 0o644)
	outPath := filepath.Join(tmp, "out-"+strings.ReplaceAll(pkg, "/", "_")+".json")
	p := "./" + pkg
	if pkg == "" || pkg == "." {
		p = "."
	}
	var out []byte
	var err error
	if _, serr := os.Stat(filepath.Join(rd, pkg)); serr != nil && pkg != "" && pkg != "." {
		// a package that exists only in the overlay: `go test` cannot chdir into it - build the test binary and run it elsewhere
		bin := filepath.Join(tmp, "replay-"+strings.ReplaceAll(pkg, "/", "_")+".test")
		build := exec.Command("timeout", "600", "go", "test", "-tags", "verif", "-overlay", ovPath, "-vet=off", "-c", "-o", bin, p)
		build.Dir = rd
		build.Env = goEnv()
		if bout, berr := build.CombinedOutput(); berr != nil {
			return nil, fmt.Errorf("go test -c failed: %v\n%s", berr, bout)
		}
		run := exec.Command("timeout", "600", bin, "-test.run", "^TestVsymReplay$", "-test.count=1")
		run.Dir = tmp
		run.Env = append(goEnv(), "VSYM_REPLAY_LIST="+listPath, "VSYM_REPLAY_OUT="+outPath)
		out, err = run.CombinedOutput()
	} else {
		cmd := exec.Command("timeout", "600", "go", "test", "-tags", "verif", "-overlay", ovPath, "-vet=off", "-count=1", "-run", "^TestVsymReplay$", p)
		cmd.Dir = rd
		cmd.Env = append(goEnv(), "VSYM_REPLAY_LIST="+listPath, "VSYM_REPLAY_OUT="+outPath)
		out, err = cmd.CombinedOutput()
	}
	if err != nil {
		return nil, fmt.Errorf("go test failed: %v\n%s", err, out)
	}
	b, err := os.ReadFile(outPath)
	if err != nil {
		return nil, fmt.Errorf("no native output: %v\n%s", err, out)
	}
	var rs []nativeResult
	if err := json.Unmarshal(b, &rs); err != nil {
		return nil, err
	}
	m := map[string]nativeResult{}
	for _, r := range rs {
		m[r.File] = r
	}
	return m, nil
}

func runExtra(vd, rd, id, tier string, seed int64, x ExtraCheck) (map[string]any, int) {
	t0 := time.Now()
	args := append([]string{}, x.Cmd[1:]...)
	cmd := exec.Command(x.Cmd[0], args...)
	cmd.Dir = vd
	cmd.Env = append(goEnv(), "VERIF_TIER="+tier, fmt.Sprintf("VERIF_SEED=%d", seed), "VERIF_DIR="+vd, "VERIF_REPO="+rd)
	out, err := cmd.CombinedOutput()
	os.Stdout.Write(out)
	code := 0
	if err != nil {
		code = 2
		if ee, ok := err.(*exec.ExitError); ok {
			code = ee.ExitCode()
		}
	}
	rep := map[string]any{"name": x.Name, "exit": code, "wall_s": time.Since(t0).Seconds()}
	// the extra check may leave a JSON report next to the evidence
	if b, err := os.ReadFile(filepath.Join(vd, "evidence", id+"."+x.Name+".json")); err == nil {
		var m map[string]any
		if json.Unmarshal(b, &m) == nil {
			rep["report"] = m
		}
	}
	return rep, code
}

// ---------------------------------------------------------------------------

type evidenceBuilder struct {
	id, tier  string
	seed      int64
	spec      *Spec
	vd, rd    string
	loadError string
	extra     []map[string]any
}

func (ev *evidenceBuilder) write(reports []*harnessReport, viols []*Violation, validated, nViol int, wall time.Duration, inconclusive []string) {
	states, transitions := 0, int64(0)
	var samples []any
	funcs := map[string]int{}
	obligations, discharged := 0, 0
	solverTime := 0.0
	queries := map[string]int{}
	for _, r := range reports {
		states += r.Paths + r.Forks
		transitions += r.Steps
		obligations += r.Asserts
		discharged += r.AssertsUnsat
		solverTime += r.SolverTime
		for k, v := range r.Queries {
			queries[k] += v
		}
		for i, s := range r.Samples {
			if i < 3 {
				s["harness"] = r.Entry
				samples = append(samples, s)
			}
		}
		for f, n := range r.Funcs {
			funcs[f] += n
		}
	}
	for _, x := range ev.extra {
		if rep, ok := x["report"].(map[string]any); ok {
			if s, ok := rep["states"].(float64); ok {
				states += int(s)
			}
			if s, ok := rep["transitions"].(float64); ok {
				transitions += int64(s)
			}
			if s, ok := rep["traces_validated_against_impl"].(float64); ok {
				validated += int(s)
			}
			if sm, ok := rep["samples"].([]any); ok {
				for i, s := range sm {
					if i < 3 {
						samples = append(samples, s)
					}
				}
			}
		}
	}
	// functions encoded: repo functions with source hash
	type fe struct {
		Name  string `json:"name"`
		Calls int    `json:"calls"`
	}
	var encoded []fe
	var deps []string
	for f, n := range funcs {
		if strings.Contains(f, repoModule) && !strings.Contains(f, "/internal/zzvr") && !strings.Contains(f, "Vsym") && !strings.Contains(f, ".vs") {
			encoded = append(encoded, fe{strings.ReplaceAll(f, repoModule, "~"), n})
		} else if !strings.Contains(f, repoModule) {
			deps = append(deps, f)
		}
	}
	sort.Slice(encoded, func(i, j int) bool { return encoded[i].Name < encoded[j].Name })
	sort.Strings(deps)
	if len(deps) > 60 {
		deps = append(deps[:60], fmt.Sprintf("… %d more", len(deps)-60))
	}
	srcHashes := map[string]string{}
	for _, f := range []string{"notation.go", "verifier/verifier.go", "verifier/helpers.go", "verifier/trustpolicy/trustpolicy.go", "verifier/trustpolicy/oci.go", "verifier/trustpolicy/blob.go",
		"verifier/truststore/truststore.go", "verifier/crl/crl.go", "plugin/manager.go", "plugin/plugin.go", "signer/plugin.go", "signer/signer.go", "registry/repository.go",
		"internal/file/file.go", "internal/pkix/pkix.go", "internal/io/limitedwriter.go", "internal/envelope/envelope.go"} {
		srcHashes[f] = fileHash(filepath.Join(ev.rd, f))
	}
	if len(samples) == 0 {
		samples = append(samples, map[string]any{"note": "no path completed"})
	}
	var vl []map[string]any
	for _, v := range viols {
		vl = append(vl, map[string]any{"harness": v.Harness, "label": v.Label, "kind": v.Kind, "key": v.Key, "native": v.nativeState, "replay": v.replayPath})
	}
	if states == 0 {
		states = 1
	}
	if transitions == 0 {
		transitions = 1
	}
	cov := map[string]any{
		"states":                        states,
		"transitions":                   transitions,
		"traces_validated_against_impl": validated,
		"samples":                       samples,
		"exhaustive":                    len(inconclusive) == 0 && ev.loadError == "",
		"explanation":                   "states = symbolic states created (paths + forks); transitions = go/ssa instructions executed symbolically; each assertion query is pc ∧ ¬assert decided by the SMT solver over all values of the symbolic inputs within the bounds",
		"harnesses":                     reports,
		"functions_encoded":             encoded,
		"dependency_functions_executed": deps,
		"source_hashes":                 srcHashes,
		"assertion_queries":             obligations,
		"assertion_queries_unsat":       discharged,
		"solver_queries":                queries,
		"solver_time_s":                 solverTime,
		"solver":                        envOr("VSYM_SOLVER", "z3-new") + " (-in, incremental push/pop; z3-new = z3 5.1.0, z3 = 4.8.12)",
		"bounds":                        ev.spec.Bounds[ev.tier],
		"outside_the_claim":             ev.spec.Outside,
		"inconclusive":                  inconclusive,
		"violation_candidates":          vl,
		"technique":                     ev.spec.Technique,
	}
	if ev.loadError != "" {
		cov["load_error"] = ev.loadError
	}
	if len(ev.extra) > 0 {
		cov["extra_checks"] = ev.extra
	}
	doc := map[string]any{
		"property_id": ev.id,
		"tier":        ev.tier,
		"seed":        ev.seed,
		"level":       "model_checking",
		"coverage":    cov,
		"assumptions": ev.spec.Assumptions,
		"wall_s":      wall.Seconds(),
		"violations":  nViol,
	}
	os.MkdirAll(filepath.Join(ev.vd, "evidence"), 0o755)
	b, _ := json.MarshalIndent(doc, "", " ")
	os.WriteFile(filepath.Join(ev.vd, "evidence", ev.id+".json"), b, 0o644)
}

func containsStr(a []string, x string) bool {
	for _, y := range a {
		if y == x {
			return true
		}
	}
	return false
}

func engineOnlyLabel(spec *Spec, harness, label string) bool {
	for _, h := range spec.Harnesses {
		if h.Entry == harness && containsStr(h.EngineOnly, label) {
			return true
		}
	}
	return false
}
