package main

import (
	"fmt"
	"go/token"
	"go/types"
	"math"

	"golang.org/x/tools/go/ssa"
)

func (ex *Exec) unop(instr *ssa.UnOp, x Value) Value {
	tc := ex.tc
	switch instr.Op {
	case token.NOT:
		return tc.Not(x.(*Term))
	case token.SUB:
		switch x := x.(type) {
		case *Term:
			return tc.Neg(x)
		case float64:
			return -x
		}
	case token.XOR:
		return tc.BNot(x.(*Term))
	case token.MUL:
		p := x.(*Value)
		if p == nil {
			ex.goPanicStr("runtime error: invalid memory address or nil pointer dereference")
		}
		return load(p)
	case token.ARROW:
		ex.unsupported("channel receive")
	}
	panic(fmt.Sprintf("unop %s on %T", instr.Op, x))
}

// toInt64 converts an integer term of static type t to a 64-bit term.
func (ex *Exec) toInt64(x *Term, t types.Type) *Term {
	if x.sort == 64 {
		return x
	}
	if isSigned(t) {
		return ex.tc.SExt(x, 64)
	}
	return ex.tc.ZExt(x, 64)
}

func (ex *Exec) binop(op token.Token, t types.Type, x, y Value) Value {
	tc := ex.tc
	switch xv := x.(type) {
	case *Term:
		yv := y.(*Term)
		if xv.sort == 0 {
			switch op {
			case token.EQL:
				return tc.Eq(xv, yv)
			case token.NEQ:
				return tc.Not(tc.Eq(xv, yv))
			case token.AND, token.LAND:
				return tc.And(xv, yv)
			case token.OR, token.LOR:
				return tc.Or(xv, yv)
			}
			panic("bool binop " + op.String())
		}
		signed := isSigned(t)
		switch op {
		case token.SHL, token.SHR:
			w := xv.sort
			var big *Term
			sh := yv
			if yv.sort > w {
				big = tc.Not(tc.Ult(yv, tc.BV(uint64(w), yv.sort)))
				sh = tc.Extract(yv, w)
			} else if yv.sort < w {
				sh = tc.ZExt(yv, w)
			}
			var r *Term
			if op == token.SHL {
				r = tc.Shl(xv, sh)
			} else if signed {
				r = tc.AShr(xv, sh)
			} else {
				r = tc.LShr(xv, sh)
			}
			if big != nil {
				var ov *Term
				if op == token.SHR && signed {
					ov = tc.AShr(xv, tc.BV(uint64(w-1), w))
				} else {
					ov = tc.BV(0, w)
				}
				r = tc.Ite(big, ov, r)
			}
			return r
		}
		if xv.sort != yv.sort {
			panic(fmt.Sprintf("binop %s width mismatch %d/%d", op, xv.sort, yv.sort))
		}
		switch op {
		case token.ADD:
			return tc.Add(xv, yv)
		case token.SUB:
			return tc.Sub(xv, yv)
		case token.MUL:
			return tc.Mul(xv, yv)
		case token.QUO, token.REM:
			zero := tc.Eq(yv, tc.BV(0, yv.sort))
			if zero.IsTrue() {
				ex.goPanicStr("runtime error: integer divide by zero")
			}
			if !zero.IsConst() {
				if ex.decide([]*Term{tc.Not(zero), zero}, "div0") == 1 {
					ex.goPanicStr("runtime error: integer divide by zero")
				}
			}
			if op == token.QUO {
				if signed {
					return tc.SDiv(xv, yv)
				}
				return tc.UDiv(xv, yv)
			}
			if signed {
				return tc.SRem(xv, yv)
			}
			return tc.URem(xv, yv)
		case token.AND:
			return tc.BAnd(xv, yv)
		case token.OR:
			return tc.BOr(xv, yv)
		case token.XOR:
			return tc.BXor(xv, yv)
		case token.AND_NOT:
			return tc.BAnd(xv, tc.BNot(yv))
		case token.EQL:
			return tc.Eq(xv, yv)
		case token.NEQ:
			return tc.Not(tc.Eq(xv, yv))
		case token.LSS:
			if signed {
				return tc.Slt(xv, yv)
			}
			return tc.Ult(xv, yv)
		case token.LEQ:
			if signed {
				return tc.Sle(xv, yv)
			}
			return tc.Ule(xv, yv)
		case token.GTR:
			if signed {
				return tc.Slt(yv, xv)
			}
			return tc.Ult(yv, xv)
		case token.GEQ:
			if signed {
				return tc.Sle(yv, xv)
			}
			return tc.Ule(yv, xv)
		}
	case float64:
		yv := y.(float64)
		switch op {
		case token.ADD:
			return xv + yv
		case token.SUB:
			return xv - yv
		case token.MUL:
			return xv * yv
		case token.QUO:
			return xv / yv
		case token.EQL:
			return tc.Bool(xv == yv)
		case token.NEQ:
			return tc.Bool(xv != yv)
		case token.LSS:
			return tc.Bool(xv < yv)
		case token.LEQ:
			return tc.Bool(xv <= yv)
		case token.GTR:
			return tc.Bool(xv > yv)
		case token.GEQ:
			return tc.Bool(xv >= yv)
		}
	case Str:
		yv := y.(Str)
		switch op {
		case token.ADD:
			return ex.strConcat(xv, yv)
		case token.EQL:
			return ex.strEq(xv, yv)
		case token.NEQ:
			return tc.Not(ex.strEq(xv, yv))
		case token.LSS:
			return ex.strLess(xv, yv, false)
		case token.LEQ:
			return ex.strLess(xv, yv, true)
		case token.GTR:
			return ex.strLess(yv, xv, false)
		case token.GEQ:
			return ex.strLess(yv, xv, true)
		}
	}
	switch op {
	case token.EQL:
		return ex.eqValue(x, y)
	case token.NEQ:
		return tc.Not(ex.eqValue(x, y))
	}
	panic(fmt.Sprintf("binop %s on %T,%T", op, x, y))
}

func (ex *Exec) eqValue(x, y Value) *Term {
	tc := ex.tc
	switch xv := x.(type) {
	case nil:
		return tc.Bool(y == nil)
	case *Term:
		yv, ok := y.(*Term)
		if !ok || xv.sort != yv.sort {
			return tc.False
		}
		return tc.Eq(xv, yv)
	case float64:
		yv, ok := y.(float64)
		return tc.Bool(ok && xv == yv)
	case Str:
		yv, ok := y.(Str)
		if !ok {
			return tc.False
		}
		return ex.strEq(xv, yv)
	case *Value:
		yv, ok := y.(*Value)
		return tc.Bool(ok && xv == yv)
	case Struct:
		yv, ok := y.(Struct)
		if !ok || len(xv) != len(yv) {
			return tc.False
		}
		r := tc.True
		for i := range xv {
			r = tc.And(r, ex.eqValue(xv[i], yv[i]))
			if r.IsFalse() {
				break
			}
		}
		return r
	case Array:
		yv, ok := y.(Array)
		if !ok || len(xv) != len(yv) {
			return tc.False
		}
		r := tc.True
		for i := range xv {
			r = tc.And(r, ex.eqValue(xv[i], yv[i]))
			if r.IsFalse() {
				break
			}
		}
		return r
	case Iface:
		yv, ok := y.(Iface)
		if !ok {
			return tc.False
		}
		if xv.t == nil || yv.t == nil {
			return tc.Bool(xv.t == nil && yv.t == nil)
		}
		if !types.Identical(xv.t, yv.t) {
			return tc.False
		}
		return ex.eqValue(xv.v, yv.v)
	case *Map:
		yv, ok := y.(*Map)
		return tc.Bool(ok && xv == yv)
	case *Closure:
		yv, ok := y.(*Closure)
		return tc.Bool(ok && xv == yv)
	case *Chan:
		yv, ok := y.(*Chan)
		return tc.Bool(ok && xv == yv)
	case symFloat:
		yv, ok := y.(symFloat)
		if !ok {
			if f, isF := y.(float64); isF && f == float64(int64(f)) {
				return tc.Eq(xv.n, tc.BV(uint64(int64(f)), 64))
			}
			return tc.False
		}
		return tc.Eq(xv.n, yv.n)
	case Slice:
		yv, ok := y.(Slice)
		// only comparison with nil is legal
		return tc.Bool(ok && xv.a == nil && yv.a == nil)
	}
	panic(fmt.Sprintf("eqValue on %T", x))
}

func (ex *Exec) conv(dst, src types.Type, x Value) Value {
	tc := ex.tc
	ud, us := dst.Underlying(), src.Underlying()
	if tp, ok := ud.(*types.TypeParam); ok {
		_ = tp
		ex.unsupported("conversion to type parameter")
	}
	switch xv := x.(type) {
	case *Term:
		if xv.sort == 0 {
			return xv
		}
		if isInteger(ud) {
			w := widthOf(ud)
			if w <= xv.sort {
				return tc.Extract(xv, w)
			}
			if isSigned(us) {
				return tc.SExt(xv, w)
			}
			return tc.ZExt(xv, w)
		}
		if isString(ud) {
			if !xv.IsConst() {
				ex.unsupported("string(symbolic rune)")
			}
			return mkStr(string(rune(xv.Int64())))
		}
		if isFloat(ud) {
			if !xv.IsConst() {
				ex.unsupported("float(symbolic int)")
			}
			if isSigned(us) {
				return float64(xv.Int64())
			}
			return float64(xv.val)
		}
		if _, ok := ud.(*types.Pointer); ok {
			ex.unsupported("int to pointer")
		}
		if b, ok := ud.(*types.Basic); ok && b.Kind() == types.UnsafePointer {
			ex.unsupported("int to unsafe.Pointer")
		}
	case float64:
		if isFloat(ud) {
			if b := ud.(*types.Basic); b.Kind() == types.Float32 {
				return float64(float32(xv))
			}
			return xv
		}
		if isInteger(ud) {
			w := widthOf(ud)
			if isSigned(ud) {
				return tc.BV(uint64(int64(xv)), w)
			}
			if xv >= math.Pow(2, 63) {
				return tc.BV(uint64(xv), w)
			}
			return tc.BV(uint64(int64(xv)), w)
		}
	case Str:
		if isString(ud) {
			return xv
		}
		if sl, ok := ud.(*types.Slice); ok {
			switch sl.Elem().Underlying().(*types.Basic).Kind() {
			case types.Byte:
				return ex.strToByteSlice(xv)
			case types.Rune:
				cs, ok := ex.strConcrete(xv)
				if !ok {
					// symbolic: supported when every byte within the length is provably ASCII
					ex.checkOpaque(xv, "[]rune()")
					n, b := ex.symParts(xv)
					ex.requireASCII(n, b, "[]rune(symbolic string)")
					a := make([]Value, len(b))
					for i := range b {
						a[i] = tc.ZExt(b[i], 32)
					}
					return Slice{a: a, n: n}
				}
				var a []Value
				for _, r := range cs {
					a = append(a, tc.BV(uint64(r), 32))
				}
				if a == nil {
					a = []Value{}
				}
				return Slice{a: a, n: tc.BV(uint64(len(a)), 64)}
			}
		}
	case Slice:
		if isString(ud) {
			et := us.(*types.Slice).Elem().Underlying().(*types.Basic)
			if et.Kind() == types.Byte {
				return ex.byteSliceToStr(xv)
			}
			// []rune
			allConst := xv.n.IsConst()
			if allConst {
				for i := 0; i < int(xv.n.val); i++ {
					if !xv.a[i].(*Term).IsConst() {
						allConst = false
					}
				}
			}
			if allConst {
				n := int(xv.n.val)
				rs := make([]rune, n)
				for i := 0; i < n; i++ {
					rs[i] = rune(xv.a[i].(*Term).Int64())
				}
				return mkStr(string(rs))
			}
			b := make([]*Term, len(xv.a))
			wide := make([]*Term, len(xv.a))
			for i := range b {
				t, ok := xv.a[i].(*Term)
				if !ok {
					t = tc.BV(0, 32)
				}
				wide[i] = t
				b[i] = tc.Extract(t, 8)
			}
			// every rune within the length must be provably < 0x80
			bad := tc.False
			for i, t := range wide {
				in := tc.Ult(tc.BV(uint64(i), 64), xv.n)
				bad = tc.Or(bad, tc.And(in, tc.Not(tc.Ult(t, tc.BV(0x80, 32)))))
			}
			if !bad.IsFalse() && ex.sol.CheckWith(bad) != Unsat {
				ex.unsupported("string(symbolic []rune) with possibly non-ASCII runes")
			}
			return ex.normStr(xv.n, b, nil)
		}
		if _, ok := ud.(*types.Slice); ok {
			return xv
		}
		if _, ok := ud.(*types.Array); ok {
			// slice to array conversion
			n := int(ud.(*types.Array).Len())
			ln := ex.concretizeInt(xv.n, "slice2array")
			if ln < n {
				ex.goPanicStr("runtime error: cannot convert slice to array: length too short")
			}
			a := make(Array, n)
			for i := range a {
				a[i] = copyVal(xv.a[i])
			}
			return a
		}
	case *Value, Struct, Array, *Map, *Closure, Iface, *Chan:
		return x
	}
	panic(fmt.Sprintf("conv %s -> %s (%T)", src, dst, x))
}

func (ex *Exec) implements(t types.Type, it *types.Interface) bool {
	key := [2]any{t, it}
	if r, ok := ex.w.implCache[key]; ok {
		return r
	}
	r := types.Implements(t, it)
	ex.w.implCache[key] = r
	return r
}

func (ex *Exec) typeAssert(instr *ssa.TypeAssert, x Iface) Value {
	tc := ex.tc
	var ok bool
	var v Value
	if it, isIface := instr.AssertedType.Underlying().(*types.Interface); isIface {
		ok = x.t != nil && ex.implements(x.t, it)
		v = x
	} else {
		ok = x.t != nil && types.Identical(x.t, instr.AssertedType)
		v = x.v
	}
	if instr.CommaOk {
		if ok {
			return Tuple{v, tc.True}
		}
		return Tuple{ex.zero(instr.AssertedType), tc.False}
	}
	if !ok {
		got := "nil"
		if x.t != nil {
			got = x.t.String()
		}
		ex.goPanicStr(fmt.Sprintf("interface conversion: interface is %s, not %s", got, instr.AssertedType))
	}
	return v
}

// idx64 normalises an index term to 64 bits.
func (ex *Exec) idx64(i *Term, t types.Type) *Term {
	if i.sort == 64 {
		return i
	}
	if t != nil && !isSigned(t) {
		return ex.tc.ZExt(i, 64)
	}
	return ex.tc.SExt(i, 64)
}

// boundsCheck forks on 0 <= i < n and panics on the out-of-range side.
func (ex *Exec) boundsCheck(i, n *Term, what string) {
	tc := ex.tc
	// unsigned comparison covers negative indices
	inb := tc.Ult(i, n)
	if inb.IsTrue() {
		return
	}
	if inb.IsFalse() || ex.decide([]*Term{inb, tc.Not(inb)}, "bounds") == 1 {
		ex.goPanicStr("runtime error: index out of range (" + what + ")")
	}
}

func (ex *Exec) indexAddr(x Value, idx *Term, it types.Type) Value {
	tc := ex.tc
	idx = ex.idx64(idx, it)
	switch xv := x.(type) {
	case Slice:
		if xv.abs != nil && len(xv.a) == 0 {
			ex.unsupported("inspecting the bytes of an abstract (JSON-model) document")
		}
		ex.boundsCheck(idx, xv.n, "slice")
		i := ex.concretizeRange(idx, 0, len(xv.a)-1, "index")
		return &xv.a[i]
	case *Value:
		if xv == nil {
			ex.goPanicStr("runtime error: invalid memory address or nil pointer dereference")
		}
		arr := (*xv).(Array)
		ex.boundsCheck(idx, tc.BV(uint64(len(arr)), 64), "array")
		i := ex.concretizeRange(idx, 0, len(arr)-1, "index")
		return &arr[i]
	}
	panic(fmt.Sprintf("indexAddr on %T", x))
}

func (ex *Exec) indexOp(x Value, idx *Term, it types.Type) Value {
	tc := ex.tc
	idx = ex.idx64(idx, it)
	switch xv := x.(type) {
	case Array:
		ex.boundsCheck(idx, tc.BV(uint64(len(xv)), 64), "array")
		if idx.IsConst() {
			return copyVal(xv[idx.val])
		}
		// symbolic index into an array value of scalars: ite chain
		if len(xv) > 0 {
			if _, ok := xv[0].(*Term); ok {
				r := xv[len(xv)-1].(*Term)
				for i := len(xv) - 2; i >= 0; i-- {
					r = tc.Ite(tc.Eq(idx, tc.BV(uint64(i), 64)), xv[i].(*Term), r)
				}
				return r
			}
		}
		i := ex.concretizeRange(idx, 0, len(xv)-1, "index")
		return copyVal(xv[i])
	case Str:
		return ex.strIndex(xv, idx)
	}
	panic(fmt.Sprintf("indexOp on %T", x))
}

func (ex *Exec) lookupOp(instr *ssa.Lookup, x Value, key Value) Value {
	tc := ex.tc
	switch xv := x.(type) {
	case Str:
		return ex.strIndex(xv, ex.idx64(key.(*Term), instr.Index.Type()))
	case *Map:
		var v Value
		found := false
		if xv != nil {
			if i := ex.mapFind(xv, key); i >= 0 {
				v = copyVal(xv.vals[i])
				found = true
			}
		}
		if !found {
			v = ex.zero(instr.X.Type().Underlying().(*types.Map).Elem())
		}
		if instr.CommaOk {
			return Tuple{v, tc.Bool(found)}
		}
		return v
	}
	panic(fmt.Sprintf("lookup on %T", x))
}

func (ex *Exec) sliceOp(instr *ssa.Slice, x, lo, hi, max Value) Value {
	tc := ex.tc
	term := func(v Value, t ssa.Value) *Term {
		if v == nil {
			return nil
		}
		return ex.idx64(v.(*Term), t.Type())
	}
	var lot, hit, maxt *Term
	if instr.Low != nil {
		lot = term(lo, instr.Low)
	}
	if instr.High != nil {
		hit = term(hi, instr.High)
	}
	if instr.Max != nil {
		maxt = term(max, instr.Max)
	}
	switch xv := x.(type) {
	case Str:
		return ex.strSlice(xv, lot, hit)
	case Slice:
		return ex.sliceWindow(xv.a, xv.n, xv.a == nil, lot, hit, maxt, xv.abs)
	case *Value:
		if xv == nil {
			ex.goPanicStr("runtime error: invalid memory address or nil pointer dereference (slice of nil array pointer)")
		}
		arr := (*xv).(Array)
		return ex.sliceWindow([]Value(arr), tc.BV(uint64(len(arr)), 64), false, lot, hit, maxt, nil)
	}
	panic(fmt.Sprintf("slice of %T", x))
}

// OpaqueBuf marks a []byte whose content is not inspectable and whose length and capacity are free terms
// (vr.OpaqueBytes): only len, cap and re-slicing are meaningful on it.
type OpaqueBuf struct{ cap *Term }

func (ex *Exec) sliceWindow(a []Value, n *Term, isNil bool, lo, hi, max *Term, abs any) Value {
	tc := ex.tc
	if ob, ok := abs.(*OpaqueBuf); ok {
		if lo == nil {
			lo = tc.BV(0, 64)
		}
		if hi == nil {
			hi = n
		}
		mx := ob.cap
		if max != nil {
			mx = max
		}
		okc := tc.And(tc.And(tc.Ule(lo, hi), tc.Ule(hi, mx)), tc.Ule(mx, ob.cap))
		if okc.IsFalse() {
			ex.goPanicStr("runtime error: slice bounds out of range")
		}
		if !okc.IsConst() {
			if ex.decide([]*Term{okc, tc.Not(okc)}, "slice-bounds") == 1 {
				ex.goPanicStr("runtime error: slice bounds out of range")
			}
		}
		return Slice{a: []Value{}, n: tc.Sub(hi, lo), abs: &OpaqueBuf{cap: tc.Sub(mx, lo)}}
	}
	capN := len(a)
	if lo == nil {
		lo = tc.BV(0, 64)
	}
	if hi == nil {
		hi = n
	}
	mx := capN
	if max != nil {
		mx = ex.concretizeInt(max, "slice-max")
		if mx < 0 || mx > capN {
			ex.goPanicStr("runtime error: slice bounds out of range [::max]")
		}
	}
	// 0 <= lo <= hi <= max
	okc := tc.And(tc.Ule(lo, hi), tc.Ule(hi, tc.BV(uint64(mx), 64)))
	if okc.IsFalse() {
		ex.goPanicStr("runtime error: slice bounds out of range")
	}
	if !okc.IsConst() {
		if ex.decide([]*Term{okc, tc.Not(okc)}, "slice-bounds") == 1 {
			ex.goPanicStr("runtime error: slice bounds out of range")
		}
	}
	l := ex.concretizeRange(lo, 0, mx, "slice-lo")
	if isNil {
		return Slice{n: tc.BV(0, 64)}
	}
	full := lo.IsConst() && lo.val == 0 && hi == n
	if !full {
		abs = nil
	}
	return Slice{a: a[l:mx:mx], n: tc.Sub(hi, tc.BV(uint64(l), 64)), abs: abs}
}

// ---------------------------------------------------------------------------
// concretisation

func (ex *Exec) concretizeInt(t *Term, why string) int {
	if t.IsConst() {
		return int(t.Int64())
	}
	return int(int64(ex.concretizeAny(t, why)))
}

// concretizeRange forks over the values lo..hi of t (t is known to be within the range on this path
// or the other values are infeasible).
func (ex *Exec) concretizeRange(t *Term, lo, hi int, why string) int {
	if t.IsConst() {
		return int(t.Int64())
	}
	if hi < lo {
		panic(pathEnd{endInfeasible, "empty concretisation range"})
	}
	if hi-lo > 256 {
		return int(int64(ex.concretizeAny(t, why)))
	}
	conds := make([]*Term, 0, hi-lo+1)
	for v := lo; v <= hi; v++ {
		conds = append(conds, ex.tc.Eq(t, ex.tc.BV(uint64(v), t.sort)))
	}
	return lo + ex.decide(conds, "concretize-"+why)
}

// requireASCII ends the path as unsupported unless every byte within the length is provably < 0x80.
func (ex *Exec) requireASCII(n *Term, b []*Term, what string) {
	tc := ex.tc
	bad := tc.False
	for i, t := range b {
		if t.IsConst() {
			if t.val >= 0x80 {
				in := tc.Ult(tc.BV(uint64(i), 64), n)
				bad = tc.Or(bad, in)
			}
			continue
		}
		in := tc.Ult(tc.BV(uint64(i), 64), n)
		bad = tc.Or(bad, tc.And(in, tc.Not(tc.Ult(t, tc.BV(0x80, 8)))))
	}
	if bad.IsFalse() {
		return
	}
	if bad.IsTrue() {
		ex.unsupported(what + ": non-ASCII bytes")
	}
	// the ASCII part of the input space is explored; the rest ends as unsupported (inconclusive), not the whole
	if ex.decide([]*Term{tc.Not(bad), bad}, "ascii-only") == 1 {
		ex.unsupported(what + ": possibly non-ASCII bytes (constrain the alphabet)")
	}
}
