package main

// Long-lived SMT solver process (z3 -in by default) with push/pop and lazy
// emission of hash-consed terms as define-funs.

import (
	"bufio"
	"fmt"
	"io"
	"os"
	"os/exec"
	"regexp"
	"strconv"
	"strings"
	"time"
)

type SolverStats struct {
	Sat, Unsat, Unknown, Errors int
	Time                        time.Duration
	Queries                     int
}

type Solver struct {
	cmd     *exec.Cmd
	in      io.WriteCloser
	out     *bufio.Reader
	buf     strings.Builder
	emitted map[int32]int // term id -> level at which it was emitted
	levels  [][]int32     // ids emitted per level
	stats   SolverStats
	sawErr  bool
	timeout int // ms
	log     io.Writer
	kind    string
	lines   [][]string // declare/define/assert lines per level (for the fallback solver)
	fbModel map[string]uint64
	fbUsed  int
}

func NewSolver(kind string, timeoutMs int) (*Solver, error) {
	var cmd *exec.Cmd
	switch kind {
	case "z3", "":
		kind = "z3"
		cmd = exec.Command("z3", "-in", fmt.Sprintf("-t:%d", timeoutMs))
	case "z3-new":
		cmd = exec.Command("z3-new", "-in", fmt.Sprintf("-t:%d", timeoutMs))
	case "cvc5":
		cmd = exec.Command("cvc5", "--incremental", "--lang=smt2", fmt.Sprintf("--tlimit-per=%d", timeoutMs))
	default:
		return nil, fmt.Errorf("unknown solver %q", kind)
	}
	in, err := cmd.StdinPipe()
	if err != nil {
		return nil, err
	}
	outp, err := cmd.StdoutPipe()
	if err != nil {
		return nil, err
	}
	cmd.Stderr = os.Stderr
	if err := cmd.Start(); err != nil {
		return nil, err
	}
	s := &Solver{cmd: cmd, in: in, out: bufio.NewReaderSize(outp, 1<<16), emitted: map[int32]int{}, levels: [][]int32{nil}, timeout: timeoutMs, kind: kind}
	if kind != "cvc5" {
		s.send(fmt.Sprintf("(set-option :timeout %d)", timeoutMs))
	} else {
		s.send("(set-logic ALL)")
	}
	s.send("(set-option :produce-models true)")
	return s, nil
}

func (s *Solver) Close() {
	if s.cmd != nil {
		s.in.Close()
		s.cmd.Process.Kill()
		s.cmd.Wait()
		s.cmd = nil
	}
}

func (s *Solver) send(line string) {
	s.buf.WriteString(line)
	s.buf.WriteByte('\n')
	if len(line) > 3 && (line[1] == 'd' || line[1] == 'a') { // declare-const, define-fun, assert
		if len(s.lines) == 0 {
			s.lines = [][]string{nil}
		}
		s.lines[len(s.lines)-1] = append(s.lines[len(s.lines)-1], line)
	}
}

func (s *Solver) flush() {
	if s.buf.Len() == 0 {
		return
	}
	str := s.buf.String()
	s.buf.Reset()
	if s.log != nil {
		io.WriteString(s.log, str)
	}
	if _, err := io.WriteString(s.in, str); err != nil {
		panic(fmt.Sprintf("solver write: %v", err))
	}
}

func (s *Solver) Level() int { return len(s.levels) - 1 }

func (s *Solver) Push() {
	s.send("(push 1)")
	s.levels = append(s.levels, nil)
	if len(s.lines) == 0 {
		s.lines = [][]string{nil}
	}
	s.lines = append(s.lines, nil)
}

func (s *Solver) Pop() {
	if len(s.levels) <= 1 {
		panic("solver pop underflow")
	}
	top := s.levels[len(s.levels)-1]
	for _, id := range top {
		delete(s.emitted, id)
	}
	s.levels = s.levels[:len(s.levels)-1]
	if len(s.lines) > 1 {
		s.lines = s.lines[:len(s.lines)-1]
	}
	s.send("(pop 1)")
}

func (s *Solver) PopTo(level int) {
	for s.Level() > level {
		s.Pop()
	}
}

// emit makes sure t (and its sub-terms) are defined at the current level.
func (s *Solver) emit(t *Term) {
	if t.op == OpConst {
		return
	}
	if _, ok := s.emitted[t.id]; ok {
		return
	}
	// iterative post-order to avoid deep recursion
	type fr struct {
		t *Term
		i int
	}
	stack := []fr{{t, 0}}
	for len(stack) > 0 {
		f := &stack[len(stack)-1]
		ch := [3]*Term{f.t.a, f.t.b, f.t.c}
		advanced := false
		for f.i < 3 {
			x := ch[f.i]
			f.i++
			if x == nil || x.op == OpConst {
				continue
			}
			if _, ok := s.emitted[x.id]; ok {
				continue
			}
			stack = append(stack, fr{x, 0})
			advanced = true
			break
		}
		if advanced {
			continue
		}
		x := f.t
		stack = stack[:len(stack)-1]
		if _, ok := s.emitted[x.id]; ok {
			continue
		}
		if x.op == OpVar {
			s.send("(declare-const |" + x.name + "| " + sortName(x.sort) + ")")
		} else {
			s.send("(define-fun " + x.ref() + " () " + sortName(x.sort) + " " + x.body() + ")")
		}
		lv := s.Level()
		s.emitted[x.id] = lv
		s.levels[lv] = append(s.levels[lv], x.id)
	}
}

func (s *Solver) Assert(t *Term) {
	if t.IsTrue() {
		return
	}
	s.emit(t)
	s.send("(assert " + t.ref() + ")")
}

type SatResult int

const (
	Unsat SatResult = iota
	Sat
	Unknown
)

func (r SatResult) String() string { return [...]string{"unsat", "sat", "unknown"}[r] }

// solverDead is raised when the solver had to be killed (hard timeout) or died.
type solverDead struct{ msg string }

func (s *Solver) Check() SatResult {
	s.send("(check-sat)")
	s.flush()
	start := time.Now()
	s.stats.Queries++
	res := Unknown
	// hard watchdog: the soft timeout is not always honoured in incremental mode
	timer := time.AfterFunc(time.Duration(s.timeout)*time.Millisecond+5*time.Second, func() {
		if s.cmd != nil && s.cmd.Process != nil {
			s.cmd.Process.Kill()
		}
	})
	defer timer.Stop()
	for {
		line, err := s.out.ReadString('\n')
		if err != nil {
			s.stats.Unknown++
			s.stats.Time += time.Since(start)
			panic(solverDead{fmt.Sprintf("solver killed after hard timeout or died: %v", err)})
		}
		line = strings.TrimSpace(line)
		if line == "" {
			continue
		}
		if strings.HasPrefix(line, "(error") {
			s.stats.Errors++
			s.sawErr = true
			fmt.Fprintf(os.Stderr, "SOLVER ERROR: %s\n", line)
			continue
		}
		switch line {
		case "sat":
			res = Sat
		case "unsat":
			res = Unsat
		case "unknown", "timeout":
			res = Unknown
		default:
			fmt.Fprintf(os.Stderr, "SOLVER: unexpected line %q\n", line)
			continue
		}
		break
	}
	if s.sawErr {
		res = Unknown
		s.sawErr = false
	}
	s.fbModel = nil
	if res == Unknown && s.kind != "cvc5" {
		res = s.fallback()
	}
	s.stats.Time += time.Since(start)
	switch res {
	case Sat:
		s.stats.Sat++
	case Unsat:
		s.stats.Unsat++
	default:
		s.stats.Unknown++
	}
	return res
}

// CheckWith checks satisfiability of the current assertions plus extra, leaving the stack unchanged.
func (s *Solver) CheckWith(extra *Term) SatResult {
	if extra.IsFalse() {
		return Unsat
	}
	s.Push()
	s.Assert(extra)
	r := s.Check()
	s.Pop()
	return r
}

// fallback re-decides the current context with a one-shot cvc5 (much stronger on comparison-heavy
// 64-bit arithmetic); on sat the values of all declared variables are kept for Model.
func (s *Solver) fallback() SatResult {
	var sb strings.Builder
	sb.WriteString("(set-logic QF_BV)\n(set-option :produce-models true)\n")
	var names []string
	for _, lv := range s.lines {
		for _, l := range lv {
			sb.WriteString(l)
			sb.WriteByte('\n')
			if strings.HasPrefix(l, "(declare-const ") {
				rest := l[len("(declare-const "):]
				if i := strings.Index(rest[1:], "|"); i >= 0 && rest[0] == '|' {
					names = append(names, rest[:i+2])
				}
			}
		}
	}
	sb.WriteString("(check-sat)\n")
	if len(names) > 0 {
		sb.WriteString("(get-value (" + strings.Join(names, " ") + "))\n")
	}
	tl := s.timeout * 3
	cmd := exec.Command("cvc5", "--lang=smt2", fmt.Sprintf("--tlimit=%d", tl))
	cmd.Stdin = strings.NewReader(sb.String())
	out, _ := cmd.Output()
	s.fbUsed++
	txt := string(out)
	first, rest, _ := strings.Cut(txt, "\n")
	switch strings.TrimSpace(first) {
	case "unsat":
		return Unsat
	case "sat":
		s.fbModel = parseValues(rest)
		return Sat
	}
	return Unknown
}

var valueRe = regexp.MustCompile(`\(\s*(\|[^|]*\||[^\s()|]+)\s+(#x[0-9a-fA-F]+|#b[01]+|true|false)\s*\)`)

func parseValues(txt string) map[string]uint64 {
	m := map[string]uint64{}
	for _, mt := range valueRe.FindAllStringSubmatch(txt, -1) {
		name := strings.Trim(mt[1], "|")
		val := mt[2]
		switch {
		case val == "true":
			m[name] = 1
		case val == "false":
			m[name] = 0
		case strings.HasPrefix(val, "#x"):
			u, _ := strconv.ParseUint(val[2:], 16, 64)
			m[name] = u
		case strings.HasPrefix(val, "#b"):
			u, _ := strconv.ParseUint(val[2:], 2, 64)
			m[name] = u
		}
	}
	return m
}

// Model returns values of the given variables after a Sat answer (must be called before pop).
func (s *Solver) Model(vars []*Term) map[string]uint64 {
	if s.fbModel != nil {
		return s.fbModel
	}
	m := map[string]uint64{}
	if len(vars) == 0 {
		return m
	}
	// only variables that have been declared at this point are known to the solver
	var names []string
	for _, v := range vars {
		if _, ok := s.emitted[v.id]; ok {
			names = append(names, "|"+v.name+"|")
		}
	}
	if len(names) == 0 {
		return m
	}
	s.send("(get-value (" + strings.Join(names, " ") + "))")
	s.send("(echo \"#end\")")
	s.flush()
	var sb strings.Builder
	for {
		line, err := s.out.ReadString('\n')
		if err != nil {
			panic(fmt.Sprintf("solver read: %v", err))
		}
		t := strings.TrimSpace(line)
		if t == "#end" || t == "\"#end\"" {
			break
		}
		sb.WriteString(line)
	}
	for k, v := range parseValues(sb.String()) {
		m[k] = v
	}
	return m
}
