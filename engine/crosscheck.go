package main

// Solver cross-check (DESIGN.md section 6.4): the SMT-LIB2 session of one worker exploring a harness is logged
// and re-decided, as a stand-alone script, by the other solvers; any differing sat/unsat answer or any
// error line fails the self-test.

import (
	"bytes"
	"encoding/json"
	"fmt"
	"os"
	"os/exec"
	"path/filepath"
	"strings"
)

func solverAnswers(bin string, args []string, script []byte) ([]string, []string) {
	cmd := exec.Command("timeout", append([]string{"120", bin}, args...)...)
	cmd.Stdin = bytes.NewReader(script)
	out, _ := cmd.CombinedOutput()
	var ans, errs []string
	for _, l := range strings.Split(string(out), "\n") {
		l = strings.TrimSpace(l)
		switch {
		case l == "sat" || l == "unsat" || l == "unknown":
			ans = append(ans, l)
		case strings.HasPrefix(l, "(error"):
			errs = append(errs, l)
		}
	}
	return ans, errs
}

// crossCheck explores harness entry of property id with one worker (at most maxPaths paths), logging the session.
func crossCheck(id, entry string, maxPaths int, params map[string]int) int {
	vd, rd := verifDir(), repoDir()
	sb, err := os.ReadFile(filepath.Join(vd, "harness", id, "spec.json"))
	if err != nil {
		fmt.Println("crosscheck:", err)
		return 1
	}
	var spec Spec
	if json.Unmarshal(sb, &spec) != nil {
		return 1
	}
	ov := baseOverlay(vd, rd)
	for virt, real := range spec.Files {
		if !strings.HasSuffix(virt, "_test.go") {
			ov[filepath.Join(rd, virt)] = filepath.Join(vd, real)
		}
	}
	var h *HarnessSpec
	for i := range spec.Harnesses {
		if spec.Harnesses[i].Entry == entry {
			h = &spec.Harnesses[i]
		}
	}
	if h == nil {
		fmt.Println("crosscheck: no harness", entry)
		return 1
	}
	pkgPath := repoModule
	if h.Pkg != "" && h.Pkg != "." {
		pkgPath += "/" + h.Pkg
	}
	P, err := LoadProgram(rd, ov, []string{pkgPath})
	if err != nil {
		fmt.Println("crosscheck: load:", err)
		return 1
	}
	tmp, _ := os.MkdirTemp("", "vsym-cross-")
	defer os.RemoveAll(tmp)
	P.smtLog = filepath.Join(tmp, "session.smt2")
	P.params = map[string]int{}
	for k, v := range h.Quick {
		P.params[k] = v
	}
	// a smaller configuration of the same harness, if given: the point is to compare the solvers on the
	// encoding, and every solver must be able to answer within the cap
	for k, v := range params {
		P.params[k] = v
	}
	P.solverKind = "z3-new"
	fn := P.findFunc(pkgPath, entry)
	if fn == nil {
		fmt.Println("crosscheck: entry not found")
		return 1
	}
	e := NewExplorer(P, fn, entry)
	e.maxPaths = maxPaths
	e.Run(1)
	script, err := os.ReadFile(P.smtLog)
	if err != nil || len(script) == 0 {
		fmt.Println("crosscheck: no session log")
		return 1
	}
	// portable script: drop solver-specific timeout options
	var lines []string
	for _, l := range strings.Split(string(script), "\n") {
		if strings.HasPrefix(l, "(set-option :timeout") {
			continue
		}
		lines = append(lines, l)
	}
	portable := []byte(strings.Join(lines, "\n"))
	ref, refErr := solverAnswers("z3-new", []string{"-in"}, portable)
	fails := 0
	if len(refErr) > 0 {
		fmt.Printf("crosscheck %s/%s: z3-new reports errors: %v\n", id, entry, refErr[:1])
		fails++
	}
	for _, s := range [][]string{{"z3", "-in"}, {"cvc5", "--incremental", "--lang=smt2"}} {
		in := portable
		if s[0] == "cvc5" {
			in = append([]byte("(set-logic ALL)\n"), portable...)
		}
		ans, errs := solverAnswers(s[0], s[1:], in)
		if len(errs) > 0 {
			fmt.Printf("crosscheck %s/%s: %s reports errors: %v\n", id, entry, s[0], errs[:1])
			fails++
		}
		if len(ans) != len(ref) {
			// a solver that runs into the time cap has answered a prefix of the session: the prefix is compared
			// (slowness is not a disagreement); answering more than the reference would be one
			fmt.Printf("crosscheck %s/%s: %s answered %d of %d queries within the time cap\n", id, entry, s[0], len(ans), len(ref))
			if len(ans) > len(ref) {
				fails++
				continue
			}
		}
		diff := 0
		for i := range ans {
			if ans[i] != ref[i] && ans[i] != "unknown" && ref[i] != "unknown" {
				diff++
			}
		}
		if diff > 0 {
			fmt.Printf("crosscheck %s/%s: %s disagrees with z3-new on %d of %d queries\n", id, entry, s[0], diff, len(ref))
			fails++
		}
	}
	fmt.Printf("selftest solvers: %s/%s %d queries re-decided by z3 4.8.12 and cvc5, %d problems\n", id, entry, len(ref), fails)
	return fails
}
