package main

// Symbolic interpreter for go/ssa. One Exec per explored path.

import (
	"fmt"
	"go/constant"
	"go/token"
	"go/types"
	"strings"

	"golang.org/x/tools/go/ssa"
)

type pathEndKind int

const (
	endInfeasible pathEndKind = iota // assumption false / no feasible alternative
	endUnsupported
	endUnwind
	endBudget
	endStop // harness asked to stop (vr.Stop)
)

type pathEnd struct {
	kind pathEndKind
	msg  string
}

// goPanic is a panic of the interpreted program.
type goPanic struct {
	val   Value // Iface
	site  string
	stack string
}

type deferred struct {
	fn   Value
	args []Value
	site ssa.Instruction
	// invoke-mode
	method *types.Func
}

type frame struct {
	ex        *Exec
	fn        *ssa.Function
	caller    *frame
	locals    map[ssa.Value]Value
	block     *ssa.BasicBlock
	prev      *ssa.BasicBlock
	defers    []deferred
	result    Value
	panicking bool
	panicVal  *goPanic
	recovered bool
	symIf     map[ssa.Instruction]int
	curInstr  ssa.Instruction
}

func (ex *Exec) unsupported(msg string) {
	panic(pathEnd{endUnsupported, msg + ex.where()})
}

func (ex *Exec) where() string {
	if ex.cur == nil {
		return ""
	}
	var sb strings.Builder
	n := 0
	for fr := ex.cur; fr != nil && n < 8; fr = fr.caller {
		pos := token.NoPos
		if fr.curInstr != nil {
			pos = fr.curInstr.Pos()
		}
		p := ex.w.P.prog.Fset.Position(pos)
		fmt.Fprintf(&sb, "\n      at %s (%s:%d)", fr.fn.String(), shortFile(p.Filename), p.Line)
		n++
	}
	return sb.String()
}

func shortFile(f string) string {
	if i := strings.LastIndex(f, "/pkg/mod/"); i >= 0 {
		return f[i+9:]
	}
	return f
}

func (ex *Exec) goPanicStr(msg string) {
	// runtime error: a value of type runtime.Error in real Go; here a string-carrying error
	panic(&goPanic{val: Iface{t: types.Typ[types.String], v: mkStr(msg)}, site: ex.where()})
}

func (fr *frame) get(v ssa.Value) Value {
	switch v := v.(type) {
	case *ssa.Const:
		return fr.ex.constValue(v)
	case *ssa.Global:
		return fr.ex.globalAddr(v)
	case *ssa.Function:
		return &Closure{fn: v}
	case *ssa.Builtin:
		return v
	case nil:
		return nil
	}
	if r, ok := fr.locals[v]; ok {
		return r
	}
	panic(fmt.Sprintf("get: no value for %T %v in %s", v, v.Name(), fr.fn))
}

func (ex *Exec) globalAddr(g *ssa.Global) *Value {
	gm, _ := ex.globalMap(g)
	if p, ok := gm[g]; ok {
		return p
	}
	p := new(Value)
	*p = ex.zero(g.Type().(*types.Pointer).Elem())
	gm[g] = p
	ex.ensurePkgInit(g.Pkg)
	return p
}

func (ex *Exec) constValue(c *ssa.Const) Value {
	t := c.Type()
	if c.Value == nil {
		return ex.zero(t)
	}
	switch u := t.Underlying().(type) {
	case *types.Basic:
		switch {
		case u.Info()&types.IsBoolean != 0:
			return ex.tc.Bool(constant.BoolVal(c.Value))
		case u.Info()&types.IsInteger != 0:
			w := widthOf(u)
			if i, ok := constant.Int64Val(constant.ToInt(c.Value)); ok {
				return ex.tc.BV(uint64(i), w)
			}
			if i, ok := constant.Uint64Val(constant.ToInt(c.Value)); ok {
				return ex.tc.BV(i, w)
			}
			panic("const int out of range")
		case u.Info()&types.IsString != 0:
			if c.Value.Kind() == constant.String {
				return mkStr(constant.StringVal(c.Value))
			}
			return mkStr(string(rune(c.Int64())))
		case u.Info()&types.IsFloat != 0:
			f, _ := constant.Float64Val(constant.ToFloat(c.Value))
			return f
		case u.Info()&types.IsComplex != 0:
			f, _ := constant.Float64Val(constant.Real(c.Value))
			return f
		}
	case *types.TypeParam:
		ex.unsupported("const of type parameter")
	}
	panic(fmt.Sprintf("constValue: unhandled %s", c))
}

// ---------------------------------------------------------------------------

const maxDepth = 400

func (ex *Exec) callFunction(fn *ssa.Function, args []Value, env []Value, site ssa.Instruction) Value {
	// engine intrinsics / harness stubs
	// a harness stub overrides an engine intrinsic of the same function (e.g. uninterpreted sha256)
	if st := ex.w.lookupStub(fn); st != nil {
		return ex.callFunction(st, args, nil, site)
	}
	if h := ex.w.lookupIntrinsic(fn); h != nil {
		return h(ex, fn, args)
	}
	if fn.Blocks == nil {
		ex.unsupported("external function without body: " + fn.String())
	}
	if ex.w.denied(fn) {
		ex.unsupported("call into non-encodable package: " + fn.String())
	}
	ex.noteFunc(fn)
	if ex.depth > maxDepth {
		panic(pathEnd{endUnwind, "call depth exceeded in " + fn.String()})
	}
	fr := &frame{ex: ex, fn: fn, caller: ex.cur, locals: make(map[ssa.Value]Value, len(fn.Params)+8)}
	for i, p := range fn.Params {
		fr.locals[p] = args[i]
	}
	for i, fv := range fn.FreeVars {
		fr.locals[fv] = env[i]
	}
	saved := ex.cur
	ex.cur = fr
	ex.depth++
	defer func() {
		ex.depth--
		ex.cur = saved
	}()
	fr.block = fn.Blocks[0]
	fr.run()
	if fr.panicking && !fr.recovered {
		panic(fr.panicVal)
	}
	return fr.result
}

// run executes the frame until return; Go panics are routed through the recover block / defers.
func (fr *frame) run() {
	for fr.block != nil {
		fr.runBlocksGuarded()
	}
}

func (fr *frame) runBlocksGuarded() {
	defer func() {
		if fr.block == nil {
			return // normal return
		}
		r := recover()
		if r == nil {
			return
		}
		gp, ok := r.(*goPanic)
		if !ok {
			panic(r) // pathEnd or engine bug
		}
		// a Go panic: run deferred calls
		fr.panicking = true
		fr.panicVal = gp
		fr.ex.cur = fr
		fr.runDefers()
		if fr.recovered {
			fr.panicking = false
			// resume at recover block, or return zero results
			if fr.fn.Recover != nil {
				fr.prev = fr.block
				fr.block = fr.fn.Recover
				return
			}
			fr.result = fr.zeroResults()
			fr.block = nil
			return
		}
		fr.block = nil
	}()
	for fr.block != nil {
		b := fr.block
		jumped := false
		nphi := fr.evalPhis(b)
		for _, instr := range b.Instrs[nphi:] {
			fr.curInstr = instr
			fr.ex.steps++
			if fr.ex.steps > fr.ex.w.P.maxSteps {
				panic(pathEnd{endBudget, "instruction budget exceeded"})
			}
			if fr.visit(instr) {
				jumped = true
				break
			}
		}
		if !jumped {
			panic("block fell through: " + fr.fn.String())
		}
	}
}

func (fr *frame) zeroResults() Value {
	res := fr.fn.Signature.Results()
	switch res.Len() {
	case 0:
		return nil
	case 1:
		return fr.ex.zero(res.At(0).Type())
	}
	return fr.ex.zero(res)
}

func (fr *frame) runDefers() {
	for len(fr.defers) > 0 {
		d := fr.defers[len(fr.defers)-1]
		fr.defers = fr.defers[:len(fr.defers)-1]
		fr.ex.invoke(d.fn, d.args, d.site, fr)
	}
}

func (fr *frame) jump(to *ssa.BasicBlock) {
	fr.prev = fr.block
	fr.block = to
}

// visit executes one instruction; returns true if control transferred.
func (fr *frame) visit(instr ssa.Instruction) bool {
	ex := fr.ex
	tc := ex.tc
	switch instr := instr.(type) {
	case *ssa.DebugRef:
	case *ssa.UnOp:
		x := fr.get(instr.X)
		if se, ok := x.(symElemPtr); ok {
			fr.locals[instr] = ex.loadSymElem(se)
			break
		}
		fr.locals[instr] = ex.unop(instr, x)
	case *ssa.BinOp:
		fr.locals[instr] = ex.binop(instr.Op, instr.X.Type(), fr.get(instr.X), fr.get(instr.Y))
	case *ssa.Call:
		fr.locals[instr] = ex.doCall(fr, instr, &instr.Call)
	case *ssa.ChangeInterface:
		fr.locals[instr] = fr.get(instr.X)
	case *ssa.ChangeType:
		fr.locals[instr] = fr.get(instr.X)
	case *ssa.Convert:
		fr.locals[instr] = ex.conv(instr.Type(), instr.X.Type(), fr.get(instr.X))
	case *ssa.MultiConvert:
		fr.locals[instr] = ex.conv(instr.Type(), instr.X.Type(), fr.get(instr.X))
	case *ssa.SliceToArrayPointer:
		s := fr.get(instr.X).(Slice)
		n := int(instr.Type().(*types.Pointer).Elem().Underlying().(*types.Array).Len())
		ln := ex.concretizeInt(s.n, "slice2arr")
		if ln < n {
			ex.goPanicStr("runtime error: cannot convert slice to array pointer: length too short")
		}
		if s.a == nil {
			fr.locals[instr] = (*Value)(nil)
		} else {
			// arrays are separate objects in this engine: aliasing with the slice is not modelled
			ex.unsupported("SliceToArrayPointer")
		}
	case *ssa.MakeInterface:
		fr.locals[instr] = Iface{t: instr.X.Type(), v: fr.get(instr.X)}
	case *ssa.Extract:
		fr.locals[instr] = fr.get(instr.Tuple).(Tuple)[instr.Index]
	case *ssa.Slice:
		fr.locals[instr] = ex.sliceOp(instr, fr.get(instr.X), fr.get(instr.Low), fr.get(instr.High), fr.get(instr.Max))
	case *ssa.Return:
		switch len(instr.Results) {
		case 0:
		case 1:
			fr.result = fr.get(instr.Results[0])
		default:
			res := make(Tuple, len(instr.Results))
			for i, r := range instr.Results {
				res[i] = fr.get(r)
			}
			fr.result = res
		}
		fr.block = nil
		return true
	case *ssa.RunDefers:
		fr.runDefers()
	case *ssa.Panic:
		v := fr.get(instr.X)
		panic(&goPanic{val: v, site: ex.where()})
	case *ssa.Send, *ssa.Go, *ssa.Select:
		ex.unsupported(fmt.Sprintf("instruction %T", instr))
	case *ssa.Store:
		p := fr.get(instr.Addr).(*Value)
		if p == nil {
			ex.goPanicStr("runtime error: invalid memory address or nil pointer dereference")
		}
		store(p, fr.get(instr.Val))
	case *ssa.If:
		c := fr.get(instr.Cond).(*Term)
		var taken bool
		if c.IsConst() {
			taken = c.val == 1
		} else {
			if fr.symIf == nil {
				fr.symIf = map[ssa.Instruction]int{}
			}
			fr.symIf[instr]++
			if fr.symIf[instr] > ex.w.P.unwind {
				panic(pathEnd{endUnwind, fmt.Sprintf("unwinding bound %d reached", ex.w.P.unwind) + ex.where()})
			}
			taken = ex.decide([]*Term{c, tc.Not(c)}, "if") == 0
		}
		if taken {
			fr.jump(fr.block.Succs[0])
		} else {
			fr.jump(fr.block.Succs[1])
		}
		return true
	case *ssa.Jump:
		fr.jump(fr.block.Succs[0])
		return true
	case *ssa.Defer:
		fn, args := ex.prepareCall(fr, &instr.Call)
		fr.defers = append(fr.defers, deferred{fn: fn, args: args, site: instr})
	case *ssa.Alloc:
		p := new(Value)
		*p = ex.zero(instr.Type().(*types.Pointer).Elem())
		fr.locals[instr] = p
	case *ssa.MakeSlice:
		ln := ex.concretizeInt(fr.get(instr.Len).(*Term), "makeslice-len")
		cp := ex.concretizeInt(fr.get(instr.Cap).(*Term), "makeslice-cap")
		if ln < 0 || cp < ln {
			ex.goPanicStr("runtime error: makeslice: len out of range")
		}
		if cp > 1<<20 {
			ex.unsupported("makeslice too large")
		}
		a := make([]Value, cp)
		et := instr.Type().Underlying().(*types.Slice).Elem()
		if cp > 0 {
			z := ex.zero(et)
			for i := range a {
				a[i] = copyVal(z)
			}
		}
		fr.locals[instr] = Slice{a: a, n: tc.BV(uint64(ln), 64)}
	case *ssa.MakeMap:
		fr.locals[instr] = newMap()
	case *ssa.MakeChan:
		ex.unsupported("MakeChan")
	case *ssa.Range:
		fr.locals[instr] = ex.rangeIter(fr.get(instr.X), instr.X.Type())
	case *ssa.Next:
		fr.locals[instr] = fr.get(instr.Iter).(*iter).next(ex)
	case *ssa.FieldAddr:
		p := fr.get(instr.X).(*Value)
		if p == nil {
			ex.goPanicStr("runtime error: invalid memory address or nil pointer dereference")
		}
		fr.locals[instr] = &(*p).(Struct)[instr.Field]
	case *ssa.Field:
		fr.locals[instr] = copyVal(fr.get(instr.X).(Struct)[instr.Field])
	case *ssa.IndexAddr:
		idx := fr.get(instr.Index).(*Term)
		if !idx.IsConst() && onlyLoaded(instr) {
			if se, ok := ex.symElem(fr.get(instr.X), idx, instr.Index.Type()); ok {
				fr.locals[instr] = se
				break
			}
		}
		fr.locals[instr] = ex.indexAddr(fr.get(instr.X), idx, instr.Index.Type())
	case *ssa.Index:
		fr.locals[instr] = ex.indexOp(fr.get(instr.X), fr.get(instr.Index).(*Term), instr.Index.Type())
	case *ssa.Lookup:
		fr.locals[instr] = ex.lookupOp(instr, fr.get(instr.X), fr.get(instr.Index))
	case *ssa.MapUpdate:
		m := fr.get(instr.Map).(*Map)
		if m == nil {
			ex.goPanicStr("assignment to entry in nil map")
		}
		ex.mapInsert(m, fr.get(instr.Key), copyVal(fr.get(instr.Value)))
	case *ssa.TypeAssert:
		fr.locals[instr] = ex.typeAssert(instr, fr.get(instr.X).(Iface))
	case *ssa.MakeClosure:
		var env []Value
		for _, b := range instr.Bindings {
			env = append(env, fr.get(b))
		}
		fr.locals[instr] = &Closure{fn: instr.Fn.(*ssa.Function), env: env}
	case *ssa.Phi:
		panic("phi not at block start")
	default:
		panic(fmt.Sprintf("unexpected instruction: %T", instr))
	}
	return false
}

// Phi nodes must be evaluated simultaneously; go/ssa places them first in the block and
// the sequential evaluation above is only correct if no phi reads another phi of the same
// block that was already overwritten. Handle by pre-reading: see runBlocksGuarded (phis read
// from locals of the previous iteration because each phi writes only its own slot and reads
// edges, which may be phis of the same block). To be safe we evaluate them in two phases.
func (fr *frame) evalPhis(b *ssa.BasicBlock) int {
	var vals []Value
	var phis []*ssa.Phi
	for _, instr := range b.Instrs {
		phi, ok := instr.(*ssa.Phi)
		if !ok {
			break
		}
		for i, pred := range b.Preds {
			if fr.prev == pred {
				vals = append(vals, fr.get(phi.Edges[i]))
				break
			}
		}
		phis = append(phis, phi)
	}
	for i, phi := range phis {
		fr.locals[phi] = vals[i]
	}
	return len(phis)
}

// prepareCall evaluates the callee and arguments of a call.
func (ex *Exec) prepareCall(fr *frame, call *ssa.CallCommon) (Value, []Value) {
	var args []Value
	var fn Value
	if call.IsInvoke() {
		recv := fr.get(call.Value).(Iface)
		if recv.t == nil {
			ex.goPanicStr("runtime error: invalid memory address or nil pointer dereference (method call on nil interface)")
		}
		m := ex.w.P.lookupMethod(recv.t, call.Method)
		if m == nil {
			panic(fmt.Sprintf("method %s not found on %s", call.Method, recv.t))
		}
		fn = &Closure{fn: m}
		args = append(args, recv.v)
	} else {
		fn = fr.get(call.Value)
	}
	for _, a := range call.Args {
		args = append(args, copyVal(fr.get(a)))
	}
	return fn, args
}

func (ex *Exec) doCall(fr *frame, site ssa.CallInstruction, call *ssa.CallCommon) (res Value) {
	fn, args := ex.prepareCall(fr, call)
	if fr.fn.Synthetic == "package initializer" {
		// inside a package initialiser: other packages are initialised lazily, and calls that cannot
		// be encoded yield zero values instead of ending the path
		if c, ok := fn.(*Closure); ok && c != nil && c.fn != nil && c.fn.Synthetic == "package initializer" {
			return nil
		}
		defer func() {
			if r := recover(); r != nil {
				if pe, ok := r.(pathEnd); ok && pe.kind == endUnsupported {
					ex.cur = fr
					res = ex.zeroOfResults(call.Signature().Results())
					return
				}
				panic(r)
			}
		}()
	}
	return ex.invoke(fn, args, site, fr)
}

func (ex *Exec) zeroOfResults(res *types.Tuple) Value {
	switch res.Len() {
	case 0:
		return nil
	case 1:
		return ex.zero(res.At(0).Type())
	}
	return ex.zero(res)
}

func (ex *Exec) invoke(fn Value, args []Value, site ssa.Instruction, fr *frame) Value {
	switch f := fn.(type) {
	case *ssa.Builtin:
		return ex.callBuiltin(fr, f, args, site)
	case *Closure:
		if f == nil {
			ex.goPanicStr("runtime error: invalid memory address or nil pointer dereference (call of nil func)")
		}
		if f.native != nil {
			return f.native(ex, args)
		}
		return ex.callFunction(f.fn, args, f.env, site)
	}
	panic(fmt.Sprintf("invoke: bad callee %T", fn))
}

// call is used by intrinsics to call back into interpreted code.
func (ex *Exec) call(fn Value, args ...Value) Value {
	return ex.invoke(fn, args, nil, ex.cur)
}

// callMethod invokes method name on receiver value v of dynamic type t.
func (ex *Exec) callMethod(recv Iface, name string, args ...Value) (Value, bool) {
	if recv.t == nil {
		return nil, false
	}
	ms := ex.w.P.prog.MethodSets.MethodSet(recv.t)
	for i := 0; i < ms.Len(); i++ {
		sel := ms.At(i)
		if sel.Obj().Name() == name {
			fn := ex.w.P.prog.MethodValue(sel)
			if fn == nil {
				return nil, false
			}
			all := append([]Value{recv.v}, args...)
			return ex.callFunction(fn, all, nil, nil), true
		}
	}
	return nil, false
}

func (ex *Exec) callBuiltin(fr *frame, b *ssa.Builtin, args []Value, site ssa.Instruction) Value {
	tc := ex.tc
	switch b.Name() {
	case "append":
		if len(args) == 1 {
			return args[0]
		}
		if s, ok := args[1].(Str); ok {
			// append([]byte, string...)
			return ex.appendSlice(args[0].(Slice), ex.strToByteSlice(s))
		}
		return ex.appendSlice(args[0].(Slice), args[1].(Slice))
	case "copy":
		dst := args[0].(Slice)
		var src Slice
		if s, ok := args[1].(Str); ok {
			src = ex.strToByteSlice(s)
		} else {
			src = args[1].(Slice)
		}
		dn := ex.concretizeInt(dst.n, "copy-dst")
		sn := ex.concretizeInt(src.n, "copy-src")
		n := dn
		if sn < n {
			n = sn
		}
		tmp := make([]Value, n)
		for i := 0; i < n; i++ {
			tmp[i] = copyVal(src.a[i])
		}
		for i := 0; i < n; i++ {
			store(&dst.a[i], tmp[i])
		}
		return tc.BV(uint64(n), 64)
	case "len":
		switch x := args[0].(type) {
		case Str:
			return ex.strLen(x)
		case Slice:
			return x.n
		case *Map:
			if x == nil {
				return tc.BV(0, 64)
			}
			return tc.BV(uint64(x.cnt), 64)
		case Array:
			return tc.BV(uint64(len(x)), 64)
		case *Value:
			// pointer to array
			if x == nil {
				// len of nil *[N]T is N; need the type
				if ci, ok := site.(ssa.CallInstruction); ok {
					t := ci.Common().Args[0].Type().Underlying().(*types.Pointer).Elem().Underlying().(*types.Array)
					return tc.BV(uint64(t.Len()), 64)
				}
			}
			return tc.BV(uint64(len((*x).(Array))), 64)
		case *Chan:
			return tc.BV(0, 64)
		}
		panic(fmt.Sprintf("len of %T", args[0]))
	case "cap":
		switch x := args[0].(type) {
		case Slice:
			if ob, ok := x.abs.(*OpaqueBuf); ok {
				return ob.cap
			}
			return tc.BV(uint64(len(x.a)), 64)
		case Array:
			return tc.BV(uint64(len(x)), 64)
		case *Value:
			return tc.BV(uint64(len((*x).(Array))), 64)
		}
		panic(fmt.Sprintf("cap of %T", args[0]))
	case "delete":
		m := args[0].(*Map)
		if m != nil {
			ex.mapDelete(m, args[1])
		}
		return nil
	case "clear":
		switch x := args[0].(type) {
		case *Map:
			if x != nil {
				for i := range x.live {
					x.live[i] = false
				}
				x.idx = map[any]int{}
				x.cnt = 0
			}
		default:
			ex.unsupported("clear of non-map")
		}
		return nil
	case "panic":
		panic(&goPanic{val: args[0], site: ex.where()})
	case "recover":
		// recover is meaningful only when called directly by a deferred function while panicking
		caller := fr.caller
		if caller != nil && caller.panicking && !caller.recovered {
			caller.recovered = true
			return caller.panicVal.val
		}
		return Iface{}
	case "print", "println":
		return nil
	case "min", "max":
		ci := site.(ssa.CallInstruction)
		t := ci.Common().Args[0].Type()
		r := args[0]
		for _, a := range args[1:] {
			var lt *Term
			if b.Name() == "min" {
				lt = ex.binop(token.LSS, t, a, r).(*Term)
			} else {
				lt = ex.binop(token.GTR, t, a, r).(*Term)
			}
			if isInteger(t) {
				r = tc.Ite(lt, a.(*Term), r.(*Term))
			} else {
				ex.unsupported("min/max on non-integers")
			}
		}
		return r
	case "ssa:wrapnilchk":
		if p, ok := args[0].(*Value); ok && p == nil {
			ex.goPanicStr("runtime error: invalid memory address or nil pointer dereference (value method called using nil pointer)")
		}
		return args[0]
	}
	ex.unsupported("builtin " + b.Name())
	return nil
}

func (ex *Exec) appendSlice(dst, src Slice) Slice {
	tc := ex.tc
	sn := ex.concretizeInt(src.n, "append-src")
	if sn == 0 {
		return dst
	}
	dn := ex.concretizeInt(dst.n, "append-dst")
	if dn+sn <= len(dst.a) {
		tmp := make([]Value, sn)
		for i := 0; i < sn; i++ {
			tmp[i] = copyVal(src.a[i])
		}
		for i := 0; i < sn; i++ {
			dst.a[dn+i] = tmp[i]
		}
		return Slice{a: dst.a, n: tc.BV(uint64(dn+sn), 64), abs: nil}
	}
	ncap := 2*len(dst.a) + sn
	if ncap < 4 {
		ncap = 4
	}
	a := make([]Value, dn+sn, ncap)
	for i := 0; i < dn; i++ {
		a[i] = copyVal(dst.a[i])
	}
	for i := 0; i < sn; i++ {
		a[dn+i] = copyVal(src.a[i])
	}
	a = a[:ncap]
	// fill the spare capacity with zero values of the element kind (copy of an existing element's zero is not
	// available here; spare cells are overwritten before being read because len bounds every access)
	return Slice{a: a, n: tc.BV(uint64(dn+sn), 64)}
}

// ---------------------------------------------------------------------------
// iterators

type iter struct {
	kind  int // 0 map, 1 string
	m     *Map
	i     int
	s     Str
	keyT  types.Type
	limit int
}

func (ex *Exec) rangeIter(x Value, t types.Type) *iter {
	switch x := x.(type) {
	case *Map:
		it := &iter{kind: 0, m: x}
		if x != nil {
			it.limit = len(x.keys)
		}
		return it
	case Str:
		return &iter{kind: 1, s: x}
	}
	panic(fmt.Sprintf("range over %T", x))
}

func (it *iter) next(ex *Exec) Value {
	tc := ex.tc
	switch it.kind {
	case 0:
		if it.m != nil {
			for it.i < it.limit {
				i := it.i
				it.i++
				if it.m.live[i] {
					return Tuple{tc.True, it.m.keys[i], copyVal(it.m.vals[i])}
				}
			}
		}
		return Tuple{tc.False, nil, nil}
	case 1:
		// string iteration by rune
		n := ex.strLen(it.s)
		pos := tc.BV(uint64(it.i), 64)
		more := tc.Slt(pos, n)
		if !more.IsConst() {
			if ex.decide([]*Term{more, tc.Not(more)}, "range-str") != 0 {
				return Tuple{tc.False, tc.BV(0, 64), tc.BV(0, 32)}
			}
		} else if more.IsFalse() {
			return Tuple{tc.False, tc.BV(0, 64), tc.BV(0, 32)}
		}
		b := ex.strByte(it.s, it.i)
		if b.IsConst() && b.val >= 0x80 {
			// concrete multi-byte rune: decode from concrete prefix
			if cs, ok := ex.strConcrete(it.s); ok {
				for _, r := range cs[it.i:] {
					w := len(string(r))
					if r == 0xFFFD {
						w = 1
						// invalid encoding consumes one byte; a genuine U+FFFD consumes three
						if strings.HasPrefix(cs[it.i:], "�") {
							w = 3
						}
					}
					idx := it.i
					it.i += w
					return Tuple{tc.True, tc.BV(uint64(idx), 64), tc.BV(uint64(r), 32)}
				}
			}
			ex.unsupported("range over symbolic string with non-ASCII byte")
		}
		if !b.IsConst() {
			ascii := tc.Ult(b, tc.BV(0x80, 8))
			if ex.decide([]*Term{ascii, tc.Not(ascii)}, "range-str-ascii") != 0 {
				ex.unsupported("range over symbolic string with non-ASCII byte")
			}
		}
		idx := it.i
		it.i++
		return Tuple{tc.True, tc.BV(uint64(idx), 64), tc.ZExt(b, 32)}
	}
	panic("bad iter")
}

// symElemPtr is the address of a slice/array element at a symbolic index, produced only when every
// use of the address is a load; the load becomes an ite over the elements (no fork).
type symElemPtr struct {
	a   []Value
	idx *Term
}

func onlyLoaded(instr *ssa.IndexAddr) bool {
	refs := instr.Referrers()
	if refs == nil || len(*refs) == 0 {
		return false
	}
	for _, r := range *refs {
		switch r := r.(type) {
		case *ssa.UnOp:
			if r.Op != token.MUL {
				return false
			}
		case *ssa.DebugRef:
		default:
			return false
		}
	}
	return true
}

func (ex *Exec) symElem(x Value, idx *Term, it types.Type) (symElemPtr, bool) {
	tc := ex.tc
	idx = ex.idx64(idx, it)
	var a []Value
	var n *Term
	switch xv := x.(type) {
	case Slice:
		a, n = xv.a, xv.n
	case *Value:
		if xv == nil {
			return symElemPtr{}, false
		}
		arr := (*xv).(Array)
		a, n = []Value(arr), tc.BV(uint64(len(arr)), 64)
	default:
		return symElemPtr{}, false
	}
	if len(a) == 0 || len(a) > 1024 {
		return symElemPtr{}, false
	}
	for _, e := range a {
		if _, ok := e.(*Term); !ok {
			return symElemPtr{}, false
		}
	}
	ex.boundsCheck(idx, n, "index")
	return symElemPtr{a: a, idx: idx}, true
}

func (ex *Exec) loadSymElem(se symElemPtr) Value {
	tc := ex.tc
	// default = most common element, then one ite per differing element
	count := map[*Term]int{}
	var def *Term
	for _, e := range se.a {
		t := e.(*Term)
		count[t]++
		if def == nil || count[t] > count[def] {
			def = t
		}
	}
	r := def
	for i := len(se.a) - 1; i >= 0; i-- {
		t := se.a[i].(*Term)
		if t == def {
			continue
		}
		r = tc.Ite(tc.Eq(se.idx, tc.BV(uint64(i), 64)), t, r)
	}
	return r
}
