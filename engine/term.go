package main

// Terms: hash-consed DAG of SMT expressions (Bool and fixed-width bit-vectors)
// with eager simplification. One TermCtx per worker.

import (
	"fmt"
	"math/bits"
	"strings"
)

type Op uint8

const (
	OpConst Op = iota
	OpVar
	OpNot
	OpAnd
	OpOr
	OpEq
	OpIte
	OpAdd
	OpSub
	OpMul
	OpUDiv
	OpSDiv
	OpURem
	OpSRem
	OpBAnd
	OpBOr
	OpBXor
	OpShl
	OpLShr
	OpAShr
	OpNeg
	OpBNot
	OpUlt
	OpUle
	OpSlt
	OpSle
	OpZExt
	OpSExt
	OpExtract // low bits: width = sort, from bit 0 of a (only low extraction needed) ; val = lo
)

var opNames = [...]string{"const", "var", "not", "and", "or", "=", "ite", "bvadd", "bvsub", "bvmul", "bvudiv", "bvsdiv", "bvurem", "bvsrem", "bvand", "bvor", "bvxor", "bvshl", "bvlshr", "bvashr", "bvneg", "bvnot", "bvult", "bvule", "bvslt", "bvsle", "zext", "sext", "extract"}

// Sort: 0 = Bool, otherwise bit-vector width.
type Sort uint8

type Term struct {
	id      int32
	op      Op
	sort    Sort
	a, b, c *Term
	val     uint64
	name    string
}

type termKey struct {
	op      Op
	sort    Sort
	a, b, c int32
	val     uint64
	name    string
}

type TermCtx struct {
	tab    map[termKey]*Term
	nextID int32
	True   *Term
	False  *Term
	vars   []*Term
	// byte domains: values a byte variable may take (asserted by the draw that created it)
	domain map[*Term]*[4]uint64
}

// SetDomain records the value set of an 8-bit variable. The caller also asserts it on the path.
func (c *TermCtx) SetDomain(v *Term, dom *[4]uint64) {
	if c.domain == nil {
		c.domain = map[*Term]*[4]uint64{}
	}
	if old, ok := c.domain[v]; ok && *old != *dom {
		panic("engine: conflicting byte domains for " + v.name)
	}
	c.domain[v] = dom
}

// ClearDomain forgets the recorded value set of v (used while (re)building the constraint that asserts it).
func (c *TermCtx) ClearDomain(v *Term) {
	if c.domain != nil {
		delete(c.domain, v)
	}
}

func domHas(d *[4]uint64, v uint64) bool { return v < 256 && d[v>>6]&(1<<(v&63)) != 0 }

// domCmp decides a comparison "x op const" from the domain of x; returns 1 true, 0 false, -1 unknown.
func (c *TermCtx) domCmp(x *Term, pred func(v uint64) bool) int {
	d, ok := c.domain[x]
	if !ok {
		return -1
	}
	all, none := true, true
	for v := uint64(0); v < 256; v++ {
		if domHas(d, v) {
			if pred(v) {
				none = false
			} else {
				all = false
			}
		}
	}
	if all {
		return 1
	}
	if none {
		return 0
	}
	return -1
}

func NewTermCtx() *TermCtx {
	c := &TermCtx{tab: map[termKey]*Term{}}
	c.True = c.mk(OpConst, 0, nil, nil, nil, 1, "")
	c.False = c.mk(OpConst, 0, nil, nil, nil, 0, "")
	return c
}

func tid(t *Term) int32 {
	if t == nil {
		return -1
	}
	return t.id
}

func (c *TermCtx) mk(op Op, sort Sort, a, b, cc *Term, val uint64, name string) *Term {
	k := termKey{op, sort, tid(a), tid(b), tid(cc), val, name}
	if t, ok := c.tab[k]; ok {
		return t
	}
	t := &Term{id: c.nextID, op: op, sort: sort, a: a, b: b, c: cc, val: val, name: name}
	c.nextID++
	c.tab[k] = t
	if op == OpVar {
		c.vars = append(c.vars, t)
	}
	return t
}

func mask(w Sort) uint64 {
	if w >= 64 {
		return ^uint64(0)
	}
	return (uint64(1) << w) - 1
}

func (t *Term) IsConst() bool { return t.op == OpConst }
func (t *Term) IsTrue() bool  { return t.op == OpConst && t.sort == 0 && t.val == 1 }
func (t *Term) IsFalse() bool { return t.op == OpConst && t.sort == 0 && t.val == 0 }

// signed value of a constant
func (t *Term) Int64() int64 {
	return sext(t.val, t.sort)
}

func sext(v uint64, w Sort) int64 {
	if w >= 64 {
		return int64(v)
	}
	sh := 64 - uint(w)
	return int64(v<<sh) >> sh
}

func (c *TermCtx) Bool(b bool) *Term {
	if b {
		return c.True
	}
	return c.False
}

func (c *TermCtx) BV(v uint64, w Sort) *Term {
	return c.mk(OpConst, w, nil, nil, nil, v&mask(w), "")
}

func (c *TermCtx) Var(name string, w Sort) *Term {
	return c.mk(OpVar, w, nil, nil, nil, 0, name)
}

func (c *TermCtx) Not(a *Term) *Term {
	if a.IsConst() {
		return c.Bool(a.val == 0)
	}
	if a.op == OpNot {
		return a.a
	}
	return c.mk(OpNot, 0, a, nil, nil, 0, "")
}

func (c *TermCtx) And(a, b *Term) *Term {
	if a.IsConst() {
		if a.val == 0 {
			return c.False
		}
		return b
	}
	if b.IsConst() {
		if b.val == 0 {
			return c.False
		}
		return a
	}
	if a == b {
		return a
	}
	if (a.op == OpNot && a.a == b) || (b.op == OpNot && b.a == a) {
		return c.False
	}
	if a.id > b.id {
		a, b = b, a
	}
	return c.mk(OpAnd, 0, a, b, nil, 0, "")
}

func (c *TermCtx) Or(a, b *Term) *Term {
	if a.IsConst() {
		if a.val == 1 {
			return c.True
		}
		return b
	}
	if b.IsConst() {
		if b.val == 1 {
			return c.True
		}
		return a
	}
	if a == b {
		return a
	}
	if (a.op == OpNot && a.a == b) || (b.op == OpNot && b.a == a) {
		return c.True
	}
	if a.id > b.id {
		a, b = b, a
	}
	return c.mk(OpOr, 0, a, b, nil, 0, "")
}

func (c *TermCtx) AndN(ts ...*Term) *Term {
	r := c.True
	for _, t := range ts {
		r = c.And(r, t)
	}
	return r
}

func (c *TermCtx) OrN(ts ...*Term) *Term {
	r := c.False
	for _, t := range ts {
		r = c.Or(r, t)
	}
	return r
}

func (c *TermCtx) Implies(a, b *Term) *Term { return c.Or(c.Not(a), b) }

func (c *TermCtx) Eq(a, b *Term) *Term {
	if a.sort != b.sort {
		panic(fmt.Sprintf("Eq sort mismatch %d vs %d: %s / %s", a.sort, b.sort, a, b))
	}
	if a == b {
		return c.True
	}
	if a.IsConst() && b.IsConst() {
		return c.Bool(a.val == b.val)
	}
	if a.sort == 0 {
		if a.IsConst() {
			if a.val == 1 {
				return b
			}
			return c.Not(b)
		}
		if b.IsConst() {
			if b.val == 1 {
				return a
			}
			return c.Not(a)
		}
	}
	// Eq(const, ite(g, x, y)) with constant arms folds (menus)
	if a.IsConst() && (b.op == OpIte || b.op == OpVar) {
		a, b = b, a
	}
	if b.IsConst() && a.op == OpVar && a.sort == 8 && c.domain != nil {
		if d, ok := c.domain[a]; ok && !domHas(d, b.val) {
			return c.False
		}
	}
	if b.IsConst() && a.op == OpIte && iteLeavesConst(a, 64) {
		return c.Ite(a.a, c.Eq(a.b, b), c.Eq(a.c, b))
	}
	if b.IsConst() && a.op == OpIte {
		// push the comparison into the arms when that decides at least one of them
		if r := c.pushCmp(a, func(x *Term) *Term { return c.Eq(x, b) }, 6); r != nil {
			return r
		}
	}
	// zext(x) == const  -> x == const' (or false)
	if b.IsConst() && (a.op == OpZExt) {
		if b.val&^mask(a.a.sort) != 0 {
			return c.False
		}
		return c.Eq(a.a, c.BV(b.val, a.a.sort))
	}
	if a.IsConst() && (b.op == OpZExt) {
		return c.Eq(b, a)
	}
	if a.id > b.id {
		a, b = b, a
	}
	return c.mk(OpEq, 0, a, b, nil, 0, "")
}

// iteLeavesConst: is t a (nested) ite whose leaves are all constants, with at most budget leaves
func iteLeavesConst(t *Term, budget int) bool {
	n := 0
	var rec func(t *Term) bool
	rec = func(t *Term) bool {
		if t.IsConst() {
			n++
			return n <= budget
		}
		if t.op == OpIte {
			return rec(t.b) && rec(t.c)
		}
		return false
	}
	return rec(t)
}

func (c *TermCtx) Ite(g, x, y *Term) *Term {
	if x.sort != y.sort {
		panic(fmt.Sprintf("Ite sort mismatch %d vs %d", x.sort, y.sort))
	}
	if g.IsConst() {
		if g.val == 1 {
			return x
		}
		return y
	}
	if x == y {
		return x
	}
	if x.sort == 0 {
		if x.IsConst() && y.IsConst() {
			if x.val == 1 {
				return g
			}
			return c.Not(g)
		}
		if x.IsTrue() {
			return c.Or(g, y)
		}
		if x.IsFalse() {
			return c.And(c.Not(g), y)
		}
		if y.IsTrue() {
			return c.Or(c.Not(g), x)
		}
		if y.IsFalse() {
			return c.And(g, x)
		}
	}
	if g.op == OpNot {
		return c.mk(OpIte, x.sort, g.a, y, x, 0, "")
	}
	return c.mk(OpIte, x.sort, g, x, y, 0, "")
}

func (c *TermCtx) bin(op Op, a, b *Term) *Term {
	if a.sort != b.sort {
		panic(fmt.Sprintf("binop %s sort mismatch %d vs %d", opNames[op], a.sort, b.sort))
	}
	w := a.sort
	if a.IsConst() && b.IsConst() {
		x, y := a.val, b.val
		var r uint64
		switch op {
		case OpAdd:
			r = x + y
		case OpSub:
			r = x - y
		case OpMul:
			r = x * y
		case OpUDiv:
			if y == 0 {
				r = mask(w)
			} else {
				r = x / y
			}
		case OpURem:
			if y == 0 {
				r = x
			} else {
				r = x % y
			}
		case OpSDiv:
			sx, sy := sext(x, w), sext(y, w)
			if sy == 0 {
				if sx >= 0 {
					r = mask(w)
				} else {
					r = 1
				}
			} else if sy == -1 {
				r = uint64(-sx)
			} else {
				r = uint64(sx / sy)
			}
		case OpSRem:
			sx, sy := sext(x, w), sext(y, w)
			if sy == 0 {
				r = x
			} else if sy == -1 {
				r = 0
			} else {
				r = uint64(sx % sy)
			}
		case OpBAnd:
			r = x & y
		case OpBOr:
			r = x | y
		case OpBXor:
			r = x ^ y
		case OpShl:
			if y >= uint64(w) {
				r = 0
			} else {
				r = x << y
			}
		case OpLShr:
			if y >= uint64(w) {
				r = 0
			} else {
				r = x >> y
			}
		case OpAShr:
			sx := sext(x, w)
			if y >= uint64(w) {
				if sx < 0 {
					r = mask(w)
				} else {
					r = 0
				}
			} else {
				r = uint64(sx >> y)
			}
		}
		return c.BV(r, w)
	}
	switch op {
	case OpAdd:
		if a.IsConst() && a.val == 0 {
			return b
		}
		if b.IsConst() && b.val == 0 {
			return a
		}
		// (x + k1) + k2
		if b.IsConst() && a.op == OpAdd && a.b.IsConst() {
			return c.bin(OpAdd, a.a, c.BV(a.b.val+b.val, w))
		}
		if a.IsConst() {
			a, b = b, a
		}
	case OpSub:
		if b.IsConst() && b.val == 0 {
			return a
		}
		if a == b {
			return c.BV(0, w)
		}
		if b.IsConst() {
			return c.bin(OpAdd, a, c.BV(-b.val, w))
		}
	case OpMul:
		if a.IsConst() {
			a, b = b, a
		}
		if b.IsConst() {
			if b.val == 0 {
				return b
			}
			if b.val == 1 {
				return a
			}
		}
	case OpBAnd:
		if a.IsConst() {
			a, b = b, a
		}
		if b.IsConst() {
			if b.val == 0 {
				return b
			}
			if b.val == mask(w) {
				return a
			}
		}
		if a == b {
			return a
		}
	case OpBOr, OpBXor:
		if a.IsConst() {
			a, b = b, a
		}
		if b.IsConst() && b.val == 0 {
			return a
		}
	case OpShl, OpLShr, OpAShr:
		if b.IsConst() && b.val == 0 {
			return a
		}
	}
	return c.mk(op, w, a, b, nil, 0, "")
}

func (c *TermCtx) Add(a, b *Term) *Term  { return c.bin(OpAdd, a, b) }
func (c *TermCtx) Sub(a, b *Term) *Term  { return c.bin(OpSub, a, b) }
func (c *TermCtx) Mul(a, b *Term) *Term  { return c.bin(OpMul, a, b) }
func (c *TermCtx) UDiv(a, b *Term) *Term { return c.bin(OpUDiv, a, b) }
func (c *TermCtx) SDiv(a, b *Term) *Term { return c.bin(OpSDiv, a, b) }
func (c *TermCtx) URem(a, b *Term) *Term { return c.bin(OpURem, a, b) }
func (c *TermCtx) SRem(a, b *Term) *Term { return c.bin(OpSRem, a, b) }
func (c *TermCtx) BAnd(a, b *Term) *Term { return c.bin(OpBAnd, a, b) }
func (c *TermCtx) BOr(a, b *Term) *Term  { return c.bin(OpBOr, a, b) }
func (c *TermCtx) BXor(a, b *Term) *Term { return c.bin(OpBXor, a, b) }
func (c *TermCtx) Shl(a, b *Term) *Term  { return c.bin(OpShl, a, b) }
func (c *TermCtx) LShr(a, b *Term) *Term { return c.bin(OpLShr, a, b) }
func (c *TermCtx) AShr(a, b *Term) *Term { return c.bin(OpAShr, a, b) }

func (c *TermCtx) Neg(a *Term) *Term {
	if a.IsConst() {
		return c.BV(-a.val, a.sort)
	}
	return c.mk(OpNeg, a.sort, a, nil, nil, 0, "")
}

func (c *TermCtx) BNot(a *Term) *Term {
	if a.IsConst() {
		return c.BV(^a.val, a.sort)
	}
	return c.mk(OpBNot, a.sort, a, nil, nil, 0, "")
}

func (c *TermCtx) cmp(op Op, a, b *Term) *Term {
	if a.sort != b.sort {
		panic(fmt.Sprintf("cmp %s sort mismatch %d vs %d", opNames[op], a.sort, b.sort))
	}
	if a.IsConst() && b.IsConst() {
		switch op {
		case OpUlt:
			return c.Bool(a.val < b.val)
		case OpUle:
			return c.Bool(a.val <= b.val)
		case OpSlt:
			return c.Bool(a.Int64() < b.Int64())
		case OpSle:
			return c.Bool(a.Int64() <= b.Int64())
		}
	}
	if a == b {
		return c.Bool(op == OpUle || op == OpSle)
	}
	if c.domain != nil {
		if b.IsConst() && a.op == OpVar && a.sort == 8 {
			bv := b.val
			var r int
			switch op {
			case OpUlt:
				r = c.domCmp(a, func(v uint64) bool { return v < bv })
			case OpUle:
				r = c.domCmp(a, func(v uint64) bool { return v <= bv })
			default:
				r = -1
			}
			if r >= 0 {
				return c.Bool(r == 1)
			}
		}
		if a.IsConst() && b.op == OpVar && b.sort == 8 {
			av := a.val
			var r int
			switch op {
			case OpUlt:
				r = c.domCmp(b, func(v uint64) bool { return av < v })
			case OpUle:
				r = c.domCmp(b, func(v uint64) bool { return av <= v })
			default:
				r = -1
			}
			if r >= 0 {
				return c.Bool(r == 1)
			}
		}
	}
	if b.IsConst() && a.op == OpIte && !iteLeavesConst(a, 64) {
		if r := c.pushCmp(a, func(x *Term) *Term { return c.cmp(op, x, b) }, 6); r != nil {
			return r
		}
	}
	if a.IsConst() && b.op == OpIte && !iteLeavesConst(b, 64) {
		if r := c.pushCmp(b, func(x *Term) *Term { return c.cmp(op, a, x) }, 6); r != nil {
			return r
		}
	}
	// comparisons against ite-of-constants fold
	if b.IsConst() && a.op == OpIte && iteLeavesConst(a, 64) {
		return c.Ite(a.a, c.cmp(op, a.b, b), c.cmp(op, a.c, b))
	}
	if a.IsConst() && b.op == OpIte && iteLeavesConst(b, 64) {
		return c.Ite(b.a, c.cmp(op, a, b.b), c.cmp(op, a, b.c))
	}
	if op == OpUlt && b.IsConst() && b.val == 0 {
		return c.False
	}
	if op == OpUle && a.IsConst() && a.val == 0 {
		return c.True
	}
	// zext(x) <u const
	if (op == OpUlt || op == OpUle || op == OpSlt || op == OpSle) && a.op == OpZExt && b.IsConst() && a.a.sort < a.sort {
		// zext values are non-negative and < 2^w'
		bv := b.Int64()
		if op == OpSlt || op == OpSle {
			if bv < 0 {
				return c.False
			}
		}
		if b.val > mask(a.a.sort) {
			return c.True
		}
		if op == OpUlt || op == OpSlt {
			return c.cmp(OpUlt, a.a, c.BV(b.val, a.a.sort))
		}
		return c.cmp(OpUle, a.a, c.BV(b.val, a.a.sort))
	}
	return c.mk(op, 0, a, b, nil, 0, "")
}

func (c *TermCtx) Ult(a, b *Term) *Term { return c.cmp(OpUlt, a, b) }
func (c *TermCtx) Ule(a, b *Term) *Term { return c.cmp(OpUle, a, b) }
func (c *TermCtx) Slt(a, b *Term) *Term { return c.cmp(OpSlt, a, b) }
func (c *TermCtx) Sle(a, b *Term) *Term { return c.cmp(OpSle, a, b) }

func (c *TermCtx) ZExt(a *Term, w Sort) *Term {
	if a.sort == w {
		return a
	}
	if a.sort > w {
		return c.Extract(a, w)
	}
	if a.IsConst() {
		return c.BV(a.val, w)
	}
	if a.op == OpIte && iteLeavesConst(a, 64) {
		return c.Ite(a.a, c.ZExt(a.b, w), c.ZExt(a.c, w))
	}
	return c.mk(OpZExt, w, a, nil, nil, 0, "")
}

func (c *TermCtx) SExt(a *Term, w Sort) *Term {
	if a.sort == w {
		return a
	}
	if a.sort > w {
		return c.Extract(a, w)
	}
	if a.IsConst() {
		return c.BV(uint64(a.Int64()), w)
	}
	if a.op == OpIte && iteLeavesConst(a, 64) {
		return c.Ite(a.a, c.SExt(a.b, w), c.SExt(a.c, w))
	}
	return c.mk(OpSExt, w, a, nil, nil, 0, "")
}

// Extract keeps the low w bits.
func (c *TermCtx) Extract(a *Term, w Sort) *Term {
	if a.sort == w {
		return a
	}
	if a.sort < w {
		panic("extract widening")
	}
	if a.IsConst() {
		return c.BV(a.val, w)
	}
	if (a.op == OpZExt || a.op == OpSExt) && a.a.sort == w {
		return a.a
	}
	if (a.op == OpZExt || a.op == OpSExt) && a.a.sort > w {
		return c.Extract(a.a, w)
	}
	if a.op == OpIte && iteLeavesConst(a, 64) {
		return c.Ite(a.a, c.Extract(a.b, w), c.Extract(a.c, w))
	}
	return c.mk(OpExtract, w, a, nil, nil, 0, "")
}

func sortName(s Sort) string {
	if s == 0 {
		return "Bool"
	}
	return fmt.Sprintf("(_ BitVec %d)", s)
}

func constSMT(t *Term) string {
	if t.sort == 0 {
		if t.val == 1 {
			return "true"
		}
		return "false"
	}
	if t.sort%4 == 0 {
		return fmt.Sprintf("#x%0*x", int(t.sort/4), t.val)
	}
	return fmt.Sprintf("#b%0*b", int(t.sort), t.val)
}

// ref returns the SMT reference for a term that is already defined (or a constant).
func (t *Term) ref() string {
	switch t.op {
	case OpConst:
		return constSMT(t)
	case OpVar:
		return "|" + t.name + "|"
	}
	return fmt.Sprintf("t%d", t.id)
}

// body returns the SMT expression of t in terms of refs of its children.
func (t *Term) body() string {
	switch t.op {
	case OpConst:
		return constSMT(t)
	case OpVar:
		return "|" + t.name + "|"
	case OpNot, OpNeg, OpBNot:
		return "(" + opNames[t.op] + " " + t.a.ref() + ")"
	case OpIte:
		return "(ite " + t.a.ref() + " " + t.b.ref() + " " + t.c.ref() + ")"
	case OpZExt:
		return fmt.Sprintf("((_ zero_extend %d) %s)", t.sort-t.a.sort, t.a.ref())
	case OpSExt:
		return fmt.Sprintf("((_ sign_extend %d) %s)", t.sort-t.a.sort, t.a.ref())
	case OpExtract:
		return fmt.Sprintf("((_ extract %d 0) %s)", t.sort-1, t.a.ref())
	}
	return "(" + opNames[t.op] + " " + t.a.ref() + " " + t.b.ref() + ")"
}

func (t *Term) String() string {
	var sb strings.Builder
	var rec func(t *Term, d int)
	rec = func(t *Term, d int) {
		if d > 6 {
			sb.WriteString("…")
			return
		}
		switch t.op {
		case OpConst:
			if t.sort == 0 {
				sb.WriteString(constSMT(t))
			} else {
				fmt.Fprintf(&sb, "%d", t.Int64())
			}
		case OpVar:
			sb.WriteString(t.name)
		default:
			sb.WriteString("(" + opNames[t.op])
			for _, x := range []*Term{t.a, t.b, t.c} {
				if x != nil {
					sb.WriteString(" ")
					rec(x, d+1)
				}
			}
			sb.WriteString(")")
		}
	}
	rec(t, 0)
	return sb.String()
}

// Eval evaluates t under a model (variables by name; missing variables are 0).
func (c *TermCtx) Eval(t *Term, m map[string]uint64, memo map[*Term]uint64) uint64 {
	if t.op == OpConst {
		return t.val
	}
	if v, ok := memo[t]; ok {
		return v
	}
	var r uint64
	ev := func(x *Term) uint64 { return c.Eval(x, m, memo) }
	b2u := func(b bool) uint64 {
		if b {
			return 1
		}
		return 0
	}
	switch t.op {
	case OpVar:
		r = m[t.name] & mask(t.sort)
		if t.sort == 0 {
			r = m[t.name] & 1
		}
	case OpNot:
		r = 1 - ev(t.a)
	case OpAnd:
		r = ev(t.a) & ev(t.b)
	case OpOr:
		r = ev(t.a) | ev(t.b)
	case OpEq:
		r = b2u(ev(t.a) == ev(t.b))
	case OpIte:
		if ev(t.a) == 1 {
			r = ev(t.b)
		} else {
			r = ev(t.c)
		}
	case OpNeg:
		r = (-ev(t.a)) & mask(t.sort)
	case OpBNot:
		r = (^ev(t.a)) & mask(t.sort)
	case OpUlt:
		r = b2u(ev(t.a) < ev(t.b))
	case OpUle:
		r = b2u(ev(t.a) <= ev(t.b))
	case OpSlt:
		r = b2u(sext(ev(t.a), t.a.sort) < sext(ev(t.b), t.a.sort))
	case OpSle:
		r = b2u(sext(ev(t.a), t.a.sort) <= sext(ev(t.b), t.a.sort))
	case OpZExt:
		r = ev(t.a)
	case OpSExt:
		r = uint64(sext(ev(t.a), t.a.sort)) & mask(t.sort)
	case OpExtract:
		r = ev(t.a) & mask(t.sort)
	default:
		x := c.bin(t.op, c.BV(ev(t.a), t.sort), c.BV(ev(t.b), t.sort))
		r = x.val
	}
	memo[t] = r
	return r
}

var _ = bits.Len

// pushCmp rewrites f(ite(g,x,y)) to ite(g, f(x), f(y)) when every leaf comparison folds to a constant
// (depth-limited); returns nil when that is not the case.
func (c *TermCtx) pushCmp(t *Term, f func(*Term) *Term, depth int) *Term {
	if t.op != OpIte {
		r := f(t)
		if r.IsConst() {
			return r
		}
		return nil
	}
	if depth == 0 {
		return nil
	}
	x := c.pushCmp(t.b, f, depth-1)
	if x == nil {
		return nil
	}
	y := c.pushCmp(t.c, f, depth-1)
	if y == nil {
		return nil
	}
	return c.Ite(t.a, x, y)
}
