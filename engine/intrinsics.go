package main

import (
	"fmt"
	"go/types"
	"strings"

	"golang.org/x/tools/go/ssa"
)

type intrinsicFn func(ex *Exec, fn *ssa.Function, args []Value) Value

var intrinsics = map[string]intrinsicFn{}

func reg(name string, f intrinsicFn) { intrinsics[name] = f }

func (ex *Exec) concreteStrArg(v Value, what string) string {
	s, ok := ex.strConcrete(v.(Str))
	if !ok {
		panic("engine: " + what + " must be a concrete string")
	}
	return s
}

func (ex *Exec) concreteIntArg(v Value, what string) int {
	t := v.(*Term)
	if !t.IsConst() {
		panic("engine: " + what + " must be a concrete integer")
	}
	return int(t.Int64())
}

func (ex *Exec) drawName(tag string) string {
	tag = strings.Map(func(r rune) rune {
		if r == '|' || r == '\\' || r == ' ' || r == '"' {
			return '_'
		}
		return r
	}, tag)
	k := ex.drawSeq[tag]
	ex.drawSeq[tag] = k + 1
	if k == 0 {
		return tag
	}
	return fmt.Sprintf("%s#%d", tag, k)
}

func varargs(v Value) []Value {
	s := v.(Slice)
	if s.a == nil {
		return nil
	}
	return s.a[:int(s.n.val)]
}

func init() {
	vr := vrPkgPath + "."
	reg(vr+"Bool", func(ex *Exec, fn *ssa.Function, args []Value) Value {
		name := ex.drawName(ex.concreteStrArg(args[0], "tag"))
		v := ex.tc.Var(name, 0)
		ex.draws = append(ex.draws, Draw{Tag: name, Kind: "bool", Vars: []*Term{v}})
		return v
	})
	reg(vr+"Int", func(ex *Exec, fn *ssa.Function, args []Value) Value {
		name := ex.drawName(ex.concreteStrArg(args[0], "tag"))
		lo, hi := args[1].(*Term), args[2].(*Term)
		if lo.IsConst() && hi.IsConst() && lo.val == hi.val {
			ex.draws = append(ex.draws, Draw{Tag: name, Kind: "choice", Val: lo.Int64()})
			return lo
		}
		v := ex.tc.Var(name, 64)
		ex.assume(ex.tc.And(ex.tc.Sle(lo, v), ex.tc.Sle(v, hi)))
		ex.draws = append(ex.draws, Draw{Tag: name, Kind: "int", Vars: []*Term{v}, Width: 64})
		return v
	})
	reg(vr+"Int64", func(ex *Exec, fn *ssa.Function, args []Value) Value {
		name := ex.drawName(ex.concreteStrArg(args[0], "tag"))
		v := ex.tc.Var(name, 64)
		ex.draws = append(ex.draws, Draw{Tag: name, Kind: "int", Vars: []*Term{v}, Width: 64})
		return v
	})
	reg(vr+"Byte", func(ex *Exec, fn *ssa.Function, args []Value) Value {
		name := ex.drawName(ex.concreteStrArg(args[0], "tag"))
		v := ex.tc.Var(name, 8)
		ex.tc.ClearDomain(v)
		ex.draws = append(ex.draws, Draw{Tag: name, Kind: "uint", Vars: []*Term{v}, Width: 8})
		return v
	})
	reg(vr+"Byte2", func(ex *Exec, fn *ssa.Function, args []Value) Value {
		name := ex.drawName(ex.concreteStrArg(args[0], "tag"))
		tc := ex.tc
		lo, hi := args[1].(*Term), args[2].(*Term)
		v := tc.Var(name, 8)
		// the term context outlives a path: build the constraint without a domain recorded by an earlier path,
		// otherwise it folds to true and the solver never sees it
		tc.ClearDomain(v)
		ex.assume(tc.And(tc.Ule(lo, v), tc.Ule(v, hi)))
		if lo.IsConst() && hi.IsConst() {
			var dom [4]uint64
			for x := lo.val; x <= hi.val; x++ {
				dom[x>>6] |= 1 << (x & 63)
			}
			tc.SetDomain(v, &dom)
		}
		ex.draws = append(ex.draws, Draw{Tag: name, Kind: "uint", Vars: []*Term{v}, Width: 8})
		return v
	})
	reg(vr+"ByteIn", func(ex *Exec, fn *ssa.Function, args []Value) Value {
		// one byte from a set (ranges as in StrIn)
		name := ex.drawName(ex.concreteStrArg(args[0], "tag"))
		alpha := ex.concreteStrArg(args[1], "alphabet")
		tc := ex.tc
		v := tc.Var(name, 8)
		tc.ClearDomain(v)
		var dom [4]uint64
		ok := tc.False
		for _, r := range byteRanges(alpha) {
			for x := int(r[0]); x <= int(r[1]); x++ {
				dom[x>>6] |= 1 << (uint(x) & 63)
			}
			if r[0] == r[1] {
				ok = tc.Or(ok, tc.Eq(v, tc.BV(uint64(r[0]), 8)))
			} else {
				ok = tc.Or(ok, tc.And(tc.Ule(tc.BV(uint64(r[0]), 8), v), tc.Ule(v, tc.BV(uint64(r[1]), 8))))
			}
		}
		ex.assume(ok)
		tc.SetDomain(v, &dom)
		ex.draws = append(ex.draws, Draw{Tag: name, Kind: "uint", Vars: []*Term{v}, Width: 8})
		return v
	})
	reg(vr+"Str", func(ex *Exec, fn *ssa.Function, args []Value) Value {
		name := ex.drawName(ex.concreteStrArg(args[0], "tag"))
		c := ex.concreteIntArg(args[1], "capacity")
		s, vars := ex.newSymStr(name, c)
		ex.draws = append(ex.draws, Draw{Tag: name, Kind: "str", Vars: vars, Cap: c})
		return s
	})
	reg(vr+"StrIn", func(ex *Exec, fn *ssa.Function, args []Value) Value {
		name := ex.drawName(ex.concreteStrArg(args[0], "tag"))
		c := ex.concreteIntArg(args[1], "capacity")
		alpha := ex.concreteStrArg(args[2], "alphabet")
		s, vars := ex.newSymStr(name, c)
		tc := ex.tc
		var dom [4]uint64
		for _, r := range byteRanges(alpha) {
			for v := int(r[0]); v <= int(r[1]); v++ {
				dom[v>>6] |= 1 << (uint(v) & 63)
			}
		}
		for _, b := range s.sym.b {
			tc.ClearDomain(b) // see Byte2
			ok := tc.False
			for _, r := range byteRanges(alpha) {
				if r[0] == r[1] {
					ok = tc.Or(ok, tc.Eq(b, tc.BV(uint64(r[0]), 8)))
				} else {
					ok = tc.Or(ok, tc.And(tc.Ule(tc.BV(uint64(r[0]), 8), b), tc.Ule(b, tc.BV(uint64(r[1]), 8))))
				}
			}
			ex.assume(ok)
		}
		for _, b := range s.sym.b {
			tc.SetDomain(b, &dom)
		}
		ex.draws = append(ex.draws, Draw{Tag: name, Kind: "str", Vars: vars, Cap: c})
		return s
	})
	reg(vr+"StrN", func(ex *Exec, fn *ssa.Function, args []Value) Value {
		// fixed length n
		name := ex.drawName(ex.concreteStrArg(args[0], "tag"))
		c := ex.concreteIntArg(args[1], "length")
		s, vars := ex.newSymStr(name, c)
		ex.assume(ex.tc.Eq(s.sym.n, ex.tc.BV(uint64(c), 64)))
		s.sym.n = ex.tc.BV(uint64(c), 64)
		ex.draws = append(ex.draws, Draw{Tag: name, Kind: "str", Vars: vars, Cap: c})
		return s
	})
	reg(vr+"Bytes", func(ex *Exec, fn *ssa.Function, args []Value) Value {
		name := ex.drawName(ex.concreteStrArg(args[0], "tag"))
		c := ex.concreteIntArg(args[1], "capacity")
		s, vars := ex.newSymStr(name, c)
		ex.draws = append(ex.draws, Draw{Tag: name, Kind: "bytes", Vars: vars, Cap: c})
		sl := ex.strToByteSlice(s)
		if sl.a == nil {
			sl.a = []Value{}
		}
		return sl
	})
	reg(vr+"OpaqueBytes", func(ex *Exec, fn *ssa.Function, args []Value) Value {
		// a []byte of free length and capacity (0 <= len <= cap < 2^62) whose content is never inspected
		name := ex.drawName(ex.concreteStrArg(args[0], "tag"))
		tc := ex.tc
		ln := tc.Var(name+".len", 64)
		cp := tc.Var(name+".cap", 64)
		ex.assume(tc.And(tc.Ule(ln, cp), tc.Ule(cp, tc.BV(1<<62, 64))))
		ex.draws = append(ex.draws, Draw{Tag: name, Kind: "opaque", Vars: []*Term{ln, cp}, Width: 64})
		return Slice{a: []Value{}, n: ln, abs: &OpaqueBuf{cap: cp}}
	})
	reg(vr+"Token", func(ex *Exec, fn *ssa.Function, args []Value) Value {
		name := ex.drawName(ex.concreteStrArg(args[0], "tag"))
		s, vars := ex.newSymStr(name, 2)
		ex.assume(ex.tc.Eq(s.sym.n, ex.tc.BV(2, 64)))
		s.sym.n = ex.tc.BV(2, 64)
		ex.draws = append(ex.draws, Draw{Tag: name, Kind: "bytes", Vars: vars, Cap: 2})
		return ex.strToByteSlice(s)
	})
	reg(vr+"OneOf", func(ex *Exec, fn *ssa.Function, args []Value) Value {
		name := ex.drawName(ex.concreteStrArg(args[0], "tag"))
		menu := varargs(args[1])
		if len(menu) == 0 {
			panic("engine: OneOf with empty menu")
		}
		tc := ex.tc
		if len(menu) == 1 {
			ex.draws = append(ex.draws, Draw{Tag: name, Kind: "choice", Val: int64(0)})
			return menu[0]
		}
		sel := tc.Var(name, 64)
		ex.assume(tc.Ult(sel, tc.BV(uint64(len(menu)), 64)))
		ex.draws = append(ex.draws, Draw{Tag: name, Kind: "int", Vars: []*Term{sel}, Width: 64})
		maxc := 0
		for _, m := range menu {
			if c := ex.strCap(m.(Str)); c > maxc {
				maxc = c
			}
		}
		n := ex.strLen(menu[len(menu)-1].(Str))
		b := make([]*Term, maxc)
		pad := func(s Str, i int) *Term {
			if i < ex.strCap(s) {
				return ex.strByte(s, i)
			}
			return tc.BV(0, 8)
		}
		for i := range b {
			b[i] = pad(menu[len(menu)-1].(Str), i)
		}
		for k := len(menu) - 2; k >= 0; k-- {
			g := tc.Eq(sel, tc.BV(uint64(k), 64))
			s := menu[k].(Str)
			n = tc.Ite(g, ex.strLen(s), n)
			for i := range b {
				b[i] = tc.Ite(g, pad(s, i), b[i])
			}
		}
		return ex.normStr(n, b, nil)
	})
	reg(vr+"Choice", func(ex *Exec, fn *ssa.Function, args []Value) Value {
		name := ex.drawName(ex.concreteStrArg(args[0], "tag"))
		n := ex.concreteIntArg(args[1], "n")
		conds := make([]*Term, n)
		for i := range conds {
			conds[i] = ex.tc.True
		}
		c := 0
		if n > 1 {
			c = ex.decide(conds, "choice "+name)
		}
		ex.draws = append(ex.draws, Draw{Tag: name, Kind: "choice", Val: int64(c)})
		return ex.tc.BV(uint64(c), 64)
	})
	reg(vr+"Assume", func(ex *Exec, fn *ssa.Function, args []Value) Value {
		ex.assume(args[0].(*Term))
		return nil
	})
	reg(vr+"Assert", func(ex *Exec, fn *ssa.Function, args []Value) Value {
		ex.checkAssert(args[0].(*Term), ex.concreteStrArg(args[1], "label"))
		return nil
	})
	reg(vr+"Reach", func(ex *Exec, fn *ssa.Function, args []Value) Value {
		ex.reached[ex.concreteStrArg(args[0], "label")] = true
		return nil
	})
	reg(vr+"Note", func(ex *Exec, fn *ssa.Function, args []Value) Value {
		if s, ok := ex.strConcrete(args[0].(Str)); ok {
			ex.notes = append(ex.notes, s)
		} else {
			ex.notes = append(ex.notes, args[0].(Str).String())
		}
		return nil
	})
	reg(vr+"FindingKey", func(ex *Exec, fn *ssa.Function, args []Value) Value {
		ex.findKey = ex.concreteStrArg(args[0], "finding key")
		return nil
	})
	reg(vr+"ExpectPanic", func(ex *Exec, fn *ssa.Function, args []Value) Value {
		ex.expectPanic = args[0].(*Term).IsTrue()
		return nil
	})
	reg(vr+"SkipNative", func(ex *Exec, fn *ssa.Function, args []Value) Value { return nil })
	reg(vr+"Stop", func(ex *Exec, fn *ssa.Function, args []Value) Value {
		panic(pathEnd{endStop, "stop"})
	})
	reg(vr+"Unsupported", func(ex *Exec, fn *ssa.Function, args []Value) Value {
		// the harness met something it cannot model: the path is inconclusive (never a pass, never a violation)
		ex.unsupported("harness: " + ex.concreteStrArg(args[0], "message"))
		return nil
	})
	reg(vr+"Tier", func(ex *Exec, fn *ssa.Function, args []Value) Value {
		return ex.tc.BV(uint64(ex.w.P.tier), 64)
	})
	reg(vr+"Symbolic", func(ex *Exec, fn *ssa.Function, args []Value) Value {
		return ex.tc.True
	})
	reg(vr+"Param", func(ex *Exec, fn *ssa.Function, args []Value) Value {
		name := ex.concreteStrArg(args[0], "param")
		if v, ok := ex.w.P.params[name]; ok {
			return ex.tc.BV(uint64(v), 64)
		}
		return args[1]
	})
	reg(vr+"And", func(ex *Exec, fn *ssa.Function, args []Value) Value {
		r := ex.tc.True
		for _, a := range varargs(args[0]) {
			r = ex.tc.And(r, a.(*Term))
		}
		return r
	})
	reg(vr+"Or", func(ex *Exec, fn *ssa.Function, args []Value) Value {
		r := ex.tc.False
		for _, a := range varargs(args[0]) {
			r = ex.tc.Or(r, a.(*Term))
		}
		return r
	})
	reg(vr+"Not", func(ex *Exec, fn *ssa.Function, args []Value) Value { return ex.tc.Not(args[0].(*Term)) })
	reg(vr+"Implies", func(ex *Exec, fn *ssa.Function, args []Value) Value {
		return ex.tc.Implies(args[0].(*Term), args[1].(*Term))
	})
	reg(vr+"Iff", func(ex *Exec, fn *ssa.Function, args []Value) Value {
		return ex.tc.Eq(args[0].(*Term), args[1].(*Term))
	})
	reg(vr+"IteInt", func(ex *Exec, fn *ssa.Function, args []Value) Value {
		return ex.tc.Ite(args[0].(*Term), args[1].(*Term), args[2].(*Term))
	})
	reg(vr+"IteBool", func(ex *Exec, fn *ssa.Function, args []Value) Value {
		return ex.tc.Ite(args[0].(*Term), args[1].(*Term), args[2].(*Term))
	})
	reg(vr+"IteStr", func(ex *Exec, fn *ssa.Function, args []Value) Value {
		tc := ex.tc
		g := args[0].(*Term)
		if g.IsConst() {
			if g.val == 1 {
				return args[1]
			}
			return args[2]
		}
		a, b := args[1].(Str), args[2].(Str)
		na, ba := ex.symParts(a)
		nb, bb := ex.symParts(b)
		m := len(ba)
		if len(bb) > m {
			m = len(bb)
		}
		out := make([]*Term, m)
		z := tc.BV(0, 8)
		for i := range out {
			x, y := z, z
			if i < len(ba) {
				x = ba[i]
			}
			if i < len(bb) {
				y = bb[i]
			}
			out[i] = tc.Ite(g, x, y)
		}
		return ex.normStr(tc.Ite(g, na, nb), out, nil)
	})
	// IsConcrete reports whether a bool is a constant in this run (debug aid)
	reg(vr+"Fork", func(ex *Exec, fn *ssa.Function, args []Value) Value {
		// force a fork on a symbolic bool: returns a concrete bool
		c := args[0].(*Term)
		if c.IsConst() {
			return c
		}
		if ex.decide([]*Term{c, ex.tc.Not(c)}, "fork") == 0 {
			return ex.tc.True
		}
		return ex.tc.False
	})
	reg(vr+"ConcretizeInt", func(ex *Exec, fn *ssa.Function, args []Value) Value {
		v := ex.concretizeInt(args[0].(*Term), "vr")
		return ex.tc.BV(uint64(v), 64)
	})
	reg(vr+"Concretize", func(ex *Exec, fn *ssa.Function, args []Value) Value {
		// fork over the feasible values of a symbolic string
		s := args[0].(Str)
		if s.sym == nil {
			return s
		}
		ex.checkOpaque(s, "Concretize")
		n := ex.concretizeRange(s.sym.n, 0, len(s.sym.b), "strlen")
		bs := make([]byte, n)
		for i := 0; i < n; i++ {
			bs[i] = byte(ex.concretizeAny(s.sym.b[i], "strbyte"))
		}
		return mkStr(string(bs))
	})
}

// byteRanges turns an alphabet description into byte ranges; "a-z" style ranges are supported,
// a literal '-' must come first or last.
func byteRanges(alpha string) [][2]byte {
	var out [][2]byte
	for i := 0; i < len(alpha); i++ {
		if i+2 < len(alpha) && alpha[i+1] == '-' {
			out = append(out, [2]byte{alpha[i], alpha[i+2]})
			i += 2
			continue
		}
		out = append(out, [2]byte{alpha[i], alpha[i]})
	}
	return out
}

var _ = types.Typ
