package main

import (
	"fmt"
	"go/types"
	"os"
	"path/filepath"
	"regexp"
	"sort"
	"strings"
	"sync"

	"golang.org/x/tools/go/packages"
	"golang.org/x/tools/go/ssa"
	"golang.org/x/tools/go/ssa/ssautil"
)

const repoModule = "github.com/notaryproject/notation-go"
const vrPkgPath = repoModule + "/internal/zzvr"

type Program struct {
	prog     *ssa.Program
	initial  []*packages.Package
	ssaPkgs  map[string]*ssa.Package
	stubs    map[string]string // target function name -> harness function (pkgpath.Name)
	stubMu   sync.Mutex
	funcByNm map[string]*ssa.Function

	unwind          int
	maxSteps        int
	maxSamples      int
	solverKind      string
	solverTimeoutMs int
	seed            int64
	tier            int
	verbose         bool
	debug           bool
	smtLog          string
	repoDir         string
	params          map[string]int
}

type OverlaySpec struct {
	// virtual path (absolute, under repoDir) -> real file
	Files map[string]string
}

// LoadError: the packages do not type-check; Files are the files the errors are reported in.
type LoadError struct {
	N     int
	Files []string
}

func (e *LoadError) Error() string {
	return fmt.Sprintf("%d package load errors (harness no longer compiles against the tree?)", e.N)
}

var stubDirective = regexp.MustCompile(`(?m)^//vsym:stub\s+(\S+)\s*=\s*(\S+)\s*$`)

func LoadProgram(repoDir string, overlay map[string]string, patterns []string) (*Program, error) {
	ov := map[string][]byte{}
	stubs := map[string]string{}
	var virts []string
	for virt := range overlay {
		virts = append(virts, virt)
	}
	sort.Strings(virts) // two files stubbing one function: the choice must not depend on map order
	for _, virt := range virts {
		real := overlay[virt]
		b, err := os.ReadFile(real)
		if err != nil {
			return nil, err
		}
		ov[virt] = b
		// stub directives: //vsym:stub target = Func (Func resolved in the package of this file)
		for _, m := range stubDirective.FindAllStringSubmatch(string(b), -1) {
			rel, _ := filepath.Rel(repoDir, filepath.Dir(virt))
			pkgPath := repoModule
			if rel != "." {
				pkgPath += "/" + filepath.ToSlash(rel)
			}
			stubs[m[1]] = pkgPath + "." + m[2]
		}
	}
	cfg := &packages.Config{
		Mode:       packages.LoadAllSyntax,
		Dir:        repoDir,
		Overlay:    ov,
		BuildFlags: []string{"-tags=verif"},
		Env:        append(os.Environ(), "GOFLAGS=-mod=mod", "GOPROXY=off", "GOSUMDB=off", "GOTOOLCHAIN=local"),
	}
	initial, err := packages.Load(cfg, patterns...)
	if err != nil {
		return nil, err
	}
	nerr := 0
	bad := map[string]bool{}
	packages.Visit(initial, nil, func(p *packages.Package) {
		for _, e := range p.Errors {
			if nerr < 20 {
				fmt.Fprintf(os.Stderr, "load error: %s: %v\n", p.PkgPath, e)
			}
			nerr++
			// position "file:line:col"
			pos := e.Pos
			for k := 0; k < 2; k++ {
				if i := strings.LastIndex(pos, ":"); i >= 0 {
					pos = pos[:i]
				}
			}
			bad[pos] = true
		}
	})
	if nerr > 0 {
		le := &LoadError{N: nerr}
		for f := range bad {
			le.Files = append(le.Files, f)
		}
		sort.Strings(le.Files)
		return nil, le
	}
	prog, _ := ssautil.AllPackages(initial, ssa.InstantiateGenerics)
	prog.Build()
	P := &Program{prog: prog, initial: initial, ssaPkgs: map[string]*ssa.Package{}, stubs: stubs, funcByNm: map[string]*ssa.Function{},
		unwind: 64, maxSteps: 20_000_000, maxSamples: 6, solverKind: envOr("VSYM_SOLVER", "z3-new"), solverTimeoutMs: 10000, repoDir: repoDir, params: map[string]int{}}
	for _, p := range prog.AllPackages() {
		P.ssaPkgs[p.Pkg.Path()] = p
	}
	return P, nil
}

func (P *Program) findFunc(pkgPath, name string) *ssa.Function {
	p := P.ssaPkgs[pkgPath]
	if p == nil {
		return nil
	}
	return p.Func(name)
}

func (P *Program) lookupMethod(t types.Type, m *types.Func) *ssa.Function {
	return P.prog.LookupMethod(t, m.Pkg(), m.Name())
}

func fnName(fn *ssa.Function) string {
	if o := fn.Origin(); o != nil {
		return o.String()
	}
	return fn.String()
}

func (w *Worker) lookupIntrinsic(fn *ssa.Function) intrinsicFn {
	if h, ok := w.intrCache[fn]; ok {
		return h
	}
	h := intrinsics[fnName(fn)]
	w.intrCache[fn] = h
	return h
}

func (w *Worker) lookupStub(fn *ssa.Function) *ssa.Function {
	if s, ok := w.stubCache[fn]; ok {
		return s
	}
	var s *ssa.Function
	if target, ok := w.P.stubs[fnName(fn)]; ok {
		i := strings.LastIndex(target, ".")
		s = w.P.findFunc(target[:i], target[i+1:])
		if s == nil {
			panic("stub function not found: " + target)
		}
	}
	w.stubCache[fn] = s
	return s
}

var denyPrefixes = []string{
	"os", "syscall", "runtime", "reflect", "internal/reflectlite", "sync", "encoding/json", "fmt", "regexp",
	"crypto", "net", "unsafe", "math/big", "log", "encoding/asn1", "encoding/pem", "hash",
	"internal/poll", "internal/bytealg", "internal/cpu", "internal/abi", "internal/godebug", "internal/syscall", "internal/testlog",
	"github.com/fxamacker", "github.com/veraison", "github.com/golang-jwt", "golang.org/x/crypto", "golang.org/x/sync",
	"oras.land/oras-go/v2/content/oci", "oras.land/oras-go/v2/registry/remote", "oras.land/oras-go/v2/internal",
	"github.com/notaryproject/notation-core-go/signature/jws", "github.com/notaryproject/notation-core-go/signature/cose",
	"github.com/notaryproject/notation-core-go/revocation", "github.com/notaryproject/tspclient-go/internal",
	"encoding/base64", "encoding/binary", "compress", "testing", "vendor",
	"github.com/go-asn1-ber", "github.com/Azure", "github.com/google/uuid",
}

// functions inside denied packages that are plain Go and may run from their SSA
var allowFuncs = map[string]bool{
	"(*fmt.wrapError).Error":           true,
	"(*fmt.wrapError).Unwrap":          true,
	"(*fmt.wrapErrors).Error":          true,
	"(*fmt.wrapErrors).Unwrap":         true,
	"os.IsNotExist":                    true,
	"os.IsExist":                       true,
	"os.IsPermission":                  true,
	"os.underlyingErrorIs":             true,
	"os.underlyingError":               true,
	"(*os.LinkError).Error":            true,
	"(*os.SyscallError).Error":         true,
	"(*os.SyscallError).Unwrap":        true,
	"(*os.LinkError).Unwrap":           true,
	"(syscall.Errno).Is":               true,
	"(syscall.Errno).Error":            false,
	"(crypto.Hash).HashFunc":           true,
	"(crypto.Hash).Available":          false,
	"(crypto.Hash).String":             true,
	"(crypto.Hash).Size":               true,
	"(*sync.Mutex).Lock":               false,
	"(reflect.Kind).String":            false,
	"(*crypto/x509.Certificate).Equal": true,
	"(github.com/notaryproject/notation-core-go/revocation/result.Result).String":           true,
	"(github.com/notaryproject/notation-core-go/revocation/result.RevocationMethod).String": true,
}

func (w *Worker) denied(fn *ssa.Function) bool {
	if d, ok := w.denyCache[fn]; ok {
		return d
	}
	d := false
	name := fnName(fn)
	if allowFuncs[name] {
		d = false
	} else if pkg := fn.Package(); pkg != nil && fn.Synthetic == "" {
		path := pkg.Pkg.Path()
		if path == "net/url" {
			// plain string processing: runs from its SSA (on concrete text it is simply interpreted)
			w.denyCache[fn] = false
			return false
		}
		for _, p := range denyPrefixes {
			if path == p || strings.HasPrefix(path, p+"/") {
				d = true
				break
			}
		}
	} else if fn.Synthetic == "" && fn.Parent() != nil {
		// anonymous function: use the parent's policy
		d = w.denied(fn.Parent())
	}
	w.denyCache[fn] = d
	return d
}

// ---------------------------------------------------------------------------
// package initialisation (lazy, per path for repo packages, per worker for the rest)

func isRepoPkg(p *ssa.Package) bool {
	return p != nil && strings.HasPrefix(p.Pkg.Path(), repoModule)
}

func (ex *Exec) globalMap(g *ssa.Global) (map[*ssa.Global]*Value, map[*ssa.Package]bool) {
	if isRepoPkg(g.Pkg) {
		return ex.globals, ex.inited
	}
	return ex.w.sharedGlob, ex.w.sharedInited
}

func (ex *Exec) ensurePkgInit(pkg *ssa.Package) {
	if pkg == nil {
		return
	}
	_, inited := ex.inited, ex.inited
	if !isRepoPkg(pkg) {
		inited = ex.w.sharedInited
	}
	if inited[pkg] {
		return
	}
	inited[pkg] = true
	initFn := pkg.Func("init")
	if initFn == nil || initFn.Blocks == nil {
		return
	}
	ex.initing++
	savedCur := ex.cur
	defer func() {
		ex.initing--
		ex.cur = savedCur
	}()
	func() {
		defer func() {
			if r := recover(); r != nil {
				switch r := r.(type) {
				case pathEnd:
					if r.kind == endUnsupported {
						return
					}
					panic(r)
				case *goPanic:
					fmt.Fprintf(os.Stderr, "warning: panic during init of %s: %s\n", pkg.Pkg.Path(), ex.panicMessage(r))
					return
				default:
					panic(r)
				}
			}
		}()
		ex.callFunction(initFn, nil, nil, nil)
	}()
}

func envOr(k, def string) string {
	if v := os.Getenv(k); v != "" {
		return v
	}
	return def
}
