package main

import (
	"go/types"
	"strings"

	"golang.org/x/tools/go/ssa"
)

func fieldIndex(t types.Type, name string) int {
	st := t.Underlying().(*types.Struct)
	for i := 0; i < st.NumFields(); i++ {
		if st.Field(i).Name() == name {
			return i
		}
	}
	panic("no field " + name + " in " + t.String())
}

func escapeDNValue(v string) string {
	var sb strings.Builder
	for k, c := range v {
		escape := false
		switch c {
		case ',', '+', '"', '\\', '<', '>', ';':
			escape = true
		case ' ':
			escape = k == 0 || k == len(v)-1
		case '#':
			escape = k == 0
		}
		if escape {
			sb.WriteRune('\\')
		}
		sb.WriteRune(c)
	}
	return sb.String()
}

// dnValue returns the escaped rendering of an attribute value. For symbolic values the
// engine requires (by a solver query) that no byte needs escaping on this path.
func (ex *Exec) dnValue(s Str) Str {
	if cs, ok := ex.strConcrete(s); ok {
		return mkStr(escapeDNValue(cs))
	}
	tc := ex.tc
	ex.checkOpaque(s, "pkix.Name.String")
	n, b := ex.symParts(s)
	bad := tc.False
	for i, x := range b {
		in := tc.Ult(tc.BV(uint64(i), 64), n)
		sp := tc.False
		for _, c := range []byte{',', '+', '"', '\\', '<', '>', ';'} {
			sp = tc.Or(sp, tc.Eq(x, tc.BV(uint64(c), 8)))
		}
		sp = tc.Or(sp, tc.Not(tc.Ult(x, tc.BV(0x80, 8))))
		isSpace := tc.Eq(x, tc.BV(' ', 8))
		last := tc.Eq(n, tc.BV(uint64(i+1), 64))
		if i == 0 {
			sp = tc.Or(sp, isSpace)
			sp = tc.Or(sp, tc.Eq(x, tc.BV('#', 8)))
		}
		sp = tc.Or(sp, tc.And(isSpace, last))
		bad = tc.Or(bad, tc.And(in, sp))
	}
	if !bad.IsFalse() {
		if ex.sol.CheckWith(bad) != Unsat {
			ex.unsupported("pkix.Name.String: symbolic attribute value may need escaping (constrain the alphabet)")
		}
	}
	return s
}

func init() {
	reg("(crypto/x509/pkix.Name).String", func(ex *Exec, fn *ssa.Function, a []Value) Value {
		name := a[0].(Struct)
		T := fn.Signature.Recv().Type()
		get := func(f string) Value { return name[fieldIndex(T, f)] }
		if en := get("ExtraNames").(Slice); en.a != nil {
			ex.unsupported("pkix.Name.String with ExtraNames")
		}
		if nm := get("Names").(Slice); !nm.n.IsConst() || nm.n.val != 0 {
			ex.unsupported("pkix.Name.String with Names")
		}
		var parts []Str
		multi := func(field, typ string) {
			sl := get(field).(Slice)
			n := ex.concretizeInt(sl.n, "dn-values")
			if n == 0 {
				return
			}
			r := mkStr("")
			for i := 0; i < n; i++ {
				if i > 0 {
					r = ex.strConcat(r, mkStr("+"))
				}
				r = ex.strConcat(r, mkStr(typ+"="))
				r = ex.strConcat(r, ex.dnValue(sl.a[i].(Str)))
			}
			parts = append(parts, r)
		}
		single := func(field, typ string) {
			s := get(field).(Str)
			ln := ex.strLen(s)
			empty := ex.tc.Eq(ln, ex.tc.BV(0, 64))
			if empty.IsTrue() {
				return
			}
			if !empty.IsConst() {
				if ex.decide([]*Term{ex.tc.Not(empty), empty}, "dn-empty") == 1 {
					return
				}
			}
			parts = append(parts, ex.strConcat(mkStr(typ+"="), ex.dnValue(s)))
		}
		multi("Country", "C")
		multi("Province", "ST")
		multi("Locality", "L")
		multi("StreetAddress", "STREET")
		multi("PostalCode", "POSTALCODE")
		multi("Organization", "O")
		multi("OrganizationalUnit", "OU")
		single("CommonName", "CN")
		single("SerialNumber", "SERIALNUMBER")
		r := mkStr("")
		for i := len(parts) - 1; i >= 0; i-- {
			if i < len(parts)-1 {
				r = ex.strConcat(r, mkStr(","))
			}
			r = ex.strConcat(r, parts[i])
		}
		return r
	})
}
