package main

// Exact engine-level models of standard-library functions that cannot run from their SSA
// (assembly, unsafe, reflection) or that would fork needlessly.

import (
	"crypto/sha256"
	"fmt"
	"go/types"
	"strings"
	"time"

	"golang.org/x/tools/go/ssa"
)

func (ex *Exec) sliceAsStr(v Value) Str {
	return ex.byteSliceToStr(v.(Slice))
}

func (ex *Exec) errorString(msg Str) Value {
	// *errors.errorString{s}
	p := ex.w.P.ssaPkgs["errors"]
	t := p.Type("errorString").Type()
	cell := new(Value)
	*cell = Struct{msg}
	return Iface{t: types.NewPointer(t), v: cell}
}

// renderArg converts a value to a native Go value for formatting; ok=false if symbolic/unsupported.
func (ex *Exec) renderArg(v Value, depth int) (any, bool) {
	switch x := v.(type) {
	case Iface:
		if x.t == nil {
			return nil, true
		}
		// error / Stringer
		if depth < 3 {
			if _, isPtr := x.v.(*Value); !isPtr || x.v.(*Value) != nil {
				if r, ok := ex.tryStringMethod(x, "Error"); ok {
					return r, true
				}
				if r, ok := ex.tryStringMethod(x, "String"); ok {
					return r, true
				}
			}
		}
		if b, ok := x.t.Underlying().(*types.Basic); ok {
			tv, ok := x.v.(*Term)
			if ok && tv.IsConst() && tv.sort != 0 && b.Info()&types.IsUnsigned != 0 {
				return tv.val, true
			}
		}
		return ex.renderArg(x.v, depth+1)
	case Str:
		s, ok := ex.strConcrete(x)
		return s, ok
	case *Term:
		if !x.IsConst() {
			return nil, false
		}
		if x.sort == 0 {
			return x.val == 1, true
		}
		return x.Int64(), true
	case float64:
		return x, true
	case Slice:
		if x.a == nil {
			return []any(nil), true
		}
		if !x.n.IsConst() {
			return nil, false
		}
		out := make([]any, int(x.n.val))
		for i := range out {
			r, ok := ex.renderArg(x.a[i], depth+1)
			if !ok {
				return nil, false
			}
			out[i] = r
		}
		return out, true
	}
	return nil, false
}

func (ex *Exec) tryStringMethod(x Iface, name string) (string, bool) {
	ms := ex.w.P.prog.MethodSets.MethodSet(x.t)
	for i := 0; i < ms.Len(); i++ {
		sel := ms.At(i)
		if sel.Obj().Name() != name {
			continue
		}
		sig := sel.Type().(*types.Signature)
		if sig.Params().Len() != 0 || sig.Results().Len() != 1 || !isString(sig.Results().At(0).Type()) {
			return "", false
		}
		fn := ex.w.P.prog.MethodValue(sel)
		if fn == nil {
			return "", false
		}
		var res Value
		ok := func() (ok bool) {
			defer func() {
				if r := recover(); r != nil {
					if pe, isPE := r.(pathEnd); isPE && pe.kind == endUnsupported {
						ok = false
						return
					}
					panic(r)
				}
			}()
			res = ex.callFunction(fn, []Value{x.v}, nil, nil)
			return true
		}()
		if !ok {
			return "", false
		}
		s, ok := ex.strConcrete(res.(Str))
		return s, ok
	}
	return "", false
}

func (ex *Exec) sprintf(format Str, args []Value) Str {
	f, ok := ex.strConcrete(format)
	if !ok {
		return ex.opaqueStr("fmt: symbolic format")
	}
	native := make([]any, len(args))
	saved := ex.cur
	for i, a := range args {
		r, ok := ex.renderArg(a, 0)
		ex.cur = saved
		if !ok {
			if s, ok := ex.sprintfSymbolic(f, args); ok {
				return s
			}
			return ex.opaqueStr("fmt:" + f)
		}
		native[i] = r
	}
	f = strings.ReplaceAll(f, "%w", "%v")
	return mkStr(fmt.Sprintf(f, native...))
}

// sprintfSymbolic formats with symbolic operands where the result is still a plain concatenation: literal text,
// %s / %v of strings, %x of strings, byte slices and byte arrays (two lower-case hex digits per byte), and any
// verb of a concrete operand. Anything else: not handled (the caller falls back to an opaque string).
func (ex *Exec) sprintfSymbolic(f string, args []Value) (Str, bool) {
	out := mkStr("")
	ai := 0
	for i := 0; i < len(f); i++ {
		if f[i] != '%' {
			j := i
			for j < len(f) && f[j] != '%' {
				j++
			}
			out = ex.strConcat(out, mkStr(f[i:j]))
			i = j - 1
			continue
		}
		if i+1 >= len(f) {
			return Str{}, false
		}
		verb := f[i+1]
		i++
		if verb == '%' {
			out = ex.strConcat(out, mkStr("%"))
			continue
		}
		if ai >= len(args) {
			return Str{}, false
		}
		a := args[ai]
		ai++
		if r, ok := ex.renderArg(a, 0); ok {
			out = ex.strConcat(out, mkStr(fmt.Sprintf("%"+string(verb), r)))
			continue
		}
		if x, ok := a.(Iface); ok {
			a = x.v
		}
		switch verb {
		case 's', 'v':
			s, ok := a.(Str)
			if !ok {
				return Str{}, false
			}
			out = ex.strConcat(out, s)
		case 'x':
			var bytes Str
			switch x := a.(type) {
			case Str:
				bytes = x
			case Slice:
				bytes = ex.sliceAsStr(x)
			case Array:
				bytes = ex.sliceAsStr(Slice{a: []Value(x), n: ex.tc.BV(uint64(len(x)), 64)})
			default:
				return Str{}, false
			}
			n, b := ex.symParts(bytes)
			if !n.IsConst() {
				return Str{}, false
			}
			tc := ex.tc
			digit := func(nib *Term) *Term {
				return tc.Ite(tc.Ult(nib, tc.BV(10, 8)), tc.Add(nib, tc.BV('0', 8)), tc.Add(nib, tc.BV('a'-10, 8)))
			}
			var hex []*Term
			for k := 0; k < int(n.val) && k < len(b); k++ {
				hex = append(hex, digit(tc.LShr(b[k], tc.BV(4, 8))), digit(tc.BAnd(b[k], tc.BV(15, 8))))
			}
			out = ex.strConcat(out, ex.normStr(tc.BV(uint64(len(hex)), 64), hex, nil))
		default:
			return Str{}, false
		}
	}
	return out, true
}

func init() {
	// ---- strings -------------------------------------------------------
	reg("strings.Index", func(ex *Exec, fn *ssa.Function, a []Value) Value { return ex.strIndexOf(a[0].(Str), a[1].(Str), false) })
	reg("strings.LastIndex", func(ex *Exec, fn *ssa.Function, a []Value) Value { return ex.strIndexOf(a[0].(Str), a[1].(Str), true) })
	reg("strings.Contains", func(ex *Exec, fn *ssa.Function, a []Value) Value {
		return ex.tc.Not(ex.tc.Eq(ex.strIndexOf(a[0].(Str), a[1].(Str), false), ex.tc.BV(^uint64(0), 64)))
	})
	indexAny := func(last bool) intrinsicFn {
		return func(ex *Exec, fn *ssa.Function, a []Value) Value {
			chars, ok := ex.strConcrete(a[1].(Str))
			if !ok || !asciiOnly(chars) {
				ex.unsupported("strings.IndexAny with a symbolic or non-ASCII character set")
			}
			return ex.strIndexAny(a[0].(Str), chars, last)
		}
	}
	reg("strings.IndexAny", indexAny(false))
	reg("strings.LastIndexAny", indexAny(true))
	reg("strings.ContainsAny", func(ex *Exec, fn *ssa.Function, a []Value) Value {
		idx := indexAny(false)(ex, fn, a).(*Term)
		return ex.tc.Not(ex.tc.Eq(idx, ex.tc.BV(^uint64(0), 64)))
	})
	reg("strings.IndexByte", func(ex *Exec, fn *ssa.Function, a []Value) Value {
		return ex.strIndexByte(a[0].(Str), a[1].(*Term), false)
	})
	reg("strings.LastIndexByte", func(ex *Exec, fn *ssa.Function, a []Value) Value {
		return ex.strIndexByte(a[0].(Str), a[1].(*Term), true)
	})
	reg("internal/bytealg.IndexByteString", func(ex *Exec, fn *ssa.Function, a []Value) Value {
		return ex.strIndexByte(a[0].(Str), a[1].(*Term), false)
	})
	reg("internal/bytealg.IndexByte", func(ex *Exec, fn *ssa.Function, a []Value) Value {
		return ex.strIndexByte(ex.sliceAsStr(a[0]), a[1].(*Term), false)
	})
	reg("internal/bytealg.LastIndexByteString", func(ex *Exec, fn *ssa.Function, a []Value) Value {
		return ex.strIndexByte(a[0].(Str), a[1].(*Term), true)
	})
	reg("internal/bytealg.IndexString", func(ex *Exec, fn *ssa.Function, a []Value) Value { return ex.strIndexOf(a[0].(Str), a[1].(Str), false) })
	reg("internal/bytealg.Index", func(ex *Exec, fn *ssa.Function, a []Value) Value {
		return ex.strIndexOf(ex.sliceAsStr(a[0]), ex.sliceAsStr(a[1]), false)
	})
	reg("internal/bytealg.Equal", func(ex *Exec, fn *ssa.Function, a []Value) Value {
		return ex.strEq(ex.sliceAsStr(a[0]), ex.sliceAsStr(a[1]))
	})
	reg("internal/bytealg.CountString", func(ex *Exec, fn *ssa.Function, a []Value) Value {
		tc := ex.tc
		n, b := ex.symParts(a[0].(Str))
		c := a[1].(*Term)
		r := tc.BV(0, 64)
		for i := range b {
			hit := tc.And(tc.Ult(tc.BV(uint64(i), 64), n), tc.Eq(b[i], c))
			r = tc.Add(r, tc.Ite(hit, tc.BV(1, 64), tc.BV(0, 64)))
		}
		return r
	})
	reg("internal/bytealg.Count", func(ex *Exec, fn *ssa.Function, a []Value) Value {
		return intrinsics["internal/bytealg.CountString"](ex, fn, []Value{ex.sliceAsStr(a[0]), a[1]})
	})
	reg("internal/bytealg.Compare", func(ex *Exec, fn *ssa.Function, a []Value) Value {
		tc := ex.tc
		x, y := ex.sliceAsStr(a[0]), ex.sliceAsStr(a[1])
		lt := ex.strLess(x, y, false)
		eq := ex.strEq(x, y)
		return tc.Ite(eq, tc.BV(0, 64), tc.Ite(lt, tc.BV(^uint64(0), 64), tc.BV(1, 64)))
	})
	reg("internal/stringslite.Index", func(ex *Exec, fn *ssa.Function, a []Value) Value { return ex.strIndexOf(a[0].(Str), a[1].(Str), false) })
	reg("internal/stringslite.IndexByte", func(ex *Exec, fn *ssa.Function, a []Value) Value {
		return ex.strIndexByte(a[0].(Str), a[1].(*Term), false)
	})
	reg("internal/stringslite.HasPrefix", func(ex *Exec, fn *ssa.Function, a []Value) Value { return ex.strHasPrefix(a[0].(Str), a[1].(Str)) })
	reg("internal/stringslite.HasSuffix", func(ex *Exec, fn *ssa.Function, a []Value) Value { return ex.strHasSuffix(a[0].(Str), a[1].(Str)) })
	reg("strings.HasPrefix", func(ex *Exec, fn *ssa.Function, a []Value) Value { return ex.strHasPrefix(a[0].(Str), a[1].(Str)) })
	reg("strings.HasSuffix", func(ex *Exec, fn *ssa.Function, a []Value) Value { return ex.strHasSuffix(a[0].(Str), a[1].(Str)) })
	reg("strings.Compare", func(ex *Exec, fn *ssa.Function, a []Value) Value {
		tc := ex.tc
		x, y := a[0].(Str), a[1].(Str)
		return tc.Ite(ex.strEq(x, y), tc.BV(0, 64), tc.Ite(ex.strLess(x, y, false), tc.BV(^uint64(0), 64), tc.BV(1, 64)))
	})
	reg("internal/bytealg.CompareString", func(ex *Exec, fn *ssa.Function, a []Value) Value {
		tc := ex.tc
		x, y := a[0].(Str), a[1].(Str)
		return tc.Ite(ex.strEq(x, y), tc.BV(0, 64), tc.Ite(ex.strLess(x, y, false), tc.BV(^uint64(0), 64), tc.BV(1, 64)))
	})
	reg("strings.EqualFold", func(ex *Exec, fn *ssa.Function, a []Value) Value {
		return ex.strEqualFoldASCII(a[0].(Str), a[1].(Str))
	})
	reg("strings.Clone", func(ex *Exec, fn *ssa.Function, a []Value) Value { return a[0] })
	reg("strings.ToLower", func(ex *Exec, fn *ssa.Function, a []Value) Value { return ex.strMapCase(a[0].(Str), true) })
	reg("strings.ToUpper", func(ex *Exec, fn *ssa.Function, a []Value) Value { return ex.strMapCase(a[0].(Str), false) })

	// strings.Builder (real code uses unsafe)
	bufOf := func(a Value) *Value { return &(*a.(*Value)).(Struct)[1] }
	reg("(*strings.Builder).WriteString", func(ex *Exec, fn *ssa.Function, a []Value) Value {
		b := bufOf(a[0])
		s := a[1].(Str)
		if s.sym != nil && s.sym.opaque {
			// remember opaqueness through the abs channel
			sl := (*b).(Slice)
			sl.abs = opaqueMark{}
			if sl.a == nil {
				sl.a = []Value{}
			}
			*b = sl
			return Tuple{ex.tc.BV(0, 64), Iface{}}
		}
		*b = ex.appendSlice((*b).(Slice), ex.strToByteSlice(s))
		return Tuple{ex.strLen(s), Iface{}}
	})
	reg("(*strings.Builder).Write", func(ex *Exec, fn *ssa.Function, a []Value) Value {
		b := bufOf(a[0])
		*b = ex.appendSlice((*b).(Slice), a[1].(Slice))
		return Tuple{a[1].(Slice).n, Iface{}}
	})
	reg("(*strings.Builder).WriteByte", func(ex *Exec, fn *ssa.Function, a []Value) Value {
		b := bufOf(a[0])
		*b = ex.appendSlice((*b).(Slice), Slice{a: []Value{a[1]}, n: ex.tc.BV(1, 64)})
		return Iface{}
	})
	reg("(*strings.Builder).WriteRune", func(ex *Exec, fn *ssa.Function, a []Value) Value {
		r := a[1].(*Term)
		if !r.IsConst() {
			// assume ASCII
			isA := ex.tc.Ult(r, ex.tc.BV(0x80, 32))
			if ex.decide([]*Term{isA, ex.tc.Not(isA)}, "writerune") == 1 {
				ex.unsupported("WriteRune of symbolic non-ASCII rune")
			}
			b := bufOf(a[0])
			*b = ex.appendSlice((*b).(Slice), Slice{a: []Value{ex.tc.Extract(r, 8)}, n: ex.tc.BV(1, 64)})
			return Tuple{ex.tc.BV(1, 64), Iface{}}
		}
		s := string(rune(r.Int64()))
		b := bufOf(a[0])
		*b = ex.appendSlice((*b).(Slice), ex.strToByteSlice(mkStr(s)))
		return Tuple{ex.tc.BV(uint64(len(s)), 64), Iface{}}
	})
	reg("(*strings.Builder).String", func(ex *Exec, fn *ssa.Function, a []Value) Value {
		sl := (*bufOf(a[0])).(Slice)
		if _, ok := sl.abs.(opaqueMark); ok {
			return ex.opaqueStr("builder")
		}
		return ex.byteSliceToStr(sl)
	})
	reg("(*strings.Builder).Len", func(ex *Exec, fn *ssa.Function, a []Value) Value { return (*bufOf(a[0])).(Slice).n })
	reg("(*strings.Builder).Grow", func(ex *Exec, fn *ssa.Function, a []Value) Value { return nil })
	reg("(*strings.Builder).Reset", func(ex *Exec, fn *ssa.Function, a []Value) Value {
		*bufOf(a[0]) = Slice{n: ex.tc.BV(0, 64)}
		return nil
	})
	reg("(*strings.Builder).copyCheck", func(ex *Exec, fn *ssa.Function, a []Value) Value { return nil })

	// ---- fmt ------------------------------------------------------------
	reg("fmt.Sprintf", func(ex *Exec, fn *ssa.Function, a []Value) Value { return ex.sprintf(a[0].(Str), varargs(a[1])) })
	reg("fmt.Sprint", func(ex *Exec, fn *ssa.Function, a []Value) Value {
		args := varargs(a[0])
		return ex.sprintf(mkStr(strings.Repeat("%v", len(args))), args)
	})
	reg("fmt.Sprintln", func(ex *Exec, fn *ssa.Function, a []Value) Value {
		args := varargs(a[0])
		return ex.sprintf(mkStr(strings.TrimSpace(strings.Repeat("%v ", len(args)))+"\n"), args)
	})
	reg("fmt.Errorf", func(ex *Exec, fn *ssa.Function, a []Value) Value {
		args := varargs(a[1])
		msg := ex.sprintf(a[0].(Str), args)
		f, _ := ex.strConcrete(a[0].(Str))
		// %w operands
		var wrapped []Value
		if strings.Contains(f, "%w") {
			idx := 0
			for i := 0; i < len(f); i++ {
				if f[i] != '%' {
					continue
				}
				i++
				if i < len(f) && f[i] == '%' {
					continue
				}
				for i < len(f) && strings.IndexByte("+-# 0123456789.[]*", f[i]) >= 0 {
					i++
				}
				if i < len(f) && f[i] == 'w' && idx < len(args) {
					if e, ok := args[idx].(Iface); ok && e.t != nil {
						wrapped = append(wrapped, e)
					}
				}
				idx++
			}
		}
		fp := ex.w.P.ssaPkgs["fmt"]
		switch len(wrapped) {
		case 0:
			return ex.errorString(msg)
		case 1:
			t := fp.Type("wrapError").Type()
			cell := new(Value)
			*cell = Struct{msg, wrapped[0]}
			return Iface{t: types.NewPointer(t), v: cell}
		default:
			t := fp.Type("wrapErrors").Type()
			cell := new(Value)
			*cell = Struct{msg, Slice{a: wrapped, n: ex.tc.BV(uint64(len(wrapped)), 64)}}
			return Iface{t: types.NewPointer(t), v: cell}
		}
	})
	for _, n := range []string{"fmt.Println", "fmt.Printf", "fmt.Print", "fmt.Fprintf", "fmt.Fprintln", "fmt.Fprint"} {
		reg(n, func(ex *Exec, fn *ssa.Function, a []Value) Value { return Tuple{ex.tc.BV(0, 64), Iface{}} })
	}

	// ---- errors ---------------------------------------------------------
	reg("errors.Is", func(ex *Exec, fn *ssa.Function, a []Value) Value {
		err, target := a[0].(Iface), a[1].(Iface)
		if err.t == nil || target.t == nil {
			return ex.tc.Bool(err.t == nil && target.t == nil)
		}
		isFn := ex.w.P.ssaPkgs["errors"].Func("is")
		return ex.callFunction(isFn, []Value{err, target, ex.tc.Bool(types.Comparable(target.t))}, nil, nil)
	})
	reg("errors.As", func(ex *Exec, fn *ssa.Function, a []Value) Value {
		err, target := a[0].(Iface), a[1].(Iface)
		if err.t == nil {
			return ex.tc.False
		}
		if target.t == nil {
			ex.goPanicStr("errors: target cannot be nil")
		}
		pt, ok := target.t.Underlying().(*types.Pointer)
		if !ok || target.v.(*Value) == nil {
			ex.goPanicStr("errors: target must be a non-nil pointer")
		}
		return ex.tc.Bool(ex.errorsAs(err, target.v.(*Value), pt.Elem(), target))
	})

	// ---- sync (single-threaded exploration: locks are no-ops) ------------
	for _, n := range []string{"(*sync.Mutex).Lock", "(*sync.Mutex).Unlock", "(*sync.RWMutex).Lock", "(*sync.RWMutex).Unlock", "(*sync.RWMutex).RLock", "(*sync.RWMutex).RUnlock"} {
		reg(n, func(ex *Exec, fn *ssa.Function, a []Value) Value { return nil })
	}
	reg("(*sync.Mutex).TryLock", func(ex *Exec, fn *ssa.Function, a []Value) Value { return ex.tc.True })
	// sync.Map (single-threaded exploration): an engine map per sync.Map object, keyed by the object's address
	syncMapOf := func(ex *Exec, recv Value) *Map {
		key := fmt.Sprintf("syncmap:%p", recv.(*Value))
		if m, ok := ex.ghost[key]; ok {
			return m.(*Map)
		}
		m := newMap()
		ex.ghost[key] = m
		return m
	}
	reg("(*sync.Map).Load", func(ex *Exec, fn *ssa.Function, a []Value) Value {
		m := syncMapOf(ex, a[0])
		if i := ex.mapFind(m, a[1]); i >= 0 {
			return Tuple{m.vals[i], ex.tc.True}
		}
		return Tuple{Iface{}, ex.tc.False}
	})
	reg("(*sync.Map).Store", func(ex *Exec, fn *ssa.Function, a []Value) Value {
		ex.mapInsert(syncMapOf(ex, a[0]), a[1], a[2])
		return nil
	})
	reg("(*sync.Map).LoadOrStore", func(ex *Exec, fn *ssa.Function, a []Value) Value {
		m := syncMapOf(ex, a[0])
		if i := ex.mapFind(m, a[1]); i >= 0 {
			return Tuple{m.vals[i], ex.tc.True}
		}
		ex.mapInsert(m, a[1], a[2])
		return Tuple{a[2], ex.tc.False}
	})
	reg("(*sync.Map).Delete", func(ex *Exec, fn *ssa.Function, a []Value) Value {
		ex.mapDelete(syncMapOf(ex, a[0]), a[1])
		return nil
	})
	// sync.Pool (single-threaded exploration, no garbage collection): a stack of the values put back, per pool
	// object; Get pops the value put last, else calls New - what the real pool does for one goroutine
	reg("(*sync.Pool).Put", func(ex *Exec, fn *ssa.Function, a []Value) Value {
		key := fmt.Sprintf("syncpool:%p", a[0].(*Value))
		if x, ok := a[1].(Iface); ok && x.t == nil {
			return nil
		}
		st, _ := ex.ghost[key].([]Value)
		ex.ghost[key] = append(append([]Value{}, st...), a[1])
		return nil
	})
	reg("(*sync.Pool).Get", func(ex *Exec, fn *ssa.Function, a []Value) Value {
		recv := a[0].(*Value)
		key := fmt.Sprintf("syncpool:%p", recv)
		if st, _ := ex.ghost[key].([]Value); len(st) > 0 {
			ex.ghost[key] = append([]Value{}, st[:len(st)-1]...)
			return st[len(st)-1]
		}
		// the New field
		pt := fn.Signature.Recv().Type().(*types.Pointer).Elem().Underlying().(*types.Struct)
		for i := 0; i < pt.NumFields(); i++ {
			if pt.Field(i).Name() == "New" {
				if s, ok := (*recv).(Struct); ok && i < len(s) {
					if c, isNil := s[i].(*Value); !(isNil && c == nil) && s[i] != nil {
						return ex.call(s[i])
					}
				}
			}
		}
		return Iface{}
	})
	reg("(*sync.Once).Do", func(ex *Exec, fn *ssa.Function, a []Value) Value {
		p := a[0].(*Value)
		key := fmt.Sprintf("once:%p", p)
		if _, done := ex.ghost[key]; done {
			return nil
		}
		ex.ghost[key] = true
		ex.call(a[1])
		return nil
	})

	reg("(time.Time).Format", func(ex *Exec, fn *ssa.Function, a []Value) Value {
		// concrete wall-clock-only instants in UTC are formatted for real; anything else is opaque text
		t, okT := a[0].(Struct)
		layout, okL := ex.strConcrete(a[1].(Str))
		if okT && okL && len(t) == 3 {
			wall, w1 := t[0].(*Term)
			ext, w2 := t[1].(*Term)
			loc, w3 := t[2].(*Value)
			if w1 && w2 && w3 && wall.IsConst() && ext.IsConst() && loc == nil && wall.val>>63 == 0 {
				const unixToInternal = (1969*365 + 1969/4 - 1969/100 + 1969/400) * 86400
				real := time.Unix(ext.Int64()-unixToInternal, int64(wall.val&(1<<30-1))).UTC()
				return mkStr(real.Format(layout))
			}
		}
		return ex.opaqueStr("time.Format")
	})
	reg("crypto/sha256.Sum256", func(ex *Exec, fn *ssa.Function, a []Value) Value {
		// concrete input: the real digest. Symbolic input is handled by harness-level stubs (uninterpreted digests).
		sl := a[0].(Slice)
		if sl.abs != nil {
			ex.unsupported("sha256.Sum256 of an abstract document")
		}
		in, ok := ex.strConcrete(ex.byteSliceToStr(sl))
		if !ok {
			ex.unsupported("sha256.Sum256 of symbolic bytes (use a harness stub)")
		}
		h := sha256.Sum256([]byte(in))
		arr := make(Array, 32)
		for i := range arr {
			arr[i] = ex.tc.BV(uint64(h[i]), 8)
		}
		return arr
	})
	// sort.Slice / sort.SliceStable: the reflection-based swapper cannot run from SSA; insertion sort over the
	// backing array, asking the caller's less function (symbolic answers fork)
	sortSlice := func(ex *Exec, fn *ssa.Function, a []Value) Value {
		iv := a[0].(Iface)
		sl, ok := iv.v.(Slice)
		if !ok {
			ex.unsupported("sort.Slice of a non-slice")
		}
		n := ex.concretizeInt(sl.n, "sort.Slice length")
		less := func(i, j int) bool {
			r := ex.call(a[1], ex.tc.BV(uint64(i), 64), ex.tc.BV(uint64(j), 64)).(*Term)
			if r.IsConst() {
				return r.IsTrue()
			}
			return ex.decide([]*Term{r, ex.tc.Not(r)}, "sort.Slice less") == 0
		}
		for i := 1; i < n; i++ {
			for j := i; j > 0 && less(j, j-1); j-- {
				sl.a[j], sl.a[j-1] = sl.a[j-1], sl.a[j]
			}
		}
		return nil
	}
	reg("sort.Slice", sortSlice)
	reg("sort.SliceStable", sortSlice)
	reg("(time.Time).String", func(ex *Exec, fn *ssa.Function, a []Value) Value { return ex.opaqueStr("time.String") })
	reg("(time.Time).GoString", func(ex *Exec, fn *ssa.Function, a []Value) Value { return ex.opaqueStr("time.GoString") })
	reg("maps.clone", func(ex *Exec, fn *ssa.Function, a []Value) Value {
		iv := a[0].(Iface)
		m := iv.v.(*Map)
		if m == nil {
			return iv
		}
		n := newMap()
		for i := range m.keys {
			if m.live[i] {
				n.keys = append(n.keys, m.keys[i])
				n.vals = append(n.vals, copyVal(m.vals[i]))
				n.live = append(n.live, true)
				n.cnt++
				if h, ok := ex.hashKey(m.keys[i]); ok {
					n.idx[h] = len(n.keys) - 1
				}
			}
		}
		return Iface{t: iv.t, v: n}
	})
	// ---- misc -------------------------------------------------------------
	reg("runtime.KeepAlive", func(ex *Exec, fn *ssa.Function, a []Value) Value { return nil })
	reg("runtime.SetFinalizer", func(ex *Exec, fn *ssa.Function, a []Value) Value { return nil })
	reg("runtime.GC", func(ex *Exec, fn *ssa.Function, a []Value) Value { return nil })
	reg("internal/godebug.New", func(ex *Exec, fn *ssa.Function, a []Value) Value { return (*Value)(nil) })
	reg("(*internal/godebug.Setting).Value", func(ex *Exec, fn *ssa.Function, a []Value) Value { return mkStr("") })
	reg("(*internal/godebug.Setting).IncNonDefault", func(ex *Exec, fn *ssa.Function, a []Value) Value { return nil })
	reg("reflect.DeepEqual", func(ex *Exec, fn *ssa.Function, a []Value) Value {
		return ex.deepEqual(a[0], a[1], map[[2]*Value]bool{})
	})
	reg("os.Getenv", func(ex *Exec, fn *ssa.Function, a []Value) Value { return mkStr("") })
	reg("os.LookupEnv", func(ex *Exec, fn *ssa.Function, a []Value) Value { return Tuple{mkStr(""), ex.tc.False} })
}

type opaqueMark struct{}

func (ex *Exec) strEqualFoldASCII(a, b Str) *Term {
	tc := ex.tc
	ex.checkOpaque(a, "EqualFold")
	ex.checkOpaque(b, "EqualFold")
	na, ba := ex.symParts(a)
	nb, bb := ex.symParts(b)
	m := len(ba)
	if len(bb) < m {
		m = len(bb)
	}
	r := tc.And(tc.Eq(na, nb), tc.Ule(na, tc.BV(uint64(m), 64)))
	lower := func(x *Term) *Term {
		isUp := tc.And(tc.Ule(tc.BV('A', 8), x), tc.Ule(x, tc.BV('Z', 8)))
		return tc.Ite(isUp, tc.Add(x, tc.BV(32, 8)), x)
	}
	for i := 0; i < m && !r.IsFalse(); i++ {
		in := tc.Ult(tc.BV(uint64(i), 64), na)
		// non-ASCII bytes: compared exactly (Unicode folding beyond ASCII is outside the model)
		r = tc.And(r, tc.Implies(in, tc.Eq(lower(ba[i]), lower(bb[i]))))
	}
	return r
}

func (ex *Exec) strMapCase(s Str, toLower bool) Str {
	tc := ex.tc
	if cs, ok := ex.strConcrete(s); ok {
		if toLower {
			return mkStr(strings.ToLower(cs))
		}
		return mkStr(strings.ToUpper(cs))
	}
	ex.checkOpaque(s, "ToLower/ToUpper")
	n, b := ex.symParts(s)
	out := make([]*Term, len(b))
	for i, x := range b {
		if toLower {
			isUp := tc.And(tc.Ule(tc.BV('A', 8), x), tc.Ule(x, tc.BV('Z', 8)))
			out[i] = tc.Ite(isUp, tc.Add(x, tc.BV(32, 8)), x)
		} else {
			isLo := tc.And(tc.Ule(tc.BV('a', 8), x), tc.Ule(x, tc.BV('z', 8)))
			out[i] = tc.Ite(isLo, tc.Sub(x, tc.BV(32, 8)), x)
		}
	}
	return ex.normStr(n, out, nil)
}

// errorsAs implements errors.As over interpreted values.
func (ex *Exec) errorsAs(err Iface, target *Value, targetType types.Type, targetIface Iface) bool {
	it, isIface := targetType.Underlying().(*types.Interface)
	for depth := 0; depth < 64; depth++ {
		if err.t == nil {
			return false
		}
		if isIface {
			if ex.implements(err.t, it) {
				*target = err
				return true
			}
		} else if types.Identical(err.t, targetType) {
			store(target, err.v)
			return true
		}
		if hasMethod(ex, err.t, "As") {
			if r, ok := ex.callMethod(err, "As", targetIface); ok {
				if t, isT := r.(*Term); isT {
					if !t.IsConst() {
						ex.unsupported("symbolic As method result")
					}
					if t.val == 1 {
						return true
					}
				}
			}
		}
		if !hasMethod(ex, err.t, "Unwrap") {
			return false
		}
		r, ok := ex.callMethod(err, "Unwrap")
		if !ok {
			return false
		}
		switch u := r.(type) {
		case Iface:
			err = u
		case Slice:
			n := ex.concretizeInt(u.n, "unwrap")
			for i := 0; i < n; i++ {
				e := u.a[i].(Iface)
				if e.t != nil && ex.errorsAs(e, target, targetType, targetIface) {
					return true
				}
			}
			return false
		default:
			return false
		}
	}
	return false
}

func hasMethod(ex *Exec, t types.Type, name string) bool {
	ms := ex.w.P.prog.MethodSets.MethodSet(t)
	for i := 0; i < ms.Len(); i++ {
		if ms.At(i).Obj().Name() == name {
			return true
		}
	}
	return false
}

// deepEqual models reflect.DeepEqual.
func (ex *Exec) deepEqual(x, y Value, seen map[[2]*Value]bool) *Term {
	tc := ex.tc
	switch xv := x.(type) {
	case Iface:
		yv, ok := y.(Iface)
		if !ok {
			return tc.False
		}
		if xv.t == nil || yv.t == nil {
			return tc.Bool(xv.t == nil && yv.t == nil)
		}
		if !types.Identical(xv.t, yv.t) {
			return tc.False
		}
		return ex.deepEqual(xv.v, yv.v, seen)
	case *Value:
		yv, ok := y.(*Value)
		if !ok {
			return tc.False
		}
		if xv == yv {
			return tc.True
		}
		if xv == nil || yv == nil {
			return tc.False
		}
		k := [2]*Value{xv, yv}
		if seen[k] {
			return tc.True
		}
		seen[k] = true
		return ex.deepEqual(*xv, *yv, seen)
	case Struct:
		yv, ok := y.(Struct)
		if !ok || len(xv) != len(yv) {
			return tc.False
		}
		r := tc.True
		for i := range xv {
			r = tc.And(r, ex.deepEqual(xv[i], yv[i], seen))
			if r.IsFalse() {
				break
			}
		}
		return r
	case Array:
		yv, ok := y.(Array)
		if !ok || len(xv) != len(yv) {
			return tc.False
		}
		r := tc.True
		for i := range xv {
			r = tc.And(r, ex.deepEqual(xv[i], yv[i], seen))
			if r.IsFalse() {
				break
			}
		}
		return r
	case Slice:
		yv, ok := y.(Slice)
		if !ok {
			return tc.False
		}
		if (xv.a == nil) != (yv.a == nil) {
			return tc.False
		}
		r := tc.Eq(xv.n, yv.n)
		m := len(xv.a)
		if len(yv.a) < m {
			m = len(yv.a)
		}
		for i := 0; i < m && !r.IsFalse(); i++ {
			in := tc.Ult(tc.BV(uint64(i), 64), xv.n)
			if in.IsFalse() {
				break
			}
			r = tc.And(r, tc.Implies(in, ex.deepEqual(xv.a[i], yv.a[i], seen)))
		}
		return r
	case *Map:
		yv, ok := y.(*Map)
		if !ok {
			return tc.False
		}
		if xv == yv {
			return tc.True
		}
		if xv == nil || yv == nil {
			return tc.False
		}
		if xv.cnt != yv.cnt {
			return tc.False
		}
		if !xv.allConcrete() || !yv.allConcrete() {
			ex.unsupported("DeepEqual on maps with symbolic keys")
		}
		r := tc.True
		for i := range xv.keys {
			if !xv.live[i] {
				continue
			}
			h, _ := ex.hashKey(xv.keys[i])
			j, ok := yv.idx[h]
			if !ok {
				return tc.False
			}
			r = tc.And(r, ex.deepEqual(xv.vals[i], yv.vals[j], seen))
		}
		return r
	case *Closure:
		yv, ok := y.(*Closure)
		return tc.Bool(ok && xv == nil && yv == nil)
	}
	return ex.eqValue(x, y)
}
