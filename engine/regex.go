package main

type compiledRegex struct{}
