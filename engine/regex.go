package main

// regexp intrinsic: MustCompile on a constant pattern, MatchString as native evaluation on
// concrete strings and as an unrolled Thompson-NFA simulation (pure Bool/BV formula) on bounded
// symbolic strings. Bytes >= 0x80 are decoded as UTF-8 exactly as package regexp does it (utf8.DecodeRune):
// a well-formed 2-, 3- or 4-byte sequence is one rune of that width, any other byte >= 0x80 is U+FFFD of
// width 1 - so classes that reach beyond ASCII (negated classes, (?i) folding k to U+212A and s to U+017F,
// \pL ...) are matched as the real engine matches them.

import (
	"regexp"
	"regexp/syntax"

	"golang.org/x/tools/go/ssa"
)

type compiledRegex struct {
	pat  string
	re   *regexp.Regexp
	prog *syntax.Prog
	wide map[int][][2]rune // per rune instruction: the ranges of runes >= 0x80 it matches
}

// wideRanges: the runes >= 0x80 that instruction pc matches, as sorted ranges (computed once by asking the
// instruction itself about every rune).
func (cr *compiledRegex) wideRanges(pc int) [][2]rune {
	if r, ok := cr.wide[pc]; ok {
		return r
	}
	in := &cr.prog.Inst[pc]
	var out [][2]rune
	start := rune(-1)
	for r := rune(0x80); r <= 0x110000; r++ {
		m := r <= 0x10FFFF && !(r >= 0xD800 && r <= 0xDFFF) && in.MatchRune(r)
		if r >= 0xD800 && r <= 0xDFFF && start >= 0 {
			continue // surrogates are never decoded: do not split a range over them
		}
		if m && start < 0 {
			start = r
		}
		if !m && start >= 0 {
			out = append(out, [2]rune{start, r - 1})
			start = -1
		}
	}
	if cr.wide == nil {
		cr.wide = map[int][][2]rune{}
	}
	cr.wide[pc] = out
	return out
}

type regexObj struct{ cr *compiledRegex }

func (w *Worker) compileRegex(pat string) (*compiledRegex, error) {
	if cr, ok := w.regexCache[pat]; ok {
		return cr, nil
	}
	re, err := regexp.Compile(pat)
	if err != nil {
		return nil, err
	}
	st, err := syntax.Parse(pat, syntax.Perl)
	if err != nil {
		return nil, err
	}
	prog, err := syntax.Compile(st.Simplify())
	if err != nil {
		return nil, err
	}
	cr := &compiledRegex{pat: pat, re: re, prog: prog}
	w.regexCache[pat] = cr
	return cr, nil
}

func runeInstMatchesByte(tc *TermCtx, in *syntax.Inst, b *Term) *Term {
	// the rune seen for byte b: b if < 0x80 else U+FFFD
	matchRune := func(r rune) bool { return in.MatchRune(r) }
	switch in.Op {
	case syntax.InstRuneAny:
		return tc.True
	case syntax.InstRuneAnyNotNL:
		return tc.Not(tc.Eq(b, tc.BV('\n', 8)))
	}
	// build from ASCII truth table, merged into ranges
	res := tc.False
	start := -1
	for c := 0; c <= 128; c++ {
		m := c < 128 && matchRune(rune(c))
		if m && start < 0 {
			start = c
		}
		if !m && start >= 0 {
			lo, hi := start, c-1
			if lo == hi {
				res = tc.Or(res, tc.Eq(b, tc.BV(uint64(lo), 8)))
			} else {
				res = tc.Or(res, tc.And(tc.Ule(tc.BV(uint64(lo), 8), b), tc.Ule(b, tc.BV(uint64(hi), 8))))
			}
			start = -1
		}
	}
	return res
}

// utf8At: for the bytes from position pos, the conditions under which they start a well-formed sequence of
// width 2, 3, 4 (utf8's accept ranges; all bytes must lie inside the string) and the rune each would decode to.
func utf8At(tc *TermCtx, b []*Term, n *Term, pos int) (valid [5]*Term, val [5]*Term) {
	in := func(x *Term, lo, hi uint64) *Term { return tc.And(tc.Ule(tc.BV(lo, 8), x), tc.Ule(x, tc.BV(hi, 8))) }
	bits := func(x *Term, mask uint64, sh uint64) *Term {
		return tc.Shl(tc.ZExt(tc.BAnd(x, tc.BV(mask, 8)), 32), tc.BV(sh, 32))
	}
	for w := 2; w <= 4; w++ {
		valid[w] = tc.False
	}
	if pos+2 <= len(b) {
		cont1 := in(b[pos+1], 0x80, 0xBF)
		valid[2] = tc.AndN(tc.Ule(tc.BV(uint64(pos+2), 64), n), in(b[pos], 0xC2, 0xDF), cont1)
		val[2] = tc.BOr(bits(b[pos], 0x1F, 6), bits(b[pos+1], 0x3F, 0))
	}
	if pos+3 <= len(b) {
		b0, b1 := b[pos], b[pos+1]
		second := tc.OrN(
			tc.And(tc.Eq(b0, tc.BV(0xE0, 8)), in(b1, 0xA0, 0xBF)),
			tc.And(tc.Or(in(b0, 0xE1, 0xEC), in(b0, 0xEE, 0xEF)), in(b1, 0x80, 0xBF)),
			tc.And(tc.Eq(b0, tc.BV(0xED, 8)), in(b1, 0x80, 0x9F)))
		valid[3] = tc.AndN(tc.Ule(tc.BV(uint64(pos+3), 64), n), second, in(b[pos+2], 0x80, 0xBF))
		val[3] = tc.BOr(tc.BOr(bits(b0, 0x0F, 12), bits(b1, 0x3F, 6)), bits(b[pos+2], 0x3F, 0))
	}
	if pos+4 <= len(b) {
		b0, b1 := b[pos], b[pos+1]
		second := tc.OrN(
			tc.And(tc.Eq(b0, tc.BV(0xF0, 8)), in(b1, 0x90, 0xBF)),
			tc.And(in(b0, 0xF1, 0xF3), in(b1, 0x80, 0xBF)),
			tc.And(tc.Eq(b0, tc.BV(0xF4, 8)), in(b1, 0x80, 0x8F)))
		valid[4] = tc.AndN(tc.Ule(tc.BV(uint64(pos+4), 64), n), second, in(b[pos+2], 0x80, 0xBF), in(b[pos+3], 0x80, 0xBF))
		val[4] = tc.BOr(tc.BOr(bits(b0, 0x07, 18), bits(b1, 0x3F, 12)), tc.BOr(bits(b[pos+2], 0x3F, 6), bits(b[pos+3], 0x3F, 0)))
	}
	return
}

// wideMatch: rune r (32 bits, known to lie in [lo,hi]) is matched by the ranges.
func wideMatch(tc *TermCtx, ranges [][2]rune, r *Term, lo, hi rune) *Term {
	res := tc.False
	for _, rg := range ranges {
		a, z := rg[0], rg[1]
		if z < lo || a > hi {
			continue
		}
		if a <= lo && z >= hi {
			return tc.True
		}
		c := tc.True
		if a > lo {
			c = tc.And(c, tc.Ule(tc.BV(uint64(a), 32), r))
		}
		if z < hi {
			c = tc.And(c, tc.Ule(r, tc.BV(uint64(z), 32)))
		}
		res = tc.Or(res, c)
	}
	return res
}

// regexMatch builds the formula "re matches somewhere in s" (MatchString semantics).
func (ex *Exec) regexMatch(cr *compiledRegex, s Str) *Term {
	tc := ex.tc
	if cs, ok := ex.strConcrete(s); ok {
		return tc.Bool(cr.re.MatchString(cs))
	}
	ex.checkOpaque(s, "regexp match")
	n, b := ex.symParts(s)
	prog := cr.prog
	np := len(prog.Inst)
	capN := len(b)
	matched := tc.False
	// pending[p][pc]: activations arriving at position p (before epsilon closure); runes are 1 to 4 bytes wide
	pending := make([][]*Term, capN+5)
	for p := range pending {
		pending[p] = make([]*Term, np)
		for i := range pending[p] {
			pending[p][i] = tc.False
		}
	}
	// boundary[p]: position p is where the real engine decodes a rune (it never looks inside a sequence)
	boundary := make([]*Term, capN+5)
	for p := range boundary {
		boundary[p] = tc.False
	}
	boundary[0] = tc.True
	for pos := 0; pos <= capN; pos++ {
		active := pending[pos]
		posT := tc.BV(uint64(pos), 64)
		inStr := tc.Ule(posT, n) // position exists (pos <= len)
		// unanchored search: a match attempt may start at every position
		active[prog.Start] = tc.Or(active[prog.Start], tc.And(inStr, boundary[pos]))
		// epsilon closure: DFS from every entry state, carrying whether the path needs end-of-text
		atEnd := tc.Eq(n, posT)
		entries := active
		active = make([]*Term, np)
		for i := range active {
			active[i] = tc.False
		}
		for e := 0; e < np; e++ {
			if entries[e].IsFalse() {
				continue
			}
			visited := map[[2]int]bool{}
			var dfs func(pc int, needEnd int)
			dfs = func(pc int, needEnd int) {
				k := [2]int{pc, needEnd}
				if visited[k] || (needEnd == 1 && visited[[2]int{pc, 0}]) {
					return
				}
				visited[k] = true
				c := entries[e]
				if needEnd == 1 {
					c = tc.And(c, atEnd)
				}
				active[pc] = tc.Or(active[pc], c)
				in := &prog.Inst[pc]
				switch in.Op {
				case syntax.InstAlt, syntax.InstAltMatch:
					dfs(int(in.Out), needEnd)
					dfs(int(in.Arg), needEnd)
				case syntax.InstCapture, syntax.InstNop:
					dfs(int(in.Out), needEnd)
				case syntax.InstEmptyWidth:
					ew := syntax.EmptyOp(in.Arg)
					if ew&(syntax.EmptyBeginLine|syntax.EmptyEndLine|syntax.EmptyWordBoundary|syntax.EmptyNoWordBoundary) != 0 {
						ex.unsupported("regexp: line/word assertions on symbolic strings")
					}
					if ew&syntax.EmptyBeginText != 0 && pos != 0 {
						return
					}
					ne := needEnd
					if ew&syntax.EmptyEndText != 0 {
						ne = 1
					}
					dfs(int(in.Out), ne)
				}
			}
			dfs(e, 0)
		}
		for pc := 0; pc < np; pc++ {
			if prog.Inst[pc].Op == syntax.InstMatch {
				matched = tc.Or(matched, active[pc])
			}
		}
		if pos == capN {
			break
		}
		// consume byte at pos (requires pos < n)
		hasByte := tc.Ult(posT, n)
		valid, val := utf8At(tc, b, n, pos)
		ascii := tc.Ult(b[pos], tc.BV(0x80, 8))
		broken := tc.AndN(tc.Not(ascii), tc.Not(valid[2]), tc.Not(valid[3]), tc.Not(valid[4]))
		boundary[pos+1] = tc.Or(boundary[pos+1], tc.AndN(boundary[pos], hasByte, tc.Or(ascii, broken)))
		for w := 2; w <= 4; w++ {
			boundary[pos+w] = tc.Or(boundary[pos+w], tc.And(boundary[pos], valid[w]))
		}
		spans := [5][2]rune{2: {0x80, 0x7FF}, 3: {0x800, 0xFFFF}, 4: {0x10000, 0x10FFFF}}
		for pc := 0; pc < np; pc++ {
			a := active[pc]
			if a.IsFalse() {
				continue
			}
			in := &prog.Inst[pc]
			switch in.Op {
			case syntax.InstRune, syntax.InstRune1, syntax.InstRuneAny, syntax.InstRuneAnyNotNL:
				m := tc.And(ascii, runeInstMatchesByte(tc, in, b[pos]))
				if in.MatchRune(0xFFFD) {
					m = tc.Or(m, broken)
				}
				pending[pos+1][in.Out] = tc.Or(pending[pos+1][in.Out], tc.AndN(a, hasByte, m))
				ranges := cr.wideRanges(pc)
				for w := 2; w <= 4; w++ {
					if valid[w].IsFalse() {
						continue
					}
					wm := wideMatch(tc, ranges, val[w], spans[w][0], spans[w][1])
					pending[pos+w][in.Out] = tc.Or(pending[pos+w][in.Out], tc.AndN(a, valid[w], wm))
				}
			}
		}
	}
	return matched
}

func init() {
	mk := func(ex *Exec, a []Value) Value {
		pat := ex.concreteStrArg(a[0], "regexp pattern")
		cr, err := ex.w.compileRegex(pat)
		if err != nil {
			ex.goPanicStr("regexp: Compile(" + pat + "): " + err.Error())
		}
		cell := new(Value)
		*cell = regexObj{cr}
		return cell
	}
	reg("regexp.MustCompile", func(ex *Exec, fn *ssa.Function, a []Value) Value { return mk(ex, a) })
	reg("regexp.Compile", func(ex *Exec, fn *ssa.Function, a []Value) Value { return Tuple{mk(ex, a), Iface{}} })
	reg("(*regexp.Regexp).MatchString", func(ex *Exec, fn *ssa.Function, a []Value) Value {
		p := a[0].(*Value)
		if p == nil {
			ex.goPanicStr("runtime error: invalid memory address or nil pointer dereference (nil *regexp.Regexp)")
		}
		return ex.regexMatch((*p).(regexObj).cr, a[1].(Str))
	})
	reg("(*regexp.Regexp).Match", func(ex *Exec, fn *ssa.Function, a []Value) Value {
		p := a[0].(*Value)
		return ex.regexMatch((*p).(regexObj).cr, ex.sliceAsStr(a[1]))
	})
	reg("(*regexp.Regexp).String", func(ex *Exec, fn *ssa.Function, a []Value) Value {
		p := a[0].(*Value)
		return mkStr((*p).(regexObj).cr.pat)
	})
}
