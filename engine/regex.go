package main

// regexp intrinsic: MustCompile on a constant pattern, MatchString as native evaluation on
// concrete strings and as an unrolled Thompson-NFA simulation (pure Bool/BV formula) on bounded
// symbolic strings. Bytes >= 0x80 are treated as one rune U+FFFD each (exact for ASCII classes).

import (
	"regexp"
	"regexp/syntax"

	"golang.org/x/tools/go/ssa"
)

type compiledRegex struct {
	pat  string
	re   *regexp.Regexp
	prog *syntax.Prog
}

type regexObj struct{ cr *compiledRegex }

func (w *Worker) compileRegex(pat string) (*compiledRegex, error) {
	if cr, ok := w.regexCache[pat]; ok {
		return cr, nil
	}
	re, err := regexp.Compile(pat)
	if err != nil {
		return nil, err
	}
	st, err := syntax.Parse(pat, syntax.Perl)
	if err != nil {
		return nil, err
	}
	prog, err := syntax.Compile(st.Simplify())
	if err != nil {
		return nil, err
	}
	cr := &compiledRegex{pat: pat, re: re, prog: prog}
	w.regexCache[pat] = cr
	return cr, nil
}

func runeInstMatchesByte(tc *TermCtx, in *syntax.Inst, b *Term) *Term {
	// the rune seen for byte b: b if < 0x80 else U+FFFD
	matchRune := func(r rune) bool { return in.MatchRune(r) }
	switch in.Op {
	case syntax.InstRuneAny:
		return tc.True
	case syntax.InstRuneAnyNotNL:
		return tc.Not(tc.Eq(b, tc.BV('\n', 8)))
	}
	// build from ASCII truth table, merged into ranges
	res := tc.False
	start := -1
	for c := 0; c <= 128; c++ {
		m := c < 128 && matchRune(rune(c))
		if m && start < 0 {
			start = c
		}
		if !m && start >= 0 {
			lo, hi := start, c-1
			if lo == hi {
				res = tc.Or(res, tc.Eq(b, tc.BV(uint64(lo), 8)))
			} else {
				res = tc.Or(res, tc.And(tc.Ule(tc.BV(uint64(lo), 8), b), tc.Ule(b, tc.BV(uint64(hi), 8))))
			}
			start = -1
		}
	}
	if matchRune(0xFFFD) {
		res = tc.Or(res, tc.Not(tc.Ult(b, tc.BV(0x80, 8))))
	}
	return res
}

// regexMatch builds the formula "re matches somewhere in s" (MatchString semantics).
func (ex *Exec) regexMatch(cr *compiledRegex, s Str) *Term {
	tc := ex.tc
	if cs, ok := ex.strConcrete(s); ok {
		return tc.Bool(cr.re.MatchString(cs))
	}
	ex.checkOpaque(s, "regexp match")
	n, b := ex.symParts(s)
	prog := cr.prog
	np := len(prog.Inst)
	capN := len(b)
	matched := tc.False
	// active[pc] at current position (before epsilon closure)
	active := make([]*Term, np)
	for i := range active {
		active[i] = tc.False
	}
	for pos := 0; pos <= capN; pos++ {
		posT := tc.BV(uint64(pos), 64)
		inStr := tc.Ule(posT, n) // position exists (pos <= len)
		// unanchored search: a match attempt may start at every position
		active[prog.Start] = tc.Or(active[prog.Start], inStr)
		// epsilon closure: DFS from every entry state, carrying whether the path needs end-of-text
		atEnd := tc.Eq(n, posT)
		entries := active
		active = make([]*Term, np)
		for i := range active {
			active[i] = tc.False
		}
		for e := 0; e < np; e++ {
			if entries[e].IsFalse() {
				continue
			}
			visited := map[[2]int]bool{}
			var dfs func(pc int, needEnd int)
			dfs = func(pc int, needEnd int) {
				k := [2]int{pc, needEnd}
				if visited[k] || (needEnd == 1 && visited[[2]int{pc, 0}]) {
					return
				}
				visited[k] = true
				c := entries[e]
				if needEnd == 1 {
					c = tc.And(c, atEnd)
				}
				active[pc] = tc.Or(active[pc], c)
				in := &prog.Inst[pc]
				switch in.Op {
				case syntax.InstAlt, syntax.InstAltMatch:
					dfs(int(in.Out), needEnd)
					dfs(int(in.Arg), needEnd)
				case syntax.InstCapture, syntax.InstNop:
					dfs(int(in.Out), needEnd)
				case syntax.InstEmptyWidth:
					ew := syntax.EmptyOp(in.Arg)
					if ew&(syntax.EmptyBeginLine|syntax.EmptyEndLine|syntax.EmptyWordBoundary|syntax.EmptyNoWordBoundary) != 0 {
						ex.unsupported("regexp: line/word assertions on symbolic strings")
					}
					if ew&syntax.EmptyBeginText != 0 && pos != 0 {
						return
					}
					ne := needEnd
					if ew&syntax.EmptyEndText != 0 {
						ne = 1
					}
					dfs(int(in.Out), ne)
				}
			}
			dfs(e, 0)
		}
		for pc := 0; pc < np; pc++ {
			if prog.Inst[pc].Op == syntax.InstMatch {
				matched = tc.Or(matched, active[pc])
			}
		}
		if pos == capN {
			break
		}
		// consume byte at pos (requires pos < n)
		hasByte := tc.Ult(posT, n)
		next := make([]*Term, np)
		for i := range next {
			next[i] = tc.False
		}
		for pc := 0; pc < np; pc++ {
			a := active[pc]
			if a.IsFalse() {
				continue
			}
			in := &prog.Inst[pc]
			switch in.Op {
			case syntax.InstRune, syntax.InstRune1, syntax.InstRuneAny, syntax.InstRuneAnyNotNL:
				m := runeInstMatchesByte(tc, in, b[pos])
				next[in.Out] = tc.Or(next[in.Out], tc.AndN(a, hasByte, m))
			}
		}
		active = next
	}
	return matched
}

func init() {
	mk := func(ex *Exec, a []Value) Value {
		pat := ex.concreteStrArg(a[0], "regexp pattern")
		cr, err := ex.w.compileRegex(pat)
		if err != nil {
			ex.goPanicStr("regexp: Compile(" + pat + "): " + err.Error())
		}
		cell := new(Value)
		*cell = regexObj{cr}
		return cell
	}
	reg("regexp.MustCompile", func(ex *Exec, fn *ssa.Function, a []Value) Value { return mk(ex, a) })
	reg("regexp.Compile", func(ex *Exec, fn *ssa.Function, a []Value) Value { return Tuple{mk(ex, a), Iface{}} })
	reg("(*regexp.Regexp).MatchString", func(ex *Exec, fn *ssa.Function, a []Value) Value {
		p := a[0].(*Value)
		if p == nil {
			ex.goPanicStr("runtime error: invalid memory address or nil pointer dereference (nil *regexp.Regexp)")
		}
		return ex.regexMatch((*p).(regexObj).cr, a[1].(Str))
	})
	reg("(*regexp.Regexp).Match", func(ex *Exec, fn *ssa.Function, a []Value) Value {
		p := a[0].(*Value)
		return ex.regexMatch((*p).(regexObj).cr, ex.sliceAsStr(a[1]))
	})
	reg("(*regexp.Regexp).String", func(ex *Exec, fn *ssa.Function, a []Value) Value {
		p := a[0].(*Value)
		return mkStr((*p).(regexObj).cr.pat)
	})
}
