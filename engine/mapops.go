package main

// Maps are insertion-ordered association lists. Keys that are fully concrete and hashable
// get an index for O(1) lookup; lookups with symbolic keys fork on which entry matches.

func newMap() *Map {
	return &Map{idx: map[any]int{}}
}

type ifaceKey struct {
	t string
	k any
}

// hashKey returns a Go-comparable representation of a fully concrete key, or ok=false.
func (ex *Exec) hashKey(k Value) (any, bool) {
	switch kv := k.(type) {
	case *Term:
		if kv.IsConst() {
			return [2]uint64{uint64(kv.sort), kv.val}, true
		}
	case Str:
		if s, ok := ex.strConcrete(kv); ok {
			return s, true
		}
	case float64:
		return kv, true
	case *Value:
		return kv, true
	case Iface:
		if kv.t == nil {
			return ifaceKey{}, true
		}
		if h, ok := ex.hashKey(kv.v); ok {
			return ifaceKey{kv.t.String(), h}, true
		}
	case Struct:
		var parts [4]any
		if len(kv) > 4 {
			return nil, false
		}
		for i, f := range kv {
			h, ok := ex.hashKey(f)
			if !ok {
				return nil, false
			}
			parts[i] = h
		}
		return parts, true
	}
	return nil, false
}

func (m *Map) allConcrete() bool { return len(m.idx) == m.cnt }

// mapFind returns the index of the entry equal to key, or -1. May fork.
func (ex *Exec) mapFind(m *Map, key Value) int {
	if h, ok := ex.hashKey(key); ok && m.allConcrete() {
		if i, ok := m.idx[h]; ok {
			return i
		}
		return -1
	}
	tc := ex.tc
	var conds []*Term
	var idxs []int
	none := tc.True
	for i := range m.keys {
		if !m.live[i] {
			continue
		}
		eq := ex.eqValue(m.keys[i], key)
		if eq.IsFalse() {
			continue
		}
		if eq.IsTrue() {
			// definite match (earlier entries are distinct keys)
			if len(conds) == 0 {
				return i
			}
		}
		conds = append(conds, tc.And(none, eq))
		idxs = append(idxs, i)
		none = tc.And(none, tc.Not(eq))
		if eq.IsTrue() {
			break
		}
	}
	if len(conds) == 0 {
		return -1
	}
	conds = append(conds, none)
	idxs = append(idxs, -1)
	return idxs[ex.decide(conds, "map-key")]
}

func (ex *Exec) mapInsert(m *Map, key, val Value) {
	i := ex.mapFind(m, key)
	if i >= 0 {
		m.vals[i] = val
		return
	}
	m.keys = append(m.keys, key)
	m.vals = append(m.vals, val)
	m.live = append(m.live, true)
	m.cnt++
	if h, ok := ex.hashKey(key); ok {
		m.idx[h] = len(m.keys) - 1
	}
}

func (ex *Exec) mapDelete(m *Map, key Value) {
	i := ex.mapFind(m, key)
	if i < 0 {
		return
	}
	m.live[i] = false
	m.cnt--
	if h, ok := ex.hashKey(m.keys[i]); ok {
		delete(m.idx, h)
	}
}
