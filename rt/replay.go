//go:build verif

package zzvr

import (
	"encoding/json"
	"fmt"
	"os"
	"strings"
)

type NativeResult struct {
	File     string   `json:"file"`
	Harness  string   `json:"harness"`
	Failed   []string `json:"failed"`
	Evaluated []string `json:"evaluated"`
	Reached  []string `json:"reached"`
	Notes    []string `json:"notes"`
	Panicked bool     `json:"panicked"`
	PanicVal string   `json:"panic_value,omitempty"`
	Diverged string   `json:"diverged,omitempty"`
	Missing  bool     `json:"missing_harness,omitempty"`
	Skipped  bool     `json:"skipped,omitempty"`
}

// ReplayMain runs every replay file listed in $VSYM_REPLAY_LIST (one path per line) against
// the harness it names and writes the native outcomes as JSON to $VSYM_REPLAY_OUT.
func ReplayMain(harnesses map[string]func()) error {
	list := os.Getenv("VSYM_REPLAY_LIST")
	if list == "" {
		return nil
	}
	b, err := os.ReadFile(list)
	if err != nil {
		return err
	}
	var results []NativeResult
	ran := map[string]int{} // witnesses of a harness that ran natively (not skipped)
	for _, f := range strings.Split(strings.TrimSpace(string(b)), "\n") {
		if f == "" {
			continue
		}
		if err := Load(f); err != nil {
			return err
		}
		if cur.Kind == "witness" && cur.Want > 0 && ran[Harness()] >= cur.Want {
			// witness candidates beyond the quota (the pool is larger because some are skipped natively)
			continue
		}
		r := NativeResult{File: f, Harness: Harness()}
		h, ok := harnesses[Harness()]
		if !ok {
			r.Missing = true
			results = append(results, r)
			continue
		}
		p, v := Run(h)
		r.Failed, r.Reached, r.Notes, r.Diverged = Out.Failed, Out.Reached, Out.Notes, Out.Diverged
		r.Skipped = Out.Skipped
		r.Evaluated = Out.Evaluated
		r.Panicked = p
		if p {
			r.PanicVal = fmt.Sprint(v)
		}
		if cur.Kind == "witness" && !r.Skipped {
			ran[Harness()]++
		}
		results = append(results, r)
	}
	out, _ := json.MarshalIndent(results, "", " ")
	return os.WriteFile(os.Getenv("VSYM_REPLAY_OUT"), out, 0o644)
}
