//go:build verif

// Package zzvr is the harness runtime. Under the symbolic engine (vsym) every function of
// this package is intercepted; the bodies below are the *native* implementation used when a
// counterexample or witness is replayed against the real build: draws are read, in order, from
// the replay file named by VSYM_REPLAY.
package zzvr

import (
	"encoding/json"
	"fmt"
	"os"
	"strconv"
)

type drawRec struct {
	Tag   string          `json:"tag"`
	Kind  string          `json:"kind"`
	Value json.RawMessage `json:"value"`
}

type replayFile struct {
	Harness string            `json:"harness"`
	Label   string            `json:"label"`
	Kind    string            `json:"kind"`
	Draws   []drawRec         `json:"draws"`
	Tier    int               `json:"tier"`
	Params  map[string]int    `json:"params"`
	Extra   map[string]string `json:"extra"`
	Want    int               `json:"want"` // witness quota of the harness (ReplayMain)
}

// Outcome of a native run, inspected by the replay test driver.
type Outcome struct {
	Failed    []string // labels of failed assertions
	Evaluated []string // labels of every assertion the native run evaluated (failed or not)
	Reached   []string
	Notes     []string
	AssumeBad bool // an assumption did not hold natively (replay diverged)
	Diverged  string
	Skipped   bool // the harness declared the drawn case not realisable natively
}

var (
	cur  *replayFile
	pos  int
	Out  Outcome
	tier int
)

type stopPanic struct{}
type divergePanic struct{ msg string }

// Load prepares a native replay.
func Load(path string) error {
	b, err := os.ReadFile(path)
	if err != nil {
		return err
	}
	rf := &replayFile{}
	if err := json.Unmarshal(b, rf); err != nil {
		return err
	}
	cur = rf
	pos = 0
	tier = rf.Tier
	Out = Outcome{}
	return nil
}

func Harness() string { return cur.Harness }
func Label() string   { return cur.Label }
func Kind() string    { return cur.Kind }

// Run executes f natively and reports whether it panicked (with the panic value).
func Run(f func()) (panicked bool, val any) {
	defer func() {
		if r := recover(); r != nil {
			switch r := r.(type) {
			case stopPanic:
				return
			case divergePanic:
				Out.Diverged = r.msg
				return
			}
			panicked = true
			val = r
		}
	}()
	f()
	return
}

func next(tag, kind string) drawRec {
	if cur == nil {
		panic("zzvr: no replay loaded (native mode needs VSYM_REPLAY)")
	}
	if pos >= len(cur.Draws) && len(Out.Failed) > 0 {
		// the recorded path ended at the assertion that failed: nothing more to replay
		panic(stopPanic{})
	}
	if pos >= len(cur.Draws) {
		panic(divergePanic{fmt.Sprintf("draw %q beyond the recorded %d draws", tag, len(cur.Draws))})
	}
	d := cur.Draws[pos]
	pos++
	// tags carry a #k suffix for repeated draws; compare the base
	base := d.Tag
	for i := len(base) - 1; i >= 0; i-- {
		if base[i] == '#' {
			if _, err := strconv.Atoi(base[i+1:]); err == nil {
				base = base[:i]
			}
			break
		}
	}
	if base != sanitize(tag) {
		panic(divergePanic{fmt.Sprintf("draw %d: recorded tag %q, harness asks %q", pos-1, d.Tag, tag)})
	}
	return d
}

func sanitize(tag string) string {
	b := []byte(tag)
	for i, c := range b {
		if c == '|' || c == '\\' || c == ' ' || c == '"' {
			b[i] = '_'
		}
	}
	return string(b)
}

func Bool(tag string) bool {
	d := next(tag, "bool")
	var v bool
	json.Unmarshal(d.Value, &v)
	return v
}

func Int(tag string, lo, hi int) int {
	d := next(tag, "int")
	var v int64
	json.Unmarshal(d.Value, &v)
	return int(v)
}

func Int64(tag string) int64 {
	d := next(tag, "int")
	var v int64
	json.Unmarshal(d.Value, &v)
	return v
}

func Byte(tag string) byte {
	d := next(tag, "uint")
	var v uint64
	json.Unmarshal(d.Value, &v)
	return byte(v)
}

// Byte2 draws a byte in [lo, hi].
func Byte2(tag string, lo, hi byte) byte {
	d := next(tag, "uint")
	var v uint64
	json.Unmarshal(d.Value, &v)
	return byte(v)
}

// ByteIn draws a byte from a set of bytes (ranges as in StrIn).
func ByteIn(tag string, alphabet string) byte {
	d := next(tag, "uint")
	var v uint64
	json.Unmarshal(d.Value, &v)
	return byte(v)
}

func bytesOf(d drawRec) []byte {
	var v []int
	json.Unmarshal(d.Value, &v)
	b := make([]byte, len(v))
	for i, x := range v {
		b[i] = byte(x)
	}
	return b
}

func Str(tag string, capacity int) string                  { return string(bytesOf(next(tag, "str"))) }
func StrIn(tag string, capacity int, alphabet string) string { return string(bytesOf(next(tag, "str"))) }
func StrN(tag string, n int) string                        { return string(bytesOf(next(tag, "str"))) }
func Bytes(tag string, capacity int) []byte                { return bytesOf(next(tag, "bytes")) }
func Token(tag string) []byte                              { return bytesOf(next(tag, "bytes")) }

// OpaqueBytes draws a []byte of arbitrary length and capacity whose content is irrelevant. Natively a
// drawn size above 1 MiB cannot be materialised: the replay is declared not realisable.
func OpaqueBytes(tag string) []byte {
	d := next(tag, "opaque")
	var v []int64
	json.Unmarshal(d.Value, &v)
	if len(v) != 2 || v[0] < 0 || v[1] < v[0] {
		panic(divergePanic{"OpaqueBytes: bad recorded value"})
	}
	if v[1] > 1<<20 {
		SkipNative()
	}
	return make([]byte, v[0], v[1])
}

func OneOf(tag string, menu ...string) string {
	d := next(tag, "int")
	var v int64
	json.Unmarshal(d.Value, &v)
	if v < 0 || int(v) >= len(menu) {
		panic(divergePanic{"OneOf index out of range"})
	}
	return menu[v]
}

func Choice(tag string, n int) int {
	d := next(tag, "choice")
	var v int64
	json.Unmarshal(d.Value, &v)
	return int(v)
}

func Assume(c bool) {
	if !c {
		Out.AssumeBad = true
		panic(divergePanic{"assumption does not hold natively"})
	}
}

func Assert(c bool, label string) {
	seen := false
	for _, l := range Out.Evaluated {
		if l == label {
			seen = true
			break
		}
	}
	if !seen {
		Out.Evaluated = append(Out.Evaluated, label)
	}
	if !c {
		Out.Failed = append(Out.Failed, label)
	}
}

func Reach(label string)     { Out.Reached = append(Out.Reached, label) }

// SkipNative ends a native replay whose drawn case cannot be realised against the real environment
// (e.g. an instant equal to the real clock). No-op under the engine.
func SkipNative() {
	Out.Skipped = true
	panic(stopPanic{})
}
// Unsupported ends the path as inconclusive under the engine; natively the replay is not realisable.
func Unsupported(msg string) { SkipNative() }
func Note(s string)          { Out.Notes = append(Out.Notes, s) }
func FindingKey(s string)    {}
func ExpectPanic(b bool)     {}
func Stop()                  { panic(stopPanic{}) }
func Tier() int              { return tier }
func Symbolic() bool         { return false }
func Param(name string, def int) int {
	if cur != nil {
		if v, ok := cur.Params[name]; ok {
			return v
		}
	}
	return def
}

func And(cs ...bool) bool {
	for _, c := range cs {
		if !c {
			return false
		}
	}
	return true
}

func Or(cs ...bool) bool {
	for _, c := range cs {
		if c {
			return true
		}
	}
	return false
}

func Not(c bool) bool        { return !c }
func Implies(a, b bool) bool { return !a || b }
func Iff(a, b bool) bool     { return a == b }

func IteInt(c bool, a, b int) int {
	if c {
		return a
	}
	return b
}

func IteBool(c bool, a, b bool) bool {
	if c {
		return a
	}
	return b
}

func IteStr(c bool, a, b string) string {
	if c {
		return a
	}
	return b
}

func Fork(c bool) bool             { return c }
func ConcretizeInt(v int) int      { return v }
func Concretize(s string) string   { return s }
