//go:build verif

package zzvr

import (
	"bytes"
	"encoding/json"
)

// J is a JSON document under construction. Under the engine it is an abstract tree with
// symbolic leaves; natively it renders to real JSON text (object member order preserved).
type J struct{ v any }

type jobj struct {
	keys []string
	vals []J
}

type jraw struct{ text []byte }

func (j J) render(sb *bytes.Buffer) {
	switch x := j.v.(type) {
	case *jobj:
		sb.WriteByte('{')
		for i := range x.keys {
			if i > 0 {
				sb.WriteByte(',')
			}
			kb, _ := json.Marshal(x.keys[i])
			sb.Write(kb)
			sb.WriteByte(':')
			x.vals[i].render(sb)
		}
		sb.WriteByte('}')
	case []J:
		sb.WriteByte('[')
		for i, e := range x {
			if i > 0 {
				sb.WriteByte(',')
			}
			e.render(sb)
		}
		sb.WriteByte(']')
	case jraw:
		sb.Write(x.text)
	default:
		b, _ := json.Marshal(x)
		sb.Write(b)
	}
}

// JObj builds an object from alternating key (string) / value (J) arguments.
func JObj(kv ...any) J {
	o := &jobj{}
	for i := 0; i+1 < len(kv); i += 2 {
		o.keys = append(o.keys, kv[i].(string))
		o.vals = append(o.vals, kv[i+1].(J))
	}
	return J{o}
}

func JArr(elems ...J) J   { return J{append([]J{}, elems...)} }
func JStr(s string) J     { return J{s} }
func JNum(n int64) J      { return J{n} }
func JBool(b bool) J      { return J{b} }
func JNull() J            { return J{nil} }
func JBad() J             { return J{jraw{[]byte("{not json")}} }
func JBytesVal(b []byte) J { return J{b} }

// JTrailing: the document followed by trailing non-whitespace bytes (a syntax error for json.Unmarshal; a
// streaming json.Decoder stops after the document).
func JTrailing(j J) J {
	var sb bytes.Buffer
	j.render(&sb)
	sb.WriteString(" trailing")
	return J{jraw{sb.Bytes()}}
}

// JSONBytes renders the document.
func JSONBytes(j J) []byte {
	var sb bytes.Buffer
	j.render(&sb)
	return sb.Bytes()
}

// JSONEqual reports whether data is JSON text denoting the same document as j (member order ignored).
func JSONEqual(data []byte, j J) bool {
	var a, b any
	if json.Unmarshal(data, &a) != nil {
		return false
	}
	if json.Unmarshal(JSONBytes(j), &b) != nil {
		return false
	}
	x, _ := json.Marshal(a)
	y, _ := json.Marshal(b)
	return bytes.Equal(x, y)
}
